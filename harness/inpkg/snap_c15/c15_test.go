// C15 — snap-initiated refresh holds are bounded.
//
// Runtime monitor for overlord/snapstate/autorefresh_gating.go. The real
// HoldRefresh / ProceedWithRefresh / HoldRefreshesBySystem / HeldSnaps /
// resetGatingForRefreshed / pruneSnapsHold / pruneGating run on a bare
// state.State under a virtual clock (timeNow). A reference model that only
// knows the *statement* (episode start per (held, holder), last refresh per
// snap, the two bounds BY VALUE, the administrator's requested time) judges
// every HoldRefresh result and every HeldSnaps answer, at the instant of each
// operation and at a sweep of probe instants around every bound.
//
// Nothing of snapd's gating logic is copied here: the model never looks at
// "snaps-hold" (it is only dumped into witnesses) and never uses snapd's
// constants (maxPostponement, maxPostponementBuffer, maxOtherHoldDuration).
package snapstate

import (
	"encoding/json"
	"fmt"
	"math"
	"math/rand"
	"os"
	"sort"
	"strings"
	"testing"
	"time"

	kit "verifkit"

	"github.com/snapcore/snapd/overlord/snapstate/sequence"
	"github.com/snapcore/snapd/overlord/state"
	"github.com/snapcore/snapd/snap"
)

// The bounds of the statement, by value.
const (
	c15OtherBound = 48 * time.Hour      // another snap, since first held in the episode
	c15TotalBound = 90 * 24 * time.Hour // any snap, since its last refresh
)

var c15Names = []string{"snap-a", "snap-b", "snap-c", "snap-d"}

// ---- reference model ------------------------------------------------------------

type c15Episode struct {
	Start time.Time `json:"start"`
	Live  bool      `json:"live"`
	Ended string    `json:"ended,omitempty"`
	Holds int       `json:"holds"`
}

type c15SysHold struct {
	SetAt        time.Time `json:"set-at"`
	Until        time.Time `json:"until"`
	Forever      bool      `json:"forever"`
	Level        HoldLevel `json:"level"`
	SinceRefresh bool      `json:"refreshed-since"`
}

type c15Key struct{ Held, Holder string }

type c15Model struct {
	installed   map[string]bool
	lastRefresh map[string]time.Time
	ep          map[c15Key]*c15Episode
	sys         map[string]*c15SysHold
}

func (m *c15Model) dump() map[string]interface{} {
	eps := map[string]*c15Episode{}
	for k, e := range m.ep {
		eps[k.Held+" held-by "+k.Holder] = e
	}
	lr := map[string]string{}
	for n, t := range m.lastRefresh {
		if m.installed[n] {
			lr[n] = t.Format(time.RFC3339Nano)
		}
	}
	return map[string]interface{}{"episodes": eps, "system-holds": m.sys, "last-refresh": lr}
}

func (m *c15Model) installedNames() []string {
	var out []string
	for _, n := range c15Names {
		if m.installed[n] {
			out = append(out, n)
		}
	}
	return out
}

// bounds of a live or would-be episode of holder G on X starting at start.
func (m *c15Model) bounds(x, g string, start time.Time) (b48 time.Time, has48 bool, b90 time.Time) {
	b90 = m.lastRefresh[x].Add(c15TotalBound)
	if g != x {
		return start.Add(c15OtherBound), true, b90
	}
	return time.Time{}, false, b90
}

// ---- operations -------------------------------------------------------------------

type c15Op struct {
	Kind    string   `json:"op"`
	Snap    string   `json:"snap,omitempty"`
	Snaps   []string `json:"snaps,omitempty"`
	Level   string   `json:"level,omitempty"`
	Time    string   `json:"time,omitempty"`
	Advance string   `json:"advance,omitempty"`
	Now     string   `json:"now"`
	Result  string   `json:"result,omitempty"`
	shape   string
}

type c15Run struct {
	c     *kit.Check
	t     *testing.T
	idx   int
	r     *rand.Rand
	st    *state.State
	m     *c15Model
	now   time.Time
	ops   []c15Op
	setup map[string]string

	// holds snapd reported at the clock's position in the last observation
	lastReported map[c15Key]bool

	accepted, refused int
	crossed           bool
	failed            bool
}

func c15LevelName(l HoldLevel) string {
	if l == HoldGeneral {
		return "general"
	}
	return "auto-refresh"
}

func (h *c15Run) witness(extra map[string]interface{}) map[string]interface{} {
	var raw json.RawMessage
	h.st.Get("snaps-hold", &raw)
	w := map[string]interface{}{
		"case_index": h.idx,
		"setup":      h.setup,
		"ops":        h.ops,
		"now":        h.now.Format(time.RFC3339Nano),
		"model":      h.m.dump(),
		"snaps-hold": raw,
	}
	for k, v := range extra {
		w[k] = v
	}
	return w
}

func (h *c15Run) violation(sig string, extra map[string]interface{}) {
	h.failed = true
	h.c.Violation(sig, h.witness(extra))
}

func (h *c15Run) install(name string, lr time.Time) {
	si := &snap.SideInfo{RealName: name, SnapID: name + "-id", Revision: snap.R(1)}
	Set(h.st, name, &SnapState{
		Active:          true,
		Sequence:        sequence.SnapSequence{Revisions: []*sequence.RevisionSideState{sequence.NewRevisionSideState(si, nil)}},
		Current:         si.Revision,
		SnapType:        "app",
		LastRefreshTime: &lr,
	})
	h.m.installed[name] = true
	h.m.lastRefresh[name] = lr
}

// judge evaluates one HeldSnaps answer taken at instant tau (== h.now for the
// real clock position, later for probes).
func (h *c15Run) judge(tau time.Time, level HoldLevel, held map[string][]string, probe bool) {
	m := h.m
	h.c.Count("heldsnaps_calls", 1)
	if probe {
		h.c.Count("probes", 1)
	}
	reported := map[c15Key]bool{}
	if !probe && level == HoldAutoRefresh {
		h.lastReported = reported
	}
	for x, holders := range held {
		for _, g := range holders {
			reported[c15Key{x, g}] = true
			extra := map[string]interface{}{"at": tau.Format(time.RFC3339Nano), "level": c15LevelName(level), "held": x, "holder": g, "probe": probe}
			if g == "system" {
				h.c.Count("system_hold_reported", 1)
				s := m.sys[x]
				if s == nil {
					h.violation("C15:reported-hold-never-requested:system", extra)
					continue
				}
				if !s.Forever && tau.After(s.Until) {
					sig := "C15:system-hold-overstays"
					if s.Until.Equal(s.SetAt) {
						sig += ":until-equals-now"
					}
					h.violation(sig, extra)
				}
				continue
			}
			h.c.Count("gating_hold_reported", 1)
			e := m.ep[c15Key{x, g}]
			if e == nil {
				h.violation("C15:reported-hold-never-requested:snap", extra)
				continue
			}
			if !e.Live {
				// snapd still reports a hold whose episode the model considers
				// over; the bounds are then judged against the old start (the
				// holder "first held it" then), which can only be stricter.
				h.c.Count("reported_after_episode_end", 1)
				h.c.Count("reported_after_episode_end_by_"+e.Ended, 1)
			}
			b48, has48, b90 := m.bounds(x, g, e.Start)
			extra["episode-start"] = e.Start.Format(time.RFC3339Nano)
			extra["last-refresh"] = m.lastRefresh[x].Format(time.RFC3339Nano)
			if has48 && tau.After(b48) {
				extra["over"] = tau.Sub(b48).String()
				h.violation("C15:held-past-48h-of-first-hold", extra)
			}
			if tau.After(b90) {
				extra["over"] = tau.Sub(b90).String()
				sig := "C15:held-past-90d-of-last-refresh"
				if g == x {
					sig += ":self"
				} else {
					sig += ":other"
				}
				h.violation(sig, extra)
			}
		}
	}
	// live episodes past a bound: must not be reported (judged above); count
	// how often the "stops being reported" clause was exercised.
	for k, e := range m.ep {
		if !e.Live {
			continue
		}
		b48, has48, b90 := m.bounds(k.Held, k.Holder, e.Start)
		past := (has48 && tau.After(b48)) || tau.After(b90)
		if past {
			if !probe {
				h.crossed = true
			}
			if !reported[k] && level == HoldAutoRefresh {
				h.c.Count("live_episode_past_bound_not_reported", 1)
			}
		}
	}
	// administrator holds last until their time / forever
	for x, s := range m.sys {
		if s.Level < level {
			continue
		}
		if s.Forever || tau.Before(s.Until) {
			if reported[c15Key{x, "system"}] {
				if s.SinceRefresh {
					h.c.Count("system_hold_reported_after_refresh", 1)
				}
				continue
			}
			sig := "C15:system-hold-not-reported"
			if s.SinceRefresh {
				sig += ":after-refresh"
			}
			h.violation(sig, map[string]interface{}{"at": tau.Format(time.RFC3339Nano), "level": c15LevelName(level), "held": x, "probe": probe, "system-hold": s})
		} else if tau.After(s.Until) && !reported[c15Key{x, "system"}] {
			h.c.Count("system_hold_expired_not_reported", 1)
		}
	}
}

func (h *c15Run) observe(tau time.Time, probe bool) {
	saved := h.now
	h.now = tau
	for _, level := range []HoldLevel{HoldAutoRefresh, HoldGeneral} {
		held, err := HeldSnaps(h.st, level)
		if err != nil {
			h.violation("C15:heldsnaps-error", map[string]interface{}{"error": err.Error(), "at": tau.Format(time.RFC3339Nano)})
			continue
		}
		h.judge(tau, level, held, probe)
	}
	h.now = saved
}

// probe offsets around every bound. Nothing is judged at the bound itself and
// the clock is also moved exactly onto bounds by the workload, so the quick
// tier leaves out 0 and -1ns.
var c15Offsets = func() []time.Duration {
	if kit.Quick() {
		return []time.Duration{-time.Hour, -time.Second, 1, time.Second, time.Hour}
	}
	return []time.Duration{-time.Hour, -time.Second, -1, 0, 1, time.Second, time.Hour}
}()

// boundaries returns every instant at which the statement changes its mind
// about some current hold.
func (h *c15Run) boundaries() []time.Time {
	seen := map[int64]bool{}
	var out []time.Time
	add := func(t time.Time) {
		if !seen[t.UnixNano()] {
			seen[t.UnixNano()] = true
			out = append(out, t)
		}
	}
	keys := make([]c15Key, 0, len(h.m.ep))
	for k := range h.m.ep {
		keys = append(keys, k)
	}
	sort.Slice(keys, func(i, j int) bool {
		if keys[i].Held != keys[j].Held {
			return keys[i].Held < keys[j].Held
		}
		return keys[i].Holder < keys[j].Holder
	})
	for _, k := range keys {
		e := h.m.ep[k]
		if !e.Live && !h.lastReported[k] {
			// over, and snapd agrees: no bound left to watch
			continue
		}
		b48, has48, b90 := h.m.bounds(k.Held, k.Holder, e.Start)
		if has48 {
			add(b48)
		}
		add(b90)
	}
	for _, n := range c15Names {
		if s := h.m.sys[n]; s != nil && !s.Forever {
			add(s.Until)
		}
	}
	return out
}

func (h *c15Run) sweep() {
	seen := map[int64]bool{}
	for _, b := range h.boundaries() {
		for _, off := range c15Offsets {
			tau := b.Add(off)
			if !tau.After(h.now) || seen[tau.UnixNano()] {
				continue
			}
			seen[tau.UnixNano()] = true
			h.observe(tau, true)
		}
	}
	// two far probes: beyond every bound of the statement
	h.observe(h.now.Add(c15TotalBound+time.Duration(1+h.r.Intn(20*24))*time.Hour), true)
	h.observe(h.now.Add(time.Duration(1+h.r.Intn(400*24))*time.Hour), true)
}

func (h *c15Run) record(op c15Op) {
	op.Now = h.now.Format(time.RFC3339Nano)
	h.ops = append(h.ops, op)
}

func c15Bucket(d time.Duration) int {
	s := int64(d / time.Second)
	b := 0
	for s > 0 {
		s >>= 1
		b++
	}
	return b
}

func (h *c15Run) subset(names []string, min, max int) []string {
	if len(names) == 0 {
		return nil
	}
	n := min
	if max > min {
		n += h.r.Intn(max - min + 1)
	}
	if n > len(names) {
		n = len(names)
	}
	p := h.r.Perm(len(names))[:n]
	sort.Ints(p)
	out := make([]string, 0, n)
	for _, i := range p {
		out = append(out, names[i])
	}
	return out
}

// ---- the operations, each calling the real code and updating the model -----------

func (h *c15Run) opHold(g string, affecting []string) {
	m := h.m
	type reach struct{ Snap, Bound string }
	var reached []reach
	for _, x := range affecting {
		start := h.now
		if e := m.ep[c15Key{x, g}]; e != nil && e.Live {
			start = e.Start
		}
		b48, has48, b90 := m.bounds(x, g, start)
		if has48 && !b48.After(h.now) {
			reached = append(reached, reach{x, "48h"})
		} else if !b90.After(h.now) {
			reached = append(reached, reach{x, "90d"})
		}
	}
	// exactly as ctlcmd/refresh.go and hookstate/hooks.go: auto-refresh level,
	// zero duration (= default, maximum)
	var holdDuration time.Duration
	_, err := HoldRefresh(h.st, HoldAutoRefresh, g, holdDuration, affecting...)
	op := c15Op{Kind: "hold", Snap: g, Snaps: affecting}
	switch err.(type) {
	case nil:
		op.Result = "accepted"
		h.accepted++
		h.c.Count("holds_accepted", 1)
		for _, x := range affecting {
			if x == g {
				h.c.Count("holds_accepted_on_self", 1)
			}
			e := m.ep[c15Key{x, g}]
			if e == nil || !e.Live {
				m.ep[c15Key{x, g}] = &c15Episode{Start: h.now, Live: true, Holds: 1}
				h.c.Count("episodes", 1)
			} else {
				e.Holds++
				h.c.Count("holds_renewing_an_episode", 1)
				h.c.Max("max_holds_in_one_episode", e.Holds)
			}
		}
	case *HoldError:
		op.Result = "refused"
		h.refused++
		h.c.Count("holds_refused", 1)
		if len(reached) == 0 {
			// not demanded by the statement either way; visible in the evidence
			h.c.Count("holds_refused_before_any_bound", 1)
			if os.Getenv("VERIF_C15_DEBUG") != "" {
				fmt.Printf("DEBUG refused before any bound: %s\n", kit.JSON(h.witness(map[string]interface{}{"holder": g, "affecting": affecting})))
			}
		}
		for _, x := range affecting {
			if e := m.ep[c15Key{x, g}]; e != nil && e.Live {
				e.Live = false
				e.Ended = "refused-hold"
				h.c.Count("episodes_ended_by_refused_hold", 1)
			}
		}
	default:
		op.Result = "error: " + err.Error()
		h.c.Inconclusive(fmt.Sprintf("case %d: HoldRefresh returned an unexpected error: %v", h.idx, err))
		h.failed = true
	}
	if len(reached) > 0 {
		h.c.Count("holds_requested_at_or_past_a_bound", 1)
		h.c.Count("holds_requested_at_or_past_bound_"+reached[0].Bound, 1)
		op.shape = "hold!" + reached[0].Bound
	} else {
		op.shape = "hold"
	}
	op.shape += fmt.Sprintf("/%s/%s", g, strings.Join(affecting, "+"))
	h.record(op)
	if err == nil && len(reached) > 0 {
		h.violation("C15:hold-accepted-after-bound:"+reached[0].Bound, map[string]interface{}{"holder": g, "affecting": affecting, "bounds-reached": reached})
	}
}

func (h *c15Run) opProceed(g string, unhold []string) {
	if err := ProceedWithRefresh(h.st, g, unhold); err != nil {
		h.c.Inconclusive(fmt.Sprintf("case %d: ProceedWithRefresh: %v", h.idx, err))
		h.failed = true
	}
	in := func(x string) bool {
		if len(unhold) == 0 {
			return true
		}
		for _, u := range unhold {
			if u == x {
				return true
			}
		}
		return false
	}
	if g == "system" {
		for x := range h.m.sys {
			if in(x) {
				delete(h.m.sys, x)
				h.c.Count("system_holds_lifted", 1)
			}
		}
	} else {
		for k, e := range h.m.ep {
			if k.Holder == g && e.Live && in(k.Held) {
				e.Live = false
				e.Ended = "proceed"
				h.c.Count("episodes_ended_by_proceed", 1)
			}
		}
	}
	h.c.Count("proceeds", 1)
	h.record(c15Op{Kind: "proceed", Snap: g, Snaps: unhold, shape: fmt.Sprintf("proceed/%s/%s", g, strings.Join(unhold, "+"))})
}

func (h *c15Run) opSysHold(level HoldLevel, holdTime string, snaps []string) {
	err := HoldRefreshesBySystem(h.st, level, holdTime, snaps)
	op := c15Op{Kind: "system-hold", Snaps: snaps, Level: c15LevelName(level), Time: holdTime}
	if err != nil {
		op.Result = "error: " + err.Error()
		h.record(op)
		h.violation("C15:system-hold-refused", map[string]interface{}{"error": err.Error()})
		return
	}
	s := c15SysHold{SetAt: h.now, Level: level}
	rel := "forever"
	if holdTime == "forever" {
		s.Forever = true
		h.c.Count("system_holds_forever", 1)
	} else {
		until, perr := time.Parse(time.RFC3339, holdTime)
		if perr != nil {
			panic(perr)
		}
		s.Until = until
		if until.After(h.now) {
			rel = fmt.Sprintf("+%d", c15Bucket(until.Sub(h.now)))
		} else {
			rel = "past"
			h.c.Count("system_holds_with_past_time", 1)
		}
	}
	for _, x := range snaps {
		c := s
		h.m.sys[x] = &c
		h.c.Count("system_holds", 1)
	}
	op.shape = fmt.Sprintf("syshold/%d/%s/%s", level, rel, strings.Join(snaps, "+"))
	h.record(op)
}

func (h *c15Run) opRefresh(x string, gap time.Duration) {
	wasHeld := false
	for k, e := range h.m.ep {
		if k.Held == x && e.Live {
			wasHeld = true
		}
	}
	// what snapstate.doInstall does for a refresh when the gate-auto-refresh
	// feature is on ...
	if err := resetGatingForRefreshed(h.st, x); err != nil {
		h.c.Inconclusive(fmt.Sprintf("case %d: resetGatingForRefreshed: %v", h.idx, err))
		h.failed = true
	}
	// ... the change then runs for a while ...
	h.now = h.now.Add(gap)
	// ... and doLinkSnap stamps the refresh time.
	var snapst SnapState
	if err := Get(h.st, x, &snapst); err != nil {
		panic(err)
	}
	now := h.now
	snapst.LastRefreshTime = &now
	Set(h.st, x, &snapst)

	for k, e := range h.m.ep {
		if k.Held == x && e.Live {
			e.Live = false
			e.Ended = "refreshed"
			h.c.Count("episodes_ended_by_refresh", 1)
		}
	}
	h.m.lastRefresh[x] = now
	if s := h.m.sys[x]; s != nil {
		s.SinceRefresh = true
		h.c.Count("refreshes_of_system_held_snap", 1)
	}
	h.c.Count("refreshes", 1)
	if wasHeld {
		h.c.Count("refreshes_of_snap_held_by_snap", 1)
	}
	h.record(c15Op{Kind: "refresh", Snap: x, Advance: gap.String(), shape: fmt.Sprintf("refresh/%s/%v", x, wasHeld)})
}

func (h *c15Run) opRemove(x string) {
	// doDiscardSnap: pruneSnapsHold + Set(nil)
	if err := pruneSnapsHold(h.st, x); err != nil {
		h.c.Inconclusive(fmt.Sprintf("case %d: pruneSnapsHold: %v", h.idx, err))
		h.failed = true
	}
	Set(h.st, x, nil)
	for k, e := range h.m.ep {
		if k.Held == x || k.Holder == x {
			if e.Live {
				h.c.Count("episodes_ended_by_removal", 1)
			}
			delete(h.m.ep, k)
		}
	}
	delete(h.m.sys, x)
	h.m.installed[x] = false
	h.c.Count("removals", 1)
	h.record(c15Op{Kind: "remove", Snap: x, shape: "remove/" + x})
}

func (h *c15Run) opInstall(x string) {
	h.install(x, h.now)
	h.c.Count("installs", 1)
	h.record(c15Op{Kind: "install", Snap: x, shape: "install/" + x})
}

func (h *c15Run) opPrune(candidates []string) {
	// auto-refresh found updates only for these snaps; gating holds on the
	// others are forgotten (system holds are kept)
	cands := map[string]*refreshCandidate{}
	for _, x := range candidates {
		cands[x] = &refreshCandidate{}
	}
	if err := pruneGating(h.st, cands); err != nil {
		h.c.Inconclusive(fmt.Sprintf("case %d: pruneGating: %v", h.idx, err))
		h.failed = true
	}
	for k, e := range h.m.ep {
		if cands[k.Held] == nil && e.Live {
			e.Live = false
			e.Ended = "no-update-anymore"
			h.c.Count("episodes_ended_by_prune", 1)
		}
	}
	h.c.Count("prunes", 1)
	h.record(c15Op{Kind: "prune-gating", Snaps: candidates, shape: "prune/" + strings.Join(candidates, "+")})
}

func (h *c15Run) opAdvance(d time.Duration, how string) {
	h.now = h.now.Add(d)
	h.c.Count("clock_advances", 1)
	h.c.Count("clock_advances_"+how, 1)
	h.record(c15Op{Kind: "advance", Advance: d.String(), shape: fmt.Sprintf("adv/%s/%d", how, c15Bucket(d))})
}

// ---- history generation ---------------------------------------------------------------

type c15Profile struct {
	name                                                           string
	hold, advance, proceed, sys, sysUnhold, refresh, remove, prune int
	advMin, advMax                                                 time.Duration
	selfBias                                                       int // % of holds that affect only the holder itself
	boundaryJump                                                   int // % of advances that land on/around a bound
}

var c15Profiles = []c15Profile{
	{name: "mixed", hold: 30, advance: 24, proceed: 7, sys: 12, sysUnhold: 3, refresh: 12, remove: 4, prune: 4, advMin: time.Second, advMax: 100 * 24 * time.Hour, selfBias: 15, boundaryJump: 35},
	{name: "rehold-others", hold: 45, advance: 38, proceed: 3, sys: 4, sysUnhold: 1, refresh: 5, remove: 1, prune: 2, advMin: time.Minute, advMax: 30 * time.Hour, selfBias: 0, boundaryJump: 30},
	{name: "rehold-self", hold: 42, advance: 40, proceed: 3, sys: 4, sysUnhold: 1, refresh: 6, remove: 1, prune: 2, advMin: time.Hour, advMax: 25 * 24 * time.Hour, selfBias: 70, boundaryJump: 30},
	{name: "admin", hold: 18, advance: 26, proceed: 4, sys: 25, sysUnhold: 5, refresh: 17, remove: 3, prune: 2, advMin: time.Second, advMax: 150 * 24 * time.Hour, selfBias: 20, boundaryJump: 35},
}

func (h *c15Run) randDur(min, max time.Duration) time.Duration {
	// log-uniform between min and max, whole seconds, sometimes with a
	// nanosecond part
	lo, hi := float64(min), float64(max)
	f := h.r.Float64()
	d := time.Duration(lo * math.Pow(hi/lo, f))
	d = d.Truncate(time.Second)
	if d < time.Second {
		d = time.Second
	}
	if h.r.Intn(10) == 0 {
		d += time.Duration(h.r.Intn(1e9))
	}
	return d
}

func (h *c15Run) step(p *c15Profile) {
	m := h.m
	inst := m.installedNames()
	// keep at least two snaps around
	if len(inst) < 2 || (len(inst) < len(c15Names) && h.r.Intn(100) < 6) {
		for _, n := range c15Names {
			if !m.installed[n] {
				h.opInstall(n)
				h.sweepAfter(true)
				return
			}
		}
	}
	// snaps far past the 90-day bound get refreshed sooner rather than later
	// (snapd forces the refresh); keeps refusals from dominating the history
	var overdue []string
	for _, n := range inst {
		if h.now.After(m.lastRefresh[n].Add(c15TotalBound + time.Hour)) {
			overdue = append(overdue, n)
		}
	}
	if len(overdue) > 0 && h.r.Intn(100) < 40 {
		h.opRefresh(overdue[h.r.Intn(len(overdue))], 0)
		h.sweepAfter(true)
		return
	}
	total := p.hold + p.advance + p.proceed + p.sys + p.sysUnhold + p.refresh + p.remove + p.prune
	k := h.r.Intn(total)
	pick := func(w int) bool {
		if k < w {
			return true
		}
		k -= w
		return false
	}
	switch {
	case pick(p.hold):
		g := inst[h.r.Intn(len(inst))]
		var aff []string
		if h.r.Intn(100) < p.selfBias {
			aff = []string{g}
		} else {
			others := make([]string, 0, len(inst))
			for _, n := range inst {
				if n != g {
					others = append(others, n)
				}
			}
			aff = h.subset(others, 1, 3)
			if h.r.Intn(100) < 35 {
				aff = append(aff, g)
				sort.Strings(aff)
			}
		}
		h.opHold(g, aff)
		h.sweepAfter(true)
	case pick(p.advance):
		if h.r.Intn(100) < p.boundaryJump {
			var ahead []time.Time
			for _, b := range h.boundaries() {
				if b.Add(time.Hour).After(h.now) {
					ahead = append(ahead, b)
				}
			}
			if len(ahead) > 0 {
				b := ahead[h.r.Intn(len(ahead))]
				offs := []time.Duration{-time.Hour, -time.Second, -1, 0, 0, 0, 1, time.Second, time.Hour}
				tgt := b.Add(offs[h.r.Intn(len(offs))])
				if tgt.After(h.now) {
					h.opAdvance(tgt.Sub(h.now), "to-bound")
					h.sweepAfter(false)
					return
				}
			}
		}
		h.opAdvance(h.randDur(p.advMin, p.advMax), "random")
		h.sweepAfter(false)
	case pick(p.proceed):
		g := inst[h.r.Intn(len(inst))]
		var unhold []string
		if h.r.Intn(100) < 40 {
			unhold = h.subset(inst, 1, 2)
		}
		h.opProceed(g, unhold)
		h.sweepAfter(true)
	case pick(p.sys):
		level := HoldAutoRefresh
		if h.r.Intn(2) == 0 {
			level = HoldGeneral
		}
		var holdTime string
		switch q := h.r.Intn(100); {
		case q < 25:
			holdTime = "forever"
		default:
			var until time.Time
			if q < 35 {
				until = h.now.Add(-h.randDur(time.Second, 10*24*time.Hour))
			} else {
				until = h.now.Add(h.randDur(time.Second, 400*24*time.Hour))
			}
			if os.Getenv("VERIF_C15_UNTIL_EQ_NOW") != "" && q >= 90 {
				until = h.now
			} else if until.Equal(h.now) {
				until = until.Add(time.Second)
			}
			switch h.r.Intn(4) {
			case 0:
				until = until.In(time.FixedZone("", 2*3600))
			case 1:
				until = until.In(time.FixedZone("", -(5*3600 + 1800)))
			default:
				until = until.UTC()
			}
			holdTime = until.Format(time.RFC3339Nano)
		}
		h.opSysHold(level, holdTime, h.subset(inst, 1, 2))
		h.sweepAfter(true)
	case pick(p.sysUnhold):
		h.opProceed("system", h.subset(inst, 1, 2))
		h.sweepAfter(true)
	case pick(p.refresh):
		// prefer snaps that are held by something
		var heldNow []string
		for _, n := range inst {
			if m.sys[n] != nil {
				heldNow = append(heldNow, n)
				continue
			}
			for k, e := range m.ep {
				if k.Held == n && e.Live {
					heldNow = append(heldNow, n)
					break
				}
			}
		}
		sort.Strings(heldNow)
		x := inst[h.r.Intn(len(inst))]
		if len(heldNow) > 0 && h.r.Intn(100) < 65 {
			x = heldNow[h.r.Intn(len(heldNow))]
		}
		var gap time.Duration
		if h.r.Intn(2) == 0 {
			gap = h.randDur(time.Second, 10*time.Minute)
		}
		h.opRefresh(x, gap)
		h.sweepAfter(true)
	case pick(p.remove):
		if len(inst) <= 2 {
			h.opAdvance(h.randDur(p.advMin, p.advMax), "random")
			h.sweepAfter(false)
			return
		}
		h.opRemove(inst[h.r.Intn(len(inst))])
		h.sweepAfter(true)
	default:
		h.opPrune(h.subset(inst, 0, len(inst)))
		h.sweepAfter(true)
	}
}

// sweepAfter judges the state at the clock's position and, when the hold
// state may have changed, at every probe instant (HeldSnaps only depends on
// the stored state and the clock, so after a pure clock advance the earlier
// sweep still stands).
func (h *c15Run) sweepAfter(stateChanged bool) {
	h.observe(h.now, false)
	if stateChanged {
		h.sweep()
	}
}

func c15History(c *kit.Check, t *testing.T, idx int) {
	r := kit.CaseRand("c15", idx)
	h := &c15Run{c: c, t: t, idx: idx, r: r, st: state.New(nil), setup: map[string]string{},
		m: &c15Model{installed: map[string]bool{}, lastRefresh: map[string]time.Time{}, ep: map[c15Key]*c15Episode{}, sys: map[string]*c15SysHold{}}}
	h.now = time.Date(2021, 5, 10, 10, 0, 0, 0, time.UTC).Add(time.Duration(r.Intn(400*86400)) * time.Second)
	if r.Intn(3) == 0 {
		h.now = h.now.Add(time.Duration(r.Intn(1e9)))
	}
	restore := MockTimeNow(func() time.Time { return h.now })
	defer restore()
	h.st.Lock()
	defer h.st.Unlock()

	p := c15Profiles[idx%len(c15Profiles)]
	h.setup["profile"] = p.name
	h.setup["start"] = h.now.Format(time.RFC3339Nano)
	nsnaps := 2 + r.Intn(3)
	for _, n := range c15Names[:nsnaps] {
		var age time.Duration
		switch q := r.Intn(100); {
		case q < 45:
			age = h.randDur(time.Second, 20*24*time.Hour)
		case q < 70:
			age = h.randDur(20*24*time.Hour, 85*24*time.Hour)
		case q < 92:
			// close to the 90-day bound, on either side
			age = c15TotalBound + time.Duration(r.Intn(6*86400)-3*86400)*time.Second
		default:
			age = c15TotalBound + []time.Duration{-time.Second, 0, time.Second, -time.Hour, 5 * 24 * time.Hour, 6 * 24 * time.Hour}[r.Intn(6)]
		}
		h.install(n, h.now.Add(-age))
		h.setup[n+" last-refresh"] = h.now.Add(-age).Format(time.RFC3339Nano)
	}
	nops := kit.Scale(24, 40) + r.Intn(kit.Scale(16, 40))
	for i := 0; i < nops && !h.failed; i++ {
		h.step(&p)
	}
	c.Eval()
	c.Count("operations", len(h.ops))
	if h.accepted > 0 && (h.crossed || h.refused > 0) {
		shapes := make([]string, 0, len(h.ops)+1)
		shapes = append(shapes, p.name)
		for _, o := range h.ops {
			shapes = append(shapes, o.shape)
		}
		c.Nontrivial(kit.Sig(strings.Join(shapes, "|")))
		if h.crossed {
			c.Count("histories_with_clock_past_a_live_bound", 1)
		}
	}
	c.Sample(map[string]interface{}{"case_index": idx, "setup": h.setup, "ops": h.ops})
}

func TestVerifC15(t *testing.T) {
	c := kit.New("C15", "exploration")
	defer c.Done(t)
	c.Rule("A case is a generated history over 2-4 installed snaps (last refresh from seconds to 95 days ago, many within a day of the 90-day bound) of 24-80 operations drawn from one of four profiles (mixed, re-hold others, re-hold self, administrator): HoldRefresh by a gating snap with holdDuration=0 at auto-refresh level on 1-4 snaps (itself included or alone), ProceedWithRefresh (all / some), HoldRefreshesBySystem (forever / RFC3339 future or past time, three zones, both levels), administrator unhold, refresh of a (preferably held) snap via resetGatingForRefreshed + LastRefreshTime, removal via pruneSnapsHold, reinstall, pruneGating, virtual clock advances (log-uniform 1 s..150 d, or landing on a current bound -1h/-1s/-1ns/0/+1ns/+1s/+1h). Non-trivial: at least one snap hold was accepted AND (a hold was refused OR the clock itself moved past a bound of a live episode). Distinct by the sequence of operation shapes (kind, holder, affected set, level, bucketed durations, which bound a request hit).")
	c.Assume("gating snaps request holds only with holdDuration=0 (default = maximum) at HoldAutoRefresh, exactly as ctlcmd/refresh.go and hookstate/hooks.go do; explicit durations are issued only by the administrator (quantifier of the statement)")
	c.Assume("a refresh is modelled as resetGatingForRefreshed(snap) followed (0-10 min later) by stamping LastRefreshTime, removal as pruneSnapsHold + Set(nil): the calls the real handlers make, without running the task graph")
	c.Assume("the administrator's requested time is never equal to the clock reading to the nanosecond (HoldRefreshesBySystem turns a zero duration into 'forever'; with a real clock this has measure zero); set VERIF_C15_UNTIL_EQ_NOW=1 to generate it")
	c.Assume("at the exact instant of a bound (now == first-held+48h, now == last-refresh+90d, now == requested time) a reported hold is not judged; 'more than'/'beyond' in the statement start one nanosecond later, and that is probed")
	n := kit.Scale(300, 600)
	if only := kit.OnlyCase(); only >= 0 {
		// replay of one case: no floors
		c.MinDistinct(0)
		c15History(c, t, only)
		return
	}
	c.Floor("holds_accepted", 400)
	c.Floor("holds_refused", 100)
	c.Floor("holds_requested_at_or_past_bound_48h", 30)
	c.Floor("holds_requested_at_or_past_bound_90d", 30)
	c.Floor("probes", 20000)
	c.Floor("episodes", 300)
	c.Floor("system_holds", 100)
	c.Floor("system_holds_forever", 20)
	c.Floor("gating_hold_reported", 2000)
	c.Floor("system_hold_reported", 2000)
	c.Floor("system_hold_reported_after_refresh", 100)
	c.Floor("live_episode_past_bound_not_reported", 500)
	c.Floor("refreshes_of_snap_held_by_snap", 30)
	c.MinDistinct(50)

	for idx := 0; idx < n; idx++ {
		c15History(c, t, idx)
		if c.Violations() > 40 {
			break
		}
	}
}
