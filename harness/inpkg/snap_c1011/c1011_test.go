// C10 / C11 — snapstate: a failed install/refresh/revert leaves the snap as it
// was; after every settled change the recorded state matches the system.
//
// Real SnapManager, real handlers and task graphs; the system side is the
// package's fakeSnappyBackend whose op log feeds an independent world model.
package snapstate_test

import (
	"context"
	"encoding/json"
	"errors"
	"fmt"
	"math/rand"
	"os"
	"path/filepath"
	"sort"
	"strconv"
	"strings"
	"time"

	. "gopkg.in/check.v1"
	"gopkg.in/tomb.v2"

	kit "verifkit"

	"github.com/snapcore/snapd/dirs"
	"github.com/snapcore/snapd/overlord/configstate/config"
	"github.com/snapcore/snapd/overlord/hookstate"
	"github.com/snapcore/snapd/overlord/snapstate"
	"github.com/snapcore/snapd/overlord/state"
	"github.com/snapcore/snapd/snap"
)

type verifC1011Suite struct {
	snapmgrBaseTest
}

var _ = Suite(&verifC1011Suite{})

// ---------------------------------------------------------------- world model

type world struct {
	mounted map[string]map[int]bool // snap -> revs
	link    map[string]int          // snap -> rev (0 = none)
}

func newWorld() *world { return &world{mounted: map[string]map[int]bool{}, link: map[string]int{}} }

func (w *world) clone() *world {
	n := newWorld()
	for s, m := range w.mounted {
		n.mounted[s] = map[int]bool{}
		for r := range m {
			n.mounted[s][r] = true
		}
	}
	for s, r := range w.link {
		n.link[s] = r
	}
	return n
}

func (w *world) revs(name string) []int {
	var out []int
	for r := range w.mounted[name] {
		out = append(out, r)
	}
	sort.Ints(out)
	return out
}

func parseMount(path string) (string, int, bool) {
	rel, err := filepath.Rel(dirs.SnapMountDir, path)
	if err != nil {
		return "", 0, false
	}
	parts := strings.Split(rel, "/")
	if len(parts) != 2 {
		return "", 0, false
	}
	r, err := strconv.Atoi(parts[1])
	if err != nil {
		return "", 0, false
	}
	return parts[0], r, true
}

// apply folds backend ops into the world. failedIdx is the index of an op whose
// injected error was returned (treated as not applied), or -1.
func (w *world) apply(ops fakeOps, failedIdx int) (removed map[string][]int) {
	removed = map[string][]int{}
	for i, op := range ops {
		if i == failedIdx {
			continue
		}
		switch op.op {
		case "setup-snap":
			if w.mounted[op.name] == nil {
				w.mounted[op.name] = map[int]bool{}
			}
			w.mounted[op.name][op.revno.N] = true
		case "undo-setup-snap", "remove-snap-files":
			if n, r, ok := parseMount(op.path); ok {
				delete(w.mounted[n], r)
				if op.op == "remove-snap-files" {
					removed[n] = append(removed[n], r)
				}
			}
		case "link-snap":
			if n, r, ok := parseMount(op.path); ok {
				w.link[n] = r
			}
		case "unlink-snap":
			if n, r, ok := parseMount(op.path); ok && w.link[n] == r {
				w.link[n] = 0
			}
		}
	}
	return removed
}

// ---------------------------------------------------------------- snapshots

type snapView struct {
	Present         bool              `json:"present"`
	Current         int               `json:"current"`
	Sequence        []int             `json:"sequence"`
	Active          bool              `json:"active"`
	Channel         string            `json:"channel"`
	DevMode         bool              `json:"devmode"`
	JailMode        bool              `json:"jailmode"`
	Classic         bool              `json:"classic"`
	IgnoreValid     bool              `json:"ignore_validation"`
	Cohort          string            `json:"cohort"`
	LastRefresh     string            `json:"last_refresh"`
	RefreshInhibit  string            `json:"refresh_inhibited"`
	RevertStatus    map[string]string `json:"revert_status"`
	Blocked         []int             `json:"blocked"`
	Config          string            `json:"config"`
	WorldMounted    []int             `json:"world_mounted"`
	WorldLink       int               `json:"world_link"`
	rawSequenceJSON string
}

func (s *verifC1011Suite) view(name string, w *world) snapView {
	var v snapView
	var snapst snapstate.SnapState
	err := snapstate.Get(s.state, name, &snapst)
	if err == nil {
		v.Present = true
		v.Current = snapst.Current.N
		for _, si := range snapst.Sequence.SideInfos() {
			v.Sequence = append(v.Sequence, si.Revision.N)
		}
		v.Active = snapst.Active
		v.Channel = snapst.TrackingChannel
		v.DevMode, v.JailMode, v.Classic = snapst.DevMode, snapst.JailMode, snapst.Classic
		v.IgnoreValid = snapst.IgnoreValidation
		v.Cohort = snapst.CohortKey
		if snapst.LastRefreshTime != nil && !snapst.LastRefreshTime.IsZero() {
			v.LastRefresh = snapst.LastRefreshTime.UTC().Format(time.RFC3339Nano)
		}
		if snapst.RefreshInhibitedTime != nil {
			v.RefreshInhibit = snapst.RefreshInhibitedTime.UTC().Format(time.RFC3339Nano)
		}
		if len(snapst.RevertStatus) > 0 {
			v.RevertStatus = map[string]string{}
			for r, st := range snapst.RevertStatus {
				v.RevertStatus[fmt.Sprint(r)] = fmt.Sprint(st)
			}
		}
		for _, r := range snapst.Block() {
			v.Blocked = append(v.Blocked, r.N)
		}
	}
	var cfg map[string]json.RawMessage
	if err := s.state.Get("config", &cfg); err == nil {
		if raw, ok := cfg[name]; ok && raw != nil {
			var any interface{}
			json.Unmarshal(raw, &any)
			b, _ := json.Marshal(any)
			if string(b) != "{}" && string(b) != "null" {
				v.Config = string(b)
			}
		}
	}
	v.WorldMounted = w.revs(name)
	v.WorldLink = w.link[name]
	return v
}

func without(seq []int, drop []int) []int {
	d := map[int]bool{}
	for _, r := range drop {
		d[r] = true
	}
	var out []int
	for _, r := range seq {
		if !d[r] {
			out = append(out, r)
		}
	}
	return out
}

func eqInts(a, b []int) bool {
	if len(a) != len(b) {
		return false
	}
	for i := range a {
		if a[i] != b[i] {
			return false
		}
	}
	return true
}

// ---------------------------------------------------------------- operations

type opSpec struct {
	Kind    string `json:"kind"`
	Snap    string `json:"snap"`
	Rev     int    `json:"rev,omitempty"`
	Channel string `json:"channel,omitempty"`
	DevMode bool   `json:"devmode,omitempty"`
	IgnVal  bool   `json:"ignore_validation,omitempty"`
	Cohort  string `json:"cohort,omitempty"`
	NotBlk  bool   `json:"revert_not_blocked,omitempty"`
	CfgVal  string `json:"config_value,omitempty"`
	Enum    bool   `json:"enumerate_faults,omitempty"`
}

// directedHistories run before the random ones in every shard: shapes that
// random generation reaches only rarely in the quick tier.
var directedHistories = [][]opSpec{
	{ // refresh to a kept revision while the lowered retain limit discards older revisions mid-change
		{Kind: "install", Snap: "some-snap", Rev: 1, Channel: "some-channel"},
		{Kind: "config", Snap: "some-snap", CfgVal: "v1"},
		{Kind: "retain", Snap: "some-snap", Rev: 5},
		{Kind: "refresh-new", Snap: "some-snap", Rev: 2},
		{Kind: "refresh-new", Snap: "some-snap", Rev: 3},
		{Kind: "refresh-new", Snap: "some-snap", Rev: 4},
		{Kind: "refresh-new", Snap: "some-snap", Rev: 5},
		{Kind: "retain", Snap: "some-snap", Rev: 2},
		{Kind: "refresh-kept", Snap: "some-snap", Rev: 3, Enum: true},
		{Kind: "revert-to", Snap: "some-snap", Rev: 5, Enum: true},
	},
	{ // refresh changing cohort, channel and flags; then revert
		{Kind: "install", Snap: "some-snap", Rev: 1, Channel: "some-channel"},
		{Kind: "config", Snap: "some-snap", CfgVal: "v1"},
		{Kind: "refresh-new", Snap: "some-snap", Rev: 2, Channel: "latest/edge", Cohort: "cohort-1", DevMode: true, IgnVal: true, Enum: true},
		{Kind: "config", Snap: "some-snap", CfgVal: "v2"},
		{Kind: "revert", Snap: "some-snap", Enum: true},
		{Kind: "config", Snap: "some-snap", CfgVal: "v3"},
		{Kind: "refresh-new", Snap: "some-snap", Rev: 3, Cohort: "cohort-2", Enum: true},
		{Kind: "config", Snap: "some-snap", CfgVal: "v4"},
		{Kind: "revert", Snap: "some-snap", Enum: true},
	},
	{ // removing the current revision of a disabled snap, also when it is first in the sequence
		{Kind: "install", Snap: "some-snap", Rev: 1},
		{Kind: "refresh-new", Snap: "some-snap", Rev: 2},
		{Kind: "refresh-new", Snap: "some-snap", Rev: 3},
		{Kind: "revert-to", Snap: "some-snap", Rev: 1, Enum: true},
		{Kind: "disable", Snap: "some-snap"},
		{Kind: "remove", Snap: "some-snap", Rev: 1},
		{Kind: "enable", Snap: "some-snap"},
		{Kind: "refresh-new", Snap: "some-snap", Rev: 4, Enum: true},
	},
	{ // a revert that leaves the reverted-from revision eligible for refresh, then the refresh back to it
		{Kind: "install", Snap: "some-snap", Rev: 1},
		{Kind: "refresh-new", Snap: "some-snap", Rev: 3},
		{Kind: "revert", Snap: "some-snap", NotBlk: true, Enum: true},
		{Kind: "refresh-kept", Snap: "some-snap", Rev: 3, Enum: true},
		{Kind: "revert", Snap: "some-snap", Enum: true},
		{Kind: "refresh-new", Snap: "some-snap", Rev: 4, Enum: true},
	},
	{ // configuration must go away with the snap, not before
		{Kind: "install", Snap: "some-other-snap", Rev: 2, Enum: true},
		{Kind: "config", Snap: "some-other-snap", CfgVal: "v1"},
		{Kind: "refresh-new", Snap: "some-other-snap", Rev: 3},
		{Kind: "disable", Snap: "some-other-snap"},
		{Kind: "enable", Snap: "some-other-snap"},
		{Kind: "remove", Snap: "some-other-snap", Rev: 2},
		{Kind: "remove", Snap: "some-other-snap"},
		{Kind: "install", Snap: "some-other-snap", Rev: 4, Enum: true},
	},
}

var snapIDs = map[string]string{"some-snap": "some-snap-id", "some-other-snap": "some-other-snap-id"}

// request issues the API call for op; state lock held.
func (s *verifC1011Suite) request(op opSpec) (*state.TaskSet, string, error) {
	flags := snapstate.Flags{DevMode: op.DevMode, IgnoreValidation: op.IgnVal}
	switch op.Kind {
	case "install":
		ts, err := snapstate.Install(context.Background(), s.state, op.Snap,
			&snapstate.RevisionOptions{Channel: op.Channel, Revision: snap.R(op.Rev), CohortKey: op.Cohort}, s.user.ID, flags)
		return ts, "install-snap", err
	case "refresh-new":
		s.fakeStore.refreshRevnos = map[string]snap.Revision{snapIDs[op.Snap]: snap.R(op.Rev)}
		ts, err := snapstate.Update(s.state, op.Snap, &snapstate.RevisionOptions{Channel: op.Channel, CohortKey: op.Cohort}, s.user.ID, flags)
		return ts, "refresh-snap", err
	case "refresh-kept":
		ts, err := snapstate.Update(s.state, op.Snap, &snapstate.RevisionOptions{Revision: snap.R(op.Rev), Channel: op.Channel}, s.user.ID, flags)
		if err == nil {
			// the request must really target the kept revision (guards the harness
			// against fakes that alias snap.Info objects)
			if snapsup, e2 := snapstate.TaskSnapSetup(ts.Tasks()[0]); e2 == nil && snapsup.Revision().N != op.Rev {
				panic(fmt.Sprintf("harness: refresh to kept revision %d produced a change for revision %s", op.Rev, snapsup.Revision()))
			}
		}
		return ts, "refresh-snap", err
	case "revert":
		if op.NotBlk {
			flags.RevertStatus = snapstate.NotBlocked
		}
		ts, err := snapstate.Revert(s.state, op.Snap, flags, "")
		return ts, "revert-snap", err
	case "revert-to":
		if op.NotBlk {
			flags.RevertStatus = snapstate.NotBlocked
		}
		ts, err := snapstate.RevertToRevision(s.state, op.Snap, snap.R(op.Rev), flags, "")
		return ts, "revert-snap", err
	case "remove":
		ts, err := snapstate.Remove(s.state, op.Snap, snap.R(op.Rev), nil)
		return ts, "remove-snap", err
	case "disable":
		ts, err := snapstate.Disable(s.state, op.Snap)
		return ts, "disable-snap", err
	case "enable":
		ts, err := snapstate.Enable(s.state, op.Snap)
		return ts, "enable-snap", err
	}
	return nil, "", fmt.Errorf("unknown op %q", op.Kind)
}

// settleQuiet is settle() without failing the gocheck test: state lock held.
func (s *verifC1011Suite) settleQuiet() error {
	s.state.Unlock()
	defer s.state.Lock()
	// a generous watchdog (the machine may be heavily loaded): firing is inconclusive
	d := 5 * time.Minute
	if v := os.Getenv("VERIF_SETTLE_S"); v != "" {
		if n, err := strconv.Atoi(v); err == nil {
			d = time.Duration(n) * time.Second
		}
	}
	return s.o.Settle(d)
}

type attempt struct {
	chg       *state.Change
	ops       fakeOps
	failedIdx int
	err       error
	ntasks    int
	kinds     []string
	fired     bool
	skipped   bool
}

// run executes op with an optional fault: spliceAfter >= 0 inserts an
// error-trigger task after task number spliceAfter; backendFault > 0 makes the
// n-th fault-capable backend operation fail. State lock held.
func (s *verifC1011Suite) run(op opSpec, spliceAfter, backendFault int) (*attempt, error) {
	// what snapd's own periodic prune does, with a small limit: the state is
	// marshalled at every unlock, so hundreds of finished changes make every
	// later change slower and slower to settle
	s.state.Prune(time.Now(), time.Hour, 24*time.Hour, 2)
	ts, chgKind, err := s.request(op)
	if err != nil {
		return nil, err
	}
	a := &attempt{failedIdx: -1}
	tasks := ts.Tasks()
	a.ntasks = len(tasks)
	for _, t := range tasks {
		a.kinds = append(a.kinds, t.Kind())
	}
	if spliceAfter >= 0 && spliceAfter < len(tasks) && tasks[spliceAfter].Kind() == "check-rerefresh" {
		// its handler refuses dependents by design: position excluded, the
		// unlinked tasks are simply dropped
		a.skipped = true
		return a, nil
	}
	chg := s.state.NewChange(chgKind, fmt.Sprintf("%s %s", op.Kind, op.Snap))
	chg.AddAll(ts)
	if spliceAfter >= 0 && spliceAfter < len(tasks) {
		tk := tasks[spliceAfter]
		terr := s.state.NewTask("error-trigger", "injected failure")
		for _, h := range tk.HaltTasks() {
			h.WaitFor(terr)
		}
		terr.WaitFor(tk)
		for _, l := range tk.Lanes() {
			if l != 0 {
				terr.JoinLane(l)
			}
		}
		chg.AddTask(terr)
		a.fired = true
	}
	s.fakeBackend.ops = nil
	count := 0
	s.fakeBackend.maybeInjectErr = nil
	if backendFault > 0 {
		s.fakeBackend.maybeInjectErr = func(fop *fakeOp) error {
			count++
			if count == backendFault {
				a.failedIdx = len(s.fakeBackend.ops) - 1
				a.fired = true
				return errors.New("injected backend failure")
			}
			return nil
		}
	}
	a.err = s.settleQuiet()
	s.fakeBackend.maybeInjectErr = nil
	a.chg = chg
	a.ops = append(fakeOps{}, s.fakeBackend.ops...)
	return a, nil
}

// ---------------------------------------------------------------- history generator

type model struct {
	installed map[string]bool
	seq       map[string][]int
	cur       map[string]int
	active    map[string]bool
	maxRev    map[string]int
}

func genOp(rnd *rand.Rand, m *model) opSpec {
	names := []string{"some-snap", "some-other-snap"}
	for tries := 0; tries < 50; tries++ {
		n := names[rnd.Intn(len(names))]
		if rnd.Intn(4) != 0 {
			n = "some-snap"
		}
		chans := []string{"", "some-channel", "latest/edge", "channel-for-7/stable"}
		if !m.installed[n] {
			// (a revision and a cohort key cannot be requested together)
			op := opSpec{Kind: "install", Snap: n, Rev: 1 + rnd.Intn(6), Channel: chans[rnd.Intn(3)], DevMode: rnd.Intn(6) == 0}
			return op
		}
		seq, cur := m.seq[n], m.cur[n]
		switch k := rnd.Intn(12); {
		case k < 4 && m.active[n]:
			op := opSpec{Kind: "refresh-new", Snap: n, Rev: m.maxRev[n] + 1 + rnd.Intn(2), Channel: chans[rnd.Intn(3)], IgnVal: rnd.Intn(3) == 0, DevMode: rnd.Intn(4) == 0}
			if rnd.Intn(2) == 0 {
				op.Cohort = "cohort-" + fmt.Sprint(rnd.Intn(3))
			}
			return op
		case k < 6 && m.active[n] && len(seq) > 1:
			r := seq[rnd.Intn(len(seq))]
			if r != cur {
				return opSpec{Kind: "refresh-kept", Snap: n, Rev: r}
			}
		case k < 8 && m.active[n] && len(seq) > 1:
			if rnd.Intn(2) == 0 {
				idx := -1
				for i, r := range seq {
					if r == cur {
						idx = i
					}
				}
				if idx > 0 {
					return opSpec{Kind: "revert", Snap: n, NotBlk: rnd.Intn(3) == 0}
				}
			} else {
				r := seq[rnd.Intn(len(seq))]
				if r != cur {
					return opSpec{Kind: "revert-to", Snap: n, Rev: r, NotBlk: rnd.Intn(3) == 0}
				}
			}
		case k == 8:
			if len(seq) > 1 && rnd.Intn(2) == 0 {
				r := seq[rnd.Intn(len(seq))]
				if r != cur {
					return opSpec{Kind: "remove", Snap: n, Rev: r}
				}
			} else if rnd.Intn(3) == 0 {
				return opSpec{Kind: "remove", Snap: n}
			}
		case k == 9:
			if m.active[n] {
				return opSpec{Kind: "disable", Snap: n}
			}
			return opSpec{Kind: "enable", Snap: n}
		case k == 10 && m.active[n]:
			if rnd.Intn(2) == 0 {
				// lowering the limit makes the next refresh discard several revisions mid-change
				return opSpec{Kind: "retain", Snap: n, Rev: 2 + rnd.Intn(4)}
			}
			return opSpec{Kind: "config", Snap: n, CfgVal: fmt.Sprintf("v%d", rnd.Intn(100))}
		case !m.active[n] && len(seq) > 1 && rnd.Intn(2) == 0:
			// the current revision of a disabled snap can be removed on its own
			return opSpec{Kind: "remove", Snap: n, Rev: cur}
		case !m.active[n]:
			return opSpec{Kind: "enable", Snap: n}
		}
	}
	return opSpec{Kind: "config", Snap: "some-snap", CfgVal: "x"}
}

func (s *verifC1011Suite) refreshModel(m *model) {
	for _, n := range []string{"some-snap", "some-other-snap"} {
		var snapst snapstate.SnapState
		if err := snapstate.Get(s.state, n, &snapst); err != nil {
			m.installed[n] = false
			m.seq[n], m.cur[n], m.active[n] = nil, 0, false
			continue
		}
		m.installed[n] = true
		m.seq[n] = nil
		for _, si := range snapst.Sequence.SideInfos() {
			m.seq[n] = append(m.seq[n], si.Revision.N)
			if si.Revision.N > m.maxRev[n] {
				m.maxRev[n] = si.Revision.N
			}
		}
		m.cur[n] = snapst.Current.N
		m.active[n] = snapst.Active
	}
}

// ---------------------------------------------------------------- the run

func (s *verifC1011Suite) TestVerifC10(c *C) { s.runHistories(c, "C10") }
func (s *verifC1011Suite) TestVerifC11(c *C) { s.runHistories(c, "C11") }

func (s *verifC1011Suite) runHistories(c *C, prop string) {
	if os.Getenv("VERIF_PROP") != prop {
		c.Skip("other property requested")
	}
	level := "fault_enumeration"
	chk := kit.New(prop, level)
	defer chk.Done(c)
	if prop == "C10" {
		chk.Rule("random histories of install / refresh to new revision / refresh to kept revision / revert / revert-to / remove (all or one revision) / enable / disable / config set on two snaps, each operation a real change settled by the overlord; for the fault-enumerated operations (quick: the last two install/refresh/revert operations of each history; thorough: every one) EVERY fault position is tried: an error-trigger task spliced after task k for every k, and the n-th fault-capable backend operation failing for every n; after each faulted change the listed SnapState fields, the snap's configuration and the world (mounted revisions, current link, from the backend op log) are compared with the snapshot taken before the request (modulo revisions whose irreversible remove-snap-files ran in this change). Non-trivial: the fault fired and the change ended in Error after at least one task had been done; distinct = (operation, pre-state, fault position) signature.")
	} else {
		chk.Rule("same histories and faults as C10; after EVERY settled change (successful or faulted) every tracked snap is cross-checked: Current in Sequence, Sequence == revisions mounted in the world model (built from backend ops only), (world link == Current) iff Active, removed snap leaves no mount, link or config. Non-trivial: the change modified the sequence, the link or the mounted set; distinct = (operation, pre-state, fault position, outcome) signature.")
	}
	chk.Assume("the system side is the package's fakeSnappyBackend; a backend operation whose injected error was returned is taken as not applied; aliases are not exercised")
	chk.Assume("nothing is spliced after check-rerefresh (its handler refuses dependents by design)")
	chk.Floor("faulted_changes", 50)

	nHist := kit.Scale(len(directedHistories)+4, len(directedHistories)+4)
	only := kit.OnlyCase()
	for hi := 0; hi < nHist; hi++ {
		if only >= 0 && hi != only {
			continue
		}
		rnd := kit.CaseRand("c1011", hi)
		if hi > 0 {
			s.TearDownTest(c)
			s.SetUpTest(c)
		}
		s.runHistory(c, chk, prop, hi, rnd)
	}
}

func (s *verifC1011Suite) runHistory(c *C, chk *kit.Check, prop string, hi int, rnd *rand.Rand) {
	st := s.state
	st.Lock()
	defer st.Unlock()
	w := newWorld()
	m := &model{installed: map[string]bool{}, seq: map[string][]int{}, cur: map[string]int{}, active: map[string]bool{}, maxRev: map[string]int{}}
	nops := 5 + rnd.Intn(6)
	var fixed []opSpec
	if hi < len(directedHistories) {
		fixed = directedHistories[hi]
		nops = len(fixed)
	}
	var history []opSpec
	abandoned := false
	// in two of three histories the configure / install / post-refresh hooks of
	// the snap write to its configuration, as real hooks do through snapctl (the
	// package's fake run-hook handler does nothing): a failed change has to put
	// the configuration back, a failed first install has to leave none
	hooksWrite := hi%3 != 2
	s.o.TaskRunner().AddHandler("run-hook", func(t *state.Task, _ *tomb.Tomb) error {
		if !hooksWrite {
			return nil
		}
		st.Lock()
		defer st.Unlock()
		var hooksup hookstate.HookSetup
		if err := t.Get("hook-setup", &hooksup); err != nil {
			return nil
		}
		switch hooksup.Hook {
		case "configure", "install", "post-refresh":
			tr := config.NewTransaction(st)
			tr.Set(hooksup.Snap, "set-by-"+hooksup.Hook+"-hook", "task-"+t.ID())
			tr.Commit()
			chk.Count("hook_config_writes", 1)
		}
		return nil
	}, nil)
	// (no fakeBackend.addSnapApp here: it makes ReadInfo hand out one shared
	// *snap.Info per snap whose SideInfo is overwritten by every later call, so a
	// refresh to a kept revision would silently target the current one)
	if generous := rnd.Intn(3) > 0; generous || fixed != nil {
		// start with a generous limit so that sequences grow beyond the default
		// (always for the directed histories, which are written for it)
		tr := config.NewTransaction(st)
		tr.Set("core", "refresh.retain", 4+rnd.Intn(3))
		tr.Commit()
	}
	for oi := 0; oi < nops && !abandoned; oi++ {
		s.refreshModel(m)
		op := genOp(rnd, m)
		if fixed != nil {
			op = fixed[oi]
		}
		history = append(history, op)
		if op.Kind == "config" {
			tr := config.NewTransaction(st)
			tr.Set(op.Snap, "key", op.CfgVal)
			tr.Commit()
			continue
		}
		if op.Kind == "retain" {
			tr := config.NewTransaction(st)
			tr.Set("core", "refresh.retain", op.Rev)
			tr.Commit()
			continue
		}
		faultable := op.Kind == "install" || op.Kind == "refresh-new" || op.Kind == "refresh-kept" || op.Kind == "revert" || op.Kind == "revert-to"
		enumerate := faultable && (!kit.Quick() || oi >= nops-2)
		if fixed != nil {
			// directed histories stay exactly as written in both tiers: a fault
			// that fires after an irreversible discard would change what the
			// later requests of the history mean
			enumerate = op.Enum
		}
		witness := func(extra map[string]interface{}) map[string]interface{} {
			mm := map[string]interface{}{"case_index": hi, "history": history, "op_index": oi, "op": op}
			for k, v := range extra {
				mm[k] = v
			}
			return mm
		}
		// one attempt with a fault at a given position; returns (finished enumerating this kind)
		tryFault := func(splice, bfault int) (done bool, stop bool, ntasks int) {
			before := map[string]snapView{}
			for _, n := range []string{"some-snap", "some-other-snap"} {
				before[n] = s.view(n, w)
			}
			if op.Kind == "refresh-kept" || op.Kind == "revert-to" {
				// an earlier faulted attempt may have irreversibly discarded the
				// target: the request is then no longer the same operation
				kept := false
				for _, r := range before[op.Snap].Sequence {
					if r == op.Rev {
						kept = true
					}
				}
				if !kept || before[op.Snap].Current == op.Rev {
					chk.Count("target_discarded_by_earlier_fault", 1)
					return true, true, 0
				}
			}
			a, err := s.run(op, splice, bfault)
			if err != nil {
				// the request is not (or no longer) acceptable: nothing to judge
				chk.Count("requests_rejected", 1)
				chk.Count("rejected_"+op.Kind, 1)
				if fixed != nil {
					chk.Inconclusive(fmt.Sprintf("directed history %d: request %d (%s) was rejected: %v", hi, oi, op.Kind, err))
				}
				if os.Getenv("VERIF_DEBUG") != "" {
					fmt.Printf("DEBUG hist=%d op=%d %+v rejected: %v\n", hi, oi, op, err)
				}
				return true, true, 0
			}
			if a.skipped {
				return false, false, a.ntasks
			}
			chk.Eval()
			if a.err != nil {
				// the system is in an unknown intermediate state: nothing later in
				// this history can be judged
				abandoned = true
				unready := []string{}
				for _, t := range a.chg.Tasks() {
					if !t.Status().Ready() {
						unready = append(unready, t.Kind()+":"+t.Status().String())
					}
				}
				chk.Inconclusive(fmt.Sprintf("history %d op %d (%s, fault splice=%d backend=%d): change did not settle: %v; unready tasks: %v", hi, oi, op.Kind, splice, bfault, a.err, unready))
				return true, true, a.ntasks
			}
			removed := w.apply(a.ops, a.failedIdx)
			status := a.chg.Status()
			if os.Getenv("VERIF_DEBUG") != "" {
				kind := ""
				if splice >= 0 && splice < len(a.kinds) {
					kind = a.kinds[splice]
				}
				fmt.Printf("DEBUG hist=%d op=%d %s splice=%d(%s) bfault=%d fired=%v status=%s seq=%v\n", hi, oi, op.Kind, splice, kind, bfault, a.fired, status, s.view(op.Snap, w).Sequence)
			}
			pos := fmt.Sprintf("splice=%d backend=%d", splice, bfault)
			s.crossCheck(chk, prop, witness(map[string]interface{}{"fault": pos, "change_status": status.String()}), w, op, before, status, pos)
			if !a.fired {
				// no fault fired: the operation ran clean
				if status != state.DoneStatus {
					chk.Count("clean_run_not_done", 1)
				}
				return true, true, a.ntasks
			}
			if status != state.ErrorStatus {
				// the fault was absorbed (e.g. an ignored error): nothing to compare
				chk.Count("faults_absorbed", 1)
				return false, status == state.DoneStatus, a.ntasks
			}
			chk.Count("faulted_changes", 1)
			if splice >= 0 {
				chk.Count("fault_task_positions", 1)
			} else {
				chk.Count("fault_backend_positions", 1)
			}
			if prop == "C10" {
				n := op.Snap
				after := s.view(n, w)
				b := before[n]
				exp := b
				if len(removed[n]) > 0 {
					exp.Sequence = without(b.Sequence, removed[n])
					exp.WorldMounted = without(b.WorldMounted, removed[n])
					exp.Blocked = without(b.Blocked, removed[n])
					if len(b.RevertStatus) > 0 {
						// the marks of a revision that no longer exists go with it
						exp.RevertStatus = map[string]string{}
						for r, v := range b.RevertStatus {
							gone := false
							for _, x := range removed[n] {
								if fmt.Sprint(x) == r {
									gone = true
								}
							}
							if !gone {
								exp.RevertStatus[r] = v
							}
						}
						if len(exp.RevertStatus) == 0 {
							exp.RevertStatus = nil
						}
					}
					chk.Count("faults_after_irreversible_discard", 1)
				}
				var diffs []string
				cmp := func(field string, x, y interface{}) {
					if kit.JSON(x) != kit.JSON(y) {
						diffs = append(diffs, fmt.Sprintf("%s: before=%s after=%s", field, kit.JSON(x), kit.JSON(y)))
					}
				}
				cmp("present", exp.Present, after.Present)
				cmp("current", exp.Current, after.Current)
				cmp("sequence", exp.Sequence, after.Sequence)
				cmp("active", exp.Active, after.Active)
				cmp("tracking-channel", exp.Channel, after.Channel)
				cmp("devmode", exp.DevMode, after.DevMode)
				cmp("jailmode", exp.JailMode, after.JailMode)
				cmp("classic", exp.Classic, after.Classic)
				cmp("ignore-validation", exp.IgnoreValid, after.IgnoreValid)
				cmp("cohort-key", exp.Cohort, after.Cohort)
				cmp("last-refresh-time", exp.LastRefresh, after.LastRefresh)
				cmp("refresh-inhibited-time", exp.RefreshInhibit, after.RefreshInhibit)
				cmp("revert-status", exp.RevertStatus, after.RevertStatus)
				cmp("blocked-revisions", exp.Blocked, after.Blocked)
				cmp("config", exp.Config, after.Config)
				cmp("world-mounted", exp.WorldMounted, after.WorldMounted)
				cmp("world-current-link", exp.WorldLink, after.WorldLink)
				if len(diffs) > 0 {
					fields := []string{}
					for _, d := range diffs {
						fields = append(fields, strings.SplitN(d, ":", 2)[0])
					}
					where := "task"
					kind := ""
					if splice >= 0 {
						kind = a.kinds[splice]
					} else {
						where = "backend"
						if a.failedIdx >= 0 && a.failedIdx < len(a.ops) {
							kind = a.ops[a.failedIdx].op
						}
					}
					chk.Violation(fmt.Sprintf("C10:not-restored:%s:after-%s-%s:%s", op.Kind, where, kind, strings.Join(fields, "+")),
						witness(map[string]interface{}{"fault": pos, "diffs": diffs, "before": b, "after": after, "task_kinds": a.kinds}))
				}
				chk.Nontrivial(kit.Sig(op, kit.JSON(b), pos))
				if splice == 3 || bfault == 2 {
					chk.Sample(map[string]interface{}{"history": history, "op": op, "fault": pos, "task_kinds": a.kinds, "before": b, "after": after})
				}
			}
			return false, false, a.ntasks
		}

		if enumerate {
			chk.Count("operations_fault_enumerated", 1)
			chk.Count("enumerated_"+op.Kind, 1)
			// F1: error-trigger after task k, for every k
			stop := false
			ntasks := 1
			for k := 0; k < ntasks && k < 120 && !stop; k++ {
				var nt int
				_, stop, nt = tryFault(k, 0)
				if nt > 0 {
					ntasks = nt
				}
			}
			// F2: the n-th fault-capable backend operation fails, until a run is clean
			for n := 1; n < 120 && !stop; n++ {
				var done bool
				done, stop, _ = tryFault(-1, n)
				if done {
					stop = true
				}
			}
		} else {
			tryFault(-1, 0)
		}
	}
}

// crossCheck is C11's oracle; it runs for both properties (C10 only counts).
func (s *verifC1011Suite) crossCheck(chk *kit.Check, prop string, wit map[string]interface{}, w *world, op opSpec, before map[string]snapView, status state.Status, pos string) {
	changed := false
	for _, n := range []string{"some-snap", "some-other-snap"} {
		v := s.view(n, w)
		if kit.JSON(v) != kit.JSON(before[n]) {
			changed = true
		}
		if prop != "C11" {
			continue
		}
		bad := func(sig string) {
			wit["snap"] = n
			wit["view"] = v
			chk.Violation("C11:"+sig+":after-"+op.Kind+"-"+status.String(), wit)
		}
		if !v.Present {
			if len(v.WorldMounted) > 0 {
				bad("removed-snap-still-mounted")
			}
			if v.WorldLink != 0 {
				bad("removed-snap-still-linked")
			}
			if v.Config != "" {
				bad("removed-snap-leaves-config")
			}
			continue
		}
		inSeq := false
		for _, r := range v.Sequence {
			if r == v.Current {
				inSeq = true
			}
		}
		if !inSeq {
			bad("current-not-in-sequence")
		}
		sorted := append([]int{}, v.Sequence...)
		sort.Ints(sorted)
		if !eqInts(sorted, v.WorldMounted) {
			bad("sequence-differs-from-mounted-revisions")
		}
		if v.Active && v.WorldLink != v.Current {
			bad("active-but-current-not-linked")
		}
		if !v.Active && v.WorldLink != 0 {
			bad("inactive-but-linked")
		}
		chk.Count("snap_cross_checks", 1)
	}
	if prop == "C11" {
		if changed {
			chk.Nontrivial(kit.Sig(op, kit.JSON(before[op.Snap]), pos, status))
			if pos == "splice=-1 backend=0" || strings.HasPrefix(pos, "splice=5") {
				chk.Sample(map[string]interface{}{"op": op, "fault": pos, "change_status": status.String(), "before": before[op.Snap], "after": s.view(op.Snap, w)})
			}
		}
		chk.Count("settled_changes_checked", 1)
	}
}
