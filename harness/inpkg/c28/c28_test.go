// C28 — mount namespace updates transform the current mounts into the desired
// ones.
//
// The harness is compiled into cmd/snap-update-ns (package main). For every
// generated history of desired profiles P1,P2,… over a real temporary tree it
// runs the REAL executeMountProfileUpdate -> NeededChanges -> neededChanges
// with a harness MountProfileUpdateContext (profiles live as fstab text and go
// through the real codec both ways) and with the package's changePerform seam
// pointed at the simulator of c28_sim_test.go. current_0 is empty, current_i is
// whatever update i saved. Oracles, all over observed data (the sequence of
// changes the update performed, the profile it saved):
//
//	(a) saved == P_i's entries (minus those whose Mount reported an error on
//	    the skip path) + synthetic entries whose needed-by is an id of P_i;
//	(b) an entry equal in current_{i-1} and P_i with no changed entry above it
//	    is kept (a Keep change, no Unmount/Mount of it);
//	(c) an Unmount of e never precedes the Unmount of an entry mounted later
//	    beneath e — judged against the recorded current profile (c-record) and
//	    against the order in which the simulator really saw the mounts happen
//	    (c-true);
//	(d) among Mount changes of one origin an entry never precedes one whose
//	    directory contains it;
//	(e) codec: ParseMountEntry(e.String()) == e and text/file profiles load
//	    back identically, for hostile entries and for every profile of the
//	    histories;
//	(f) the simulator's mount table after the update (Unmount with
//	    x-snapd.detach takes every entry mounted later on or beneath the
//	    detached one along) holds exactly the entries the update recorded: an
//	    unchanged entry that is kept while the entry it stands on is unmounted
//	    is gone from the table but still in the saved profile.
package main

import (
	"fmt"
	"os"
	"path/filepath"
	"reflect"
	"sort"
	"strings"
	"testing"
	"unicode"
	"unicode/utf8"

	kit "verifkit"

	"github.com/snapcore/snapd/osutil"
)

type c28Mon struct {
	c *kit.Check
}

func c28Strings(es []osutil.MountEntry) []string {
	out := make([]string, len(es))
	for i := range es {
		out[i] = es[i].String()
	}
	return out
}

func c28Beneath(child, parent string) bool {
	return strings.HasPrefix(child, strings.TrimSuffix(parent, "/")+"/")
}

func c28Kind(e *osutil.MountEntry) string {
	k := e.XSnapdKind()
	if k != "" {
		return k
	}
	switch {
	case e.Type == "tmpfs":
		return "tmpfs"
	case e.OptBool("rbind"):
		return "rbind"
	case e.OptBool("bind"):
		return "bind"
	}
	return "other"
}

func c28Origin(e *osutil.MountEntry) string {
	if e.XSnapdSynthetic() {
		return "synthetic"
	}
	if o := e.XSnapdOrigin(); o != "" {
		return o
	}
	return "content"
}

type c28UpdateLog struct {
	Index   int      `json:"update"`
	Shape   string   `json:"profile_delta"`
	Current []string `json:"current_before"`
	Desired []string `json:"desired"`
	Changes []string `json:"changes_performed"`
	Saved   []string `json:"saved"`
	Err     string   `json:"error,omitempty"`
}

func c28RecStrings(recs []c28Rec) []string {
	out := make([]string, 0, len(recs))
	for _, r := range recs {
		s := fmt.Sprintf("%s (%s)", r.Action, r.Entry)
		if r.Err != "" {
			s += " ERROR " + r.Err
		}
		out = append(out, s)
		for _, sy := range r.Synth {
			out = append(out, fmt.Sprintf("    +synthetic (%s)", sy))
		}
		for _, v := range r.Vanished {
			out = append(out, fmt.Sprintf("    -detached together with it (%s)", v))
		}
		if r.AlreadyGone {
			out = append(out, "    (had already left the mount table with a detached entry above it)")
		}
	}
	return out
}

// ---------------------------------------------------------------------------
// one history

func (mo *c28Mon) runHistory(idx int, scratch string) {
	c := mo.c
	r := kit.CaseRand("c28-history", idx)
	root := filepath.Join(scratch, fmt.Sprintf("h%d", idx))
	os.RemoveAll(root)
	defer os.RemoveAll(root)
	tree, err := c28BuildTree(r, root)
	if err != nil {
		c.Inconclusive(fmt.Sprintf("cannot build the temporary tree: %v", err))
		return
	}
	failRate := []float64{0, 0, 0.15, 0.35}[r.Intn(4)]
	sim := c28NewSim(tree, fmt.Sprintf("%d/%d", kit.Seed(), idx), failRate)
	restore := changePerform
	changePerform = sim.perform
	defer func() { changePerform = restore }()

	gen := &c28Gen{r: r, t: tree}
	nUpdates := 3 + r.Intn(3)
	var profiles [][]osutil.MountEntry
	var shapes []string
	profiles = append(profiles, gen.firstProfile())
	shapes = append(shapes, "first")
	for i := 1; i < nUpdates; i++ {
		p, sh := gen.nextProfile(profiles[i-1])
		profiles = append(profiles, p)
		shapes = append(shapes, sh)
	}

	var logs []c28UpdateLog
	var structure []string
	nontrivial := false
	currentText := ""
	witness := func(extra map[string]interface{}) map[string]interface{} {
		w := map[string]interface{}{
			"case_index": idx, "stream": "c28-history", "tree_root": root,
			"read_only_roots": tree.RO, "preexisting_dirs": tree.Dirs, "preexisting_files": tree.Files,
			"preexisting_symlinks": tree.Links, "fail_rate": failRate, "updates": logs,
		}
		for k, v := range extra {
			w[k] = v
		}
		return w
	}

	for ui, prof := range profiles {
		sim.startUpdate(ui)
		desiredText, err := osutil.SaveMountProfileText(&osutil.MountProfile{Entries: prof})
		if err != nil {
			c.Inconclusive(fmt.Sprintf("cannot render desired profile: %v", err))
			return
		}
		ctx := &c28Ctx{desiredText: desiredText, currentText: currentText}
		// what the planner's probes will see (nothing is performed before the
		// whole change list has been computed)
		existedAtPlan := map[string]bool{}
		for i := range prof {
			_, lerr := os.Lstat(prof[i].Dir)
			existedAtPlan[filepath.Clean(prof[i].Dir)] = lerr == nil
		}
		seqBefore := map[string]int{}
		for _, l := range sim.live {
			seqBefore[l.key] = l.seq
		}
		uerr := executeMountProfileUpdate(ctx)
		c.Count("updates_run", 1)

		lg := c28UpdateLog{Index: ui, Shape: shapes[ui], Current: c28Strings(ctx.loadedCurrent), Desired: c28Strings(ctx.loadedDesired),
			Changes: c28RecStrings(sim.recs), Saved: c28Strings(ctx.saved)}
		if uerr != nil {
			lg.Err = uerr.Error()
		}
		logs = append(logs, lg)

		// -- codec on realistic profiles: the desired profile as generated must
		// load back identically (all fields are non-empty by construction).
		c.Count("codec_realistic_profiles", 1)
		if !reflect.DeepEqual(c28Strings(prof), c28Strings(ctx.loadedDesired)) || !c28SameEntries(prof, ctx.loadedDesired) {
			c.Violation("C28:codec:profile-roundtrip:realistic-desired-profile", witness(map[string]interface{}{"update": ui}))
		}
		if ctx.locks != 1 || ctx.unlocks != 1 {
			c.Violation("C28:update:lock-not-released", witness(map[string]interface{}{"update": ui, "locks": ctx.locks, "unlocks": ctx.unlocks}))
		}

		current := ctx.loadedCurrent
		desired := c28CopyEntries(ctx.loadedDesired)
		for i := range desired {
			desired[i].Dir = filepath.Clean(desired[i].Dir)
		}
		for i := range current {
			current[i].Dir = filepath.Clean(current[i].Dir)
		}

		nK, nU, nM, nS := 0, 0, 0, 0
		for _, rc := range sim.recs {
			switch rc.Action {
			case Keep:
				nK++
			case Unmount:
				nU++
			case Mount:
				nM++
			}
			nS += len(rc.Synth)
			structure = append(structure, fmt.Sprintf("%s:%s:%s:%d:%v:%d", rc.Action, c28Origin(&rc.Entry), c28Kind(&rc.Entry),
				strings.Count(tree.rel(rc.Entry.Dir), "/"), rc.Err != "", len(rc.Synth)))
		}
		structure = append(structure, "|")
		c.Count("changes_keep", nK)
		c.Count("changes_unmount", nU)
		c.Count("changes_mount", nM)
		c.Count("synthetic_changes_returned", nS)
		c.Max("max_changes_in_one_update", len(sim.recs))
		if ui > 0 && nK > 0 && nU > 0 && nM > 0 {
			nontrivial = true
		}

		mo.checkUnmountOrder(idx, ui, current, sim.recs, witness)
		mo.checkMountOrder(idx, ui, sim.recs, existedAtPlan, witness)

		if uerr != nil {
			// a layout/overname change failed: the update stopped, nothing was
			// recorded. The property speaks about applied updates; the history
			// ends here.
			c.Count("updates_aborted", 1)
			if ctx.savedCalls != 0 {
				c.Violation("C28:saved-profile:saved-after-fatal-error", witness(map[string]interface{}{"update": ui}))
			}
			break
		}
		if ctx.savedCalls != 1 {
			c.Violation("C28:saved-profile:not-saved-exactly-once", witness(map[string]interface{}{"update": ui, "save_calls": ctx.savedCalls}))
			break
		}
		mo.checkSaved(idx, ui, current, desired, ctx.saved, sim.recs, witness)
		mo.checkKept(idx, ui, current, desired, sim.recs, witness)
		mo.countNesting(current, desired, seqBefore)
		if !mo.checkMountTable(idx, ui, ctx.saved, sim, witness) {
			// the record no longer describes the simulated mount table: the rest
			// of the history would be judged against a fiction
			c.Count("histories_ended_after_mount_table_divergence", 1)
			break
		}

		// -- codec on the recorded profile: what the next update loads is what
		// this update saved (empty Name/Type are spelled "none": excluded by the
		// statement's "non-empty", compared modulo that spelling).
		next, lerr := osutil.LoadMountProfileText(ctx.savedText)
		c.Count("codec_realistic_profiles", 1)
		if lerr != nil || !c28SameEntriesModuloNone(ctx.saved, next.Entries) {
			c.Violation("C28:codec:profile-roundtrip:recorded-current-profile", witness(map[string]interface{}{"update": ui, "load_error": fmt.Sprint(lerr)}))
		}
		currentText = ctx.savedText
	}

	c.Count("mimics_created", sim.mimics)
	c.Count("mimic_plan_steps_performed", sim.nestedCalls)
	c.Count("perform_failures_injected", sim.failuresInjected)
	c.Count("perform_failures_after_mimic", sim.failuresAfterMimic)
	c.Count("perform_refused_read_only_ensure_dir", sim.roRefusals)
	c.Count("perform_type_mismatch_errors", sim.typeMismatch)
	c.Count("unmounts_of_entries_unknown_to_simulator", sim.unknownUnmounts)
	c.Count("symlink_unmounted_after_its_tmpfs_was_gone", sim.symlinkGoneWithParent)
	c.Count("entries_detached_together_with_the_entry_above_them", sim.detachedWithParent)
	c.Count("unmounts_of_entries_already_detached_with_the_entry_above_them", sim.unmountsOfGone)
	c.Eval()
	if nontrivial {
		c.Nontrivial(kit.Sig("history", strings.Join(structure, ",")))
		c.Count("histories_nontrivial", 1)
	}
	if idx < 2 {
		c.Sample(map[string]interface{}{"case_index": idx, "kind": "history", "read_only_roots": tree.RO, "fail_rate": failRate, "updates": logs})
	}
}

func c28SameEntries(a, b []osutil.MountEntry) bool {
	if len(a) != len(b) {
		return false
	}
	for i := range a {
		if !a[i].Equal(&b[i]) {
			return false
		}
	}
	return true
}

func c28NoneNorm(e osutil.MountEntry) osutil.MountEntry {
	if e.Name == "" {
		e.Name = "none"
	}
	if e.Type == "" {
		e.Type = "none"
	}
	if e.Dir == "" {
		e.Dir = "none"
	}
	if len(e.Options) == 0 {
		e.Options = []string{"defaults"}
	}
	return e
}

func c28SameEntriesModuloNone(a, b []osutil.MountEntry) bool {
	if len(a) != len(b) {
		return false
	}
	for i := range a {
		x, y := c28NoneNorm(a[i]), c28NoneNorm(b[i])
		if !x.Equal(&y) {
			return false
		}
	}
	return true
}

// ---------------------------------------------------------------------------
// (a) saved profile

func (mo *c28Mon) checkSaved(idx, ui int, current, desired, saved []osutil.MountEntry, recs []c28Rec,
	witness func(map[string]interface{}) map[string]interface{}) {
	c := mo.c
	c.Count("saved_profiles_judged", 1)
	ids := map[string]bool{}
	for i := range desired {
		ids[desired[i].XSnapdEntryID()] = true
	}
	failed := map[string]bool{}
	for _, rc := range recs {
		if rc.Action == Mount && rc.Err != "" {
			failed[c28Key(&rc.Entry)] = true
		}
	}
	want := map[string]int{}
	for i := range desired {
		k := c28Key(&desired[i])
		if failed[k] {
			c.Count("desired_entries_skipped_after_error", 1)
			continue
		}
		want[k]++
	}
	// Classification helpers (they only choose the signature). An entry has a
	// "legitimately kept sibling" when a DIFFERENT entry with the same mount
	// point and the same fstype was kept for a good reason (equal to a desired
	// entry, or a helper of a desired entry): the planner's reuse table is
	// keyed by (dir, fstype) and cannot tell the two apart.
	normType := func(t string) string {
		if t == "" {
			return "none"
		}
		return t
	}
	keptKeys := map[string]bool{}
	mountedKeys := map[string]bool{}
	for _, rc := range recs {
		switch {
		case rc.Action == Keep:
			keptKeys[c28Key(&rc.Entry)] = true
		case rc.Action == Mount && rc.Err == "":
			mountedKeys[c28Key(&rc.Entry)] = true
		}
	}
	legitKeptSibling := func(e *osutil.MountEntry) bool {
		k := c28Key(e)
		for _, rc := range recs {
			if rc.Action != Keep || filepath.Clean(rc.Entry.Dir) != filepath.Clean(e.Dir) || normType(rc.Entry.Type) != normType(e.Type) {
				continue
			}
			rk := c28Key(&rc.Entry)
			if rk == k {
				continue
			}
			if rc.Entry.XSnapdSynthetic() && ids[rc.Entry.XSnapdNeededBy()] || !rc.Entry.XSnapdSynthetic() && want[rk] > 0 {
				return true
			}
		}
		return false
	}
	got := map[string]int{}
	for i := range saved {
		e := &saved[i]
		if e.XSnapdSynthetic() {
			c.Count("saved_synthetic_entries", 1)
			if !ids[e.XSnapdNeededBy()] {
				sig := "C28:saved-profile:stale-helper-entry"
				if keptKeys[c28Key(e)] && legitKeptSibling(e) {
					sig = "C28:saved-profile:reuse-key-collision:stale-helper-kept"
				}
				c.Violation(sig, witness(map[string]interface{}{
					"update": ui, "entry": e.String(), "needed_by": e.XSnapdNeededBy()}))
			}
			continue
		}
		c.Count("saved_plain_entries", 1)
		got[c28Key(e)]++
	}
	var missing, extra []string
	for k, n := range want {
		if got[k] < n {
			missing = append(missing, k)
		}
	}
	for k, n := range got {
		if want[k] < n {
			extra = append(extra, k)
		}
	}
	sort.Strings(missing)
	sort.Strings(extra)
	for _, mk := range missing {
		sig := "C28:saved-profile:desired-entry-missing:never-mounted"
		switch {
		case keptKeys[mk]:
			sig = "C28:saved-profile:desired-entry-missing:kept-but-not-recorded"
		case mountedKeys[mk]:
			sig = "C28:saved-profile:desired-entry-missing:mounted-but-not-recorded"
		default:
			for i := range desired {
				if c28Key(&desired[i]) == mk && legitKeptSibling(&desired[i]) {
					sig = "C28:saved-profile:reuse-key-collision:desired-entry-never-mounted"
				}
			}
		}
		c.Violation(sig, witness(map[string]interface{}{"update": ui, "entry": mk, "missing": missing, "unexpected": extra}))
	}
	for _, xk := range extra {
		sig := "C28:saved-profile:unexpected-entry:other"
		switch {
		case want[xk] > 0:
			sig = "C28:saved-profile:unexpected-entry:duplicated"
		case failed[xk]:
			sig = "C28:saved-profile:unexpected-entry:failed-change-recorded"
		case keptKeys[xk]:
			sig = "C28:saved-profile:unexpected-entry:stale-entry-kept"
			for i := range saved {
				if c28Key(&saved[i]) == xk && legitKeptSibling(&saved[i]) {
					sig = "C28:saved-profile:reuse-key-collision:stale-entry-kept"
				}
			}
		}
		c.Violation(sig, witness(map[string]interface{}{"update": ui, "entry": xk, "unexpected": extra, "missing": missing}))
	}
}

// ---------------------------------------------------------------------------
// (b) unchanged entries not beneath a changed one are kept

func (mo *c28Mon) checkKept(idx, ui int, current, desired []osutil.MountEntry, recs []c28Rec,
	witness func(map[string]interface{}) map[string]interface{}) {
	c := mo.c
	ids := map[string]bool{}
	for i := range desired {
		ids[desired[i].XSnapdEntryID()] = true
	}
	equalIn := func(e *osutil.MountEntry, set []osutil.MountEntry) bool {
		for i := range set {
			if set[i].Dir == e.Dir && e.Equal(&set[i]) {
				return true
			}
		}
		return false
	}
	// changed entries: current ones that go away or differ, desired ones that
	// are new or differ.
	var changedDirs []string
	for i := range current {
		e := &current[i]
		if e.XSnapdSynthetic() {
			if !ids[e.XSnapdNeededBy()] {
				changedDirs = append(changedDirs, e.Dir)
			}
			continue
		}
		if !equalIn(e, desired) {
			changedDirs = append(changedDirs, e.Dir)
		}
	}
	for i := range desired {
		if !equalIn(&desired[i], current) {
			changedDirs = append(changedDirs, desired[i].Dir)
		}
	}
	for i := range current {
		e := &current[i]
		if e.XSnapdSynthetic() || !equalIn(e, desired) {
			continue
		}
		beneath := false
		for _, d := range changedDirs {
			if c28Beneath(e.Dir, d) {
				beneath = true
				break
			}
		}
		if beneath {
			c.Count("unchanged_entries_beneath_a_changed_one", 1)
			continue
		}
		c.Count("unchanged_entries_that_must_be_kept", 1)
		k := c28Key(e)
		keeps, others := 0, 0
		for _, rc := range recs {
			if c28Key(&rc.Entry) != k {
				continue
			}
			if rc.Action == Keep {
				keeps++
			} else {
				others++
			}
		}
		if keeps != 1 || others != 0 {
			c.Violation("C28:keep:unchanged-entry-not-kept", witness(map[string]interface{}{
				"update": ui, "entry": e.String(), "keep_changes": keeps, "mount_or_unmount_changes": others}))
		}
	}
}

// ---------------------------------------------------------------------------
// (f) the simulated mount table after the update is what the update recorded
//
// The simulator keeps a mount table: Mount adds a row, Unmount removes the row
// and, when the change detaches (x-snapd.detach, which the planner puts on
// every tmpfs / bind / rbind), every row mounted later at a path beneath it.
// A Keep changes nothing. So an unchanged entry that the planner keeps although
// the entry it sits on is unmounted in the same change list is gone from the
// table while the saved profile (= desired) still lists it.

func (mo *c28Mon) checkMountTable(idx, ui int, saved []osutil.MountEntry, sim *c28Sim,
	witness func(map[string]interface{}) map[string]interface{}) bool {
	c := mo.c
	c.Count("mount_tables_compared_with_saved_profile", 1)
	c.Count("mount_table_entries_compared", len(saved))
	table := sim.table()
	rec := map[string]int{}
	strs := map[string]string{}
	origins := map[string]string{}
	for i := range saved {
		k := c28Key(&saved[i])
		rec[k]++
		strs[k] = saved[i].String()
		origins[k] = c28Origin(&saved[i])
	}
	kept := map[string]bool{}
	keptDirs := map[string]bool{}
	for _, rc := range sim.recs {
		if rc.Action == Keep {
			kept[c28Key(&rc.Entry)] = true
			keptDirs[filepath.Clean(rc.Entry.Dir)] = true
		}
	}
	var tableDump []string
	for _, l := range sim.live {
		tableDump = append(tableDump, fmt.Sprintf("#%d %s", l.seq, l.str))
	}
	ok := true
	var resync []c28Live
	var keys []string
	for k := range rec {
		keys = append(keys, k)
	}
	sort.Strings(keys)
	for _, k := range keys {
		if table[k] >= rec[k] {
			continue
		}
		sig := "C28:mount-table:recorded-entry-not-mounted:other"
		extra := map[string]interface{}{"update": ui, "entry": strs[k], "simulated_mount_table": tableDump,
			"note": "#n = the n-th Mount the simulator performed since the start of the history"}
		if g := sim.gone[k]; len(g) > 0 && kept[k] && rec[k]-table[k] == 1 {
			last := g[len(g)-1]
			po, co := last.parentOrigin, origins[k]
			switch {
			case keptDirs[last.parentDir]:
				// two entries on one directory (an entry and the tmpfs of a mimic
				// over its mount point, or the bind a mimic made for an existing
				// child that is itself a mount point): the one that stays resets
				// the planner's skip prefix right after the one that goes
				sig = "C28:mount-table:kept-entry-detached-with-unmounted-parent:parent-shares-its-directory-with-a-kept-entry"
			case (po == "overname") != (co == "overname"):
				// the planner sorts overname entries apart from all others before
				// its changed-parent prefix scan
				sig = "C28:mount-table:kept-entry-detached-with-unmounted-parent:across-overname-boundary"
			default:
				sig = "C28:mount-table:kept-entry-detached-with-unmounted-parent:" + po + "-parent-" + co + "-child"
			}
			extra["detached_parent"] = last.parent
			extra["kept_entry_mounted_as_number"] = last.row.seq
			resync = append(resync, last.row)
		} else {
			ok = false
		}
		c.Violation(sig, witness(extra))
	}
	keys = keys[:0]
	for k := range table {
		keys = append(keys, k)
	}
	sort.Strings(keys)
	for _, k := range keys {
		if table[k] <= rec[k] {
			continue
		}
		ok = false
		c.Violation("C28:mount-table:mounted-entry-not-recorded", witness(map[string]interface{}{
			"update": ui, "entry_key": k, "simulated_mount_table": tableDump}))
	}
	if ok && len(resync) > 0 {
		// every difference is an entry that was kept while the entry under it
		// was detached: put those rows back and go on as if the record were true
		sim.restore(resync)
		c.Count("mount_table_resynchronised_with_the_record", 1)
	}
	return ok
}

// countNesting only measures what the generator produced (no verdict): current
// entries that are carried over unchanged while a current entry above them
// changes or goes away, by origin of both, whether the child was really
// mounted after the parent, and which unrelated entries sort around them.
func (mo *c28Mon) countNesting(current, desired []osutil.MountEntry, seqBefore map[string]int) {
	c := mo.c
	ids := map[string]bool{}
	for i := range desired {
		ids[desired[i].XSnapdEntryID()] = true
	}
	carried := func(e *osutil.MountEntry) bool {
		if e.XSnapdSynthetic() {
			return ids[e.XSnapdNeededBy()]
		}
		for i := range desired {
			if desired[i].Dir == e.Dir && e.Equal(&desired[i]) {
				return true
			}
		}
		return false
	}
	slash := func(d string) string { return strings.TrimSuffix(d, "/") + "/" }
	stepMixed, stepMixedAfter := false, false
	for i := range current {
		ch := &current[i]
		if ch.XSnapdSynthetic() || !carried(ch) {
			continue
		}
		var par *osutil.MountEntry
		for j := range current {
			p := &current[j]
			if j == i || carried(p) || !c28Beneath(ch.Dir, p.Dir) {
				continue
			}
			// prefer a parent of another origin, then the outermost one
			if par == nil {
				par = p
				continue
			}
			pm, qm := c28Origin(p) != c28Origin(ch), c28Origin(par) != c28Origin(ch)
			if pm != qm && pm || pm == qm && len(p.Dir) < len(par.Dir) {
				par = p
			}
		}
		if par == nil {
			continue
		}
		po, co := c28Origin(par), c28Origin(ch)
		if po == co {
			c.Count("unchanged_child_beneath_changed_parent_of_same_origin", 1)
			continue
		}
		stepMixed = true
		c.Count("unchanged_child_beneath_changed_parent_of_other_origin", 1)
		c.Count("nesting_"+po+"_parent_changes_"+co+"_child_stays", 1)
		if seqBefore[c28Key(ch)] > seqBefore[c28Key(par)] && seqBefore[c28Key(par)] > 0 {
			c.Count("unchanged_child_beneath_changed_parent_of_other_origin_mounted_after_it", 1)
		}
		before, after := map[string]bool{}, map[string]bool{}
		for j := range current {
			x := &current[j]
			if x == par || x == ch || c28Beneath(x.Dir, par.Dir) {
				continue
			}
			if slash(x.Dir) > slash(par.Dir) {
				after[c28Origin(x)] = true
			} else {
				before[c28Origin(x)] = true
			}
		}
		for o := range before {
			c.Count("mixed_nesting_with_unrelated_"+o+"_entry_sorting_before_parent", 1)
		}
		for o := range after {
			c.Count("mixed_nesting_with_unrelated_"+o+"_entry_sorting_after_parent_subtree", 1)
		}
		if len(after) > 0 {
			stepMixedAfter = true
		}
	}
	if stepMixed {
		c.Count("updates_with_unchanged_child_beneath_changed_parent_of_other_origin", 1)
	}
	if stepMixedAfter {
		c.Count("updates_with_mixed_nesting_and_unrelated_entry_sorting_after", 1)
	}
}

// ---------------------------------------------------------------------------
// (c) unmount order

func (mo *c28Mon) checkUnmountOrder(idx, ui int, current []osutil.MountEntry, recs []c28Rec,
	witness func(map[string]interface{}) map[string]interface{}) {
	c := mo.c
	// position of each current entry in the recorded profile
	pos := map[string][]int{}
	for i := range current {
		k := c28Key(&current[i])
		pos[k] = append(pos[k], i)
	}
	type um struct {
		dir      string
		recorded int
		seq      int
		str      string
	}
	var ums []um
	taken := map[string]int{}
	for _, rc := range recs {
		if rc.Action != Unmount {
			continue
		}
		k := c28Key(&rc.Entry)
		p := -1
		if lst := pos[k]; len(lst) > 0 {
			// identical duplicates: the planner walks the record backwards
			n := taken[k]
			if n < len(lst) {
				p = lst[len(lst)-1-n]
			}
			taken[k]++
		}
		if p < 0 {
			c.Violation("C28:unmount-order:unmount-of-entry-not-in-current-profile", witness(map[string]interface{}{"update": ui, "entry": rc.Entry.String()}))
			continue
		}
		ums = append(ums, um{dir: filepath.Clean(rc.Entry.Dir), recorded: p, seq: rc.Seq, str: rc.Entry.String()})
	}
	for j := 0; j < len(ums); j++ {
		for k := j + 1; k < len(ums); k++ {
			e, f := ums[j], ums[k] // e is unmounted before f
			if !c28Beneath(f.dir, e.dir) {
				continue
			}
			c.Count("unmount_pairs_parent_before_child_examined", 1)
			// f lies beneath e and is unmounted after e: only fine when f was
			// mounted before e.
			if f.recorded > e.recorded {
				c.Violation("C28:unmount-order:recorded-order:parent-unmounted-before-later-child", witness(map[string]interface{}{
					"update": ui, "unmounted_first": e.str, "unmounted_later": f.str}))
			}
			if e.seq > 0 && f.seq > e.seq {
				sig := "C28:unmount-order:true-mount-order:other"
				if f.recorded < e.recorded {
					// the record lists the later-mounted child BEFORE its parent
					sig = "C28:unmount-order:true-mount-order:recorded-profile-order-differs-from-mount-order"
				}
				c.Violation(sig, witness(map[string]interface{}{
					"update": ui, "unmounted_first": e.str, "mounted_as_number": e.seq, "unmounted_later": f.str, "later_mounted_as_number": f.seq,
					"note": "sequence numbers count the Mount changes the simulator performed since the start of the history"}))
			}
		}
	}
	for j := 0; j < len(ums); j++ {
		for k := j + 1; k < len(ums); k++ {
			if c28Beneath(ums[j].dir, ums[k].dir) {
				c.Count("unmount_pairs_child_before_parent", 1)
			}
		}
	}
}

// ---------------------------------------------------------------------------
// (d) mount order within one origin

func (mo *c28Mon) checkMountOrder(idx, ui int, recs []c28Rec, existedAtPlan map[string]bool, witness func(map[string]interface{}) map[string]interface{}) {
	c := mo.c
	var ms []*c28Rec
	for i := range recs {
		if recs[i].Action == Mount {
			ms = append(ms, &recs[i])
		}
	}
	for j := 0; j < len(ms); j++ {
		for k := j + 1; k < len(ms); k++ {
			a, b := &ms[j].Entry, &ms[k].Entry // a mounted before b
			if a.XSnapdOrigin() != b.XSnapdOrigin() {
				continue
			}
			ad, bd := filepath.Clean(a.Dir), filepath.Clean(b.Dir)
			if c28Beneath(bd, ad) {
				c.Count("mount_pairs_parent_before_child", 1)
			}
			if c28Beneath(ad, bd) {
				sig := "C28:mount-order:entry-mounted-before-the-entry-containing-it:" + c28Origin(a)
				if a.XSnapdKind() == "ensure-dir" && !existedAtPlan[ad] {
					// the planner never probes ensure-dir targets: a missing one
					// is planned with the entries whose target exists, ahead of
					// the entries that need their target created
					sig = "C28:mount-order:missing-ensure-dir-target-planned-as-existing"
				}
				c.Violation(sig, witness(map[string]interface{}{
					"update": ui, "mounted_first": a.String(), "mounted_later": b.String(),
					"first_target_existed_when_planned": existedAtPlan[ad], "first_target_existed_when_mounted": ms[j].TargetExisted}))
			}
		}
	}
}

// ---------------------------------------------------------------------------
// (e) codec

func c28LoadTrimmingOnlyBlanks(text string) ([]osutil.MountEntry, error) {
	var out []osutil.MountEntry
	for _, line := range strings.Split(text, "\n") {
		line = strings.Trim(line, " \t")
		if line == "" || line[0] == '#' {
			continue
		}
		e, err := osutil.ParseMountEntry(line)
		if err != nil {
			return nil, err
		}
		out = append(out, e)
	}
	return out, nil
}

func c28LeadingUnicodeSpace(s string) bool {
	r, _ := utf8.DecodeRuneInString(s)
	return r != ' ' && r != '\t' && r != '\n' && unicode.IsSpace(r)
}

func (mo *c28Mon) runCodec(idx int, scratch string) {
	c := mo.c
	r := kit.CaseRand("c28-codec", idx)
	n := 1 + r.Intn(4)
	entries := make([]osutil.MountEntry, n)
	special := false
	var classes []string
	for i := range entries {
		entries[i] = c28HostileEntry(r)
		e := &entries[i]
		cl := c28ByteClass(e.Name) + "|" + c28ByteClass(e.Dir) + "|" + c28ByteClass(e.Type) + "|" + c28ByteClass(strings.Join(e.Options, ","))
		if strings.ContainsAny(cl, "stnbwch#") {
			special = true
		}
		classes = append(classes, cl)
	}
	c.Eval()
	if special {
		c.Nontrivial(kit.Sig("codec", strings.Join(classes, "/")))
	}
	wit := func(extra map[string]interface{}) map[string]interface{} {
		var q []map[string]interface{}
		for i := range entries {
			q = append(q, map[string]interface{}{"name": fmt.Sprintf("%q", entries[i].Name), "dir": fmt.Sprintf("%q", entries[i].Dir),
				"type": fmt.Sprintf("%q", entries[i].Type), "options": fmt.Sprintf("%q", entries[i].Options),
				"freq": entries[i].DumpFrequency, "passno": entries[i].CheckPassNumber})
		}
		w := map[string]interface{}{"case_index": idx, "stream": "c28-codec", "entries_go_quoted": q}
		for k, v := range extra {
			w[k] = v
		}
		return w
	}
	// single entries
	for i := range entries {
		c.Count("codec_entries", 1)
		line := entries[i].String()
		back, err := osutil.ParseMountEntry(line)
		if err != nil || !back.Equal(&entries[i]) {
			c.Violation("C28:codec:entry-roundtrip", wit(map[string]interface{}{"entry": i, "line": fmt.Sprintf("%q", line),
				"parse_error": fmt.Sprint(err), "parsed_back": fmt.Sprintf("%q", back)}))
		}
	}
	// profile as text
	c.Count("codec_profiles_text", 1)
	prof := &osutil.MountProfile{Entries: entries}
	text, err := osutil.SaveMountProfileText(prof)
	var back *osutil.MountProfile
	if err == nil {
		back, err = osutil.LoadMountProfileText(text)
	}
	if err != nil || !c28SameEntries(entries, back.Entries) {
		sig := "C28:codec:profile-roundtrip:other"
		// Cause isolation: ReadMountProfile trims every line with
		// strings.TrimSpace although only ' ' and '\t' separate fields. When a
		// reader that differs from it in nothing but that (same line split,
		// same comment rule, the real ParseMountEntry) gets the entries back,
		// and a first field does start with such white space, the trimming is
		// the whole explanation.
		if alt, aerr := c28LoadTrimmingOnlyBlanks(text); aerr == nil && c28SameEntries(entries, alt) {
			for i := range entries {
				if c28LeadingUnicodeSpace(entries[i].Name) {
					sig = "C28:codec:profile-roundtrip:leading-unicode-whitespace-of-first-field-trimmed"
				}
			}
		}
		w := wit(map[string]interface{}{"text": fmt.Sprintf("%q", text), "load_error": fmt.Sprint(err)})
		if back != nil {
			w["loaded_back"] = fmt.Sprintf("%q", back.Entries)
		}
		c.Violation(sig, w)
	}
	// profile through a file, for a slice of the cases (atomic write + fsync)
	if idx%64 == 0 {
		c.Count("codec_profiles_file", 1)
		fn := filepath.Join(scratch, "codec.fstab")
		err := prof.Save(fn)
		var fb *osutil.MountProfile
		if err == nil {
			fb, err = osutil.LoadMountProfile(fn)
		}
		textSame := back != nil && fb != nil && c28SameEntries(back.Entries, fb.Entries)
		if err != nil || !textSame && !c28SameEntries(entries, fb.Entries) {
			c.Violation("C28:codec:profile-roundtrip:file-differs-from-text", wit(map[string]interface{}{"load_error": fmt.Sprint(err)}))
		}
	}
	if idx < 2 {
		c.Sample(wit(map[string]interface{}{"kind": "codec", "text": fmt.Sprintf("%q", text)}))
	}
}

// ---------------------------------------------------------------------------

func TestVerifC28(t *testing.T) {
	c := kit.New("C28", "exploration")
	defer c.Done(t)
	c.Rule("histories: tree, read-only regions, failure rate, 3-5 desired profiles (first: 1-9 entries of kinds rbind/bind/tmpfs/symlink/file/ensure-dir and origins layout/overname/content on existing dirs, missing paths, paths beneath or above other entries; next: remove 20% / modify 15% / add 0-3 / reorder, 10% identical, 5% empty) are a function of (seed, shard, case index). Directed classes on top: 2 first profiles in 5 and 1 derived profile in 8 get a nesting family (directory-kind parent of one origin with 1-3 entries beneath it whose origin differs 3 times in 4: layout under content, content under layout, either under or above overname, now and then a grandchild), a shared-mimic family (2-3 entries, mostly layouts, on missing names inside one existing read-only directory, so that the first one mounted owns the mimic the others live in) or both, plus 1-3 unrelated entries of any origin sorting early (etc, home, opt) or late (var/...); 1 derived profile in 5 removes (60%) or modifies one entry that has another entry beneath it or beside it inside a mimic while everything beneath and beside it stays textually unchanged and the unrelated entries mostly stay. A history is non-trivial when an update after the first performed at least one Keep, one Unmount and one Mount; its signature hashes the sequence of (action, origin, kind, depth, failed, #synthetic) of every change of every update. Codec cases (1-4 hostile entries) are non-trivial when a field holds whitespace, backslash, '#', control or non-ASCII bytes; signature = byte-class pattern of all fields.")
	c.Assume("the recorded order of the current profile is what 'mounted later' means for clause (c-record); clause (c-true) uses the order in which the simulator saw Mount changes performed")
	c.Assume("changePerform outcomes are simulated: success, injected error (non-layout entries only), or the synthetic changes of the real createWritableMimic over the real temporary tree; mount/umount system calls are never issued")
	c.Assume("'beneath' is path containment of cleaned mount points (dir + '/' prefix); entries on the same directory are not beneath one another")
	c.Assume("simulated mount table: a Mount adds the entry, an Unmount removes the entry it names and, when it carries x-snapd.detach, every entry mounted later on the same directory or beneath it (MNT_DETACH takes the mounts stacked on the detached one; entries mounted there earlier lie underneath and stay); a Keep changes nothing")
	c.Assume("desired profiles have pairwise distinct, clean mount points; file and symlink entries have nothing beneath them")

	mo := &c28Mon{c: c}
	scratch := os.Getenv("TMPDIR")
	if scratch == "" {
		scratch = kit.WorkDir("C28")
	}
	scratch = filepath.Join(scratch, "c28")
	if fast := os.Getenv("VERIF_C28_SCRATCH"); fast != "" {
		// a memory-backed directory: the trees are only probed, never mounted on
		if fi, err := os.Stat(fast); err == nil && fi.IsDir() {
			sh, n := kit.Shard()
			scratch = filepath.Join(fast, fmt.Sprintf("verif-c28-%d-s%d-%d-of-%d", os.Getpid(), kit.Seed(), sh, n))
		}
	}
	os.MkdirAll(scratch, 0755)
	defer os.RemoveAll(scratch)

	nHist := kit.Scale(1500, 6000)
	nCodec := kit.Scale(40000, 150000)
	if only := kit.OnlyCase(); only >= 0 {
		switch os.Getenv("VERIF_C28_STREAM") {
		case "codec":
			mo.runCodec(only, scratch)
		case "history":
			mo.runHistory(only, scratch)
		default:
			mo.runHistory(only, scratch)
			mo.runCodec(only, scratch)
		}
		c.MinDistinct(0)
		return
	}
	for i := 0; i < nHist; i++ {
		mo.runHistory(i, scratch)
	}
	for i := 0; i < nCodec; i++ {
		mo.runCodec(i, scratch)
	}
	c.Floor("updates_run", int64(nHist*2))
	c.Floor("changes_keep", int64(nHist))
	c.Floor("changes_unmount", int64(nHist))
	c.Floor("changes_mount", int64(nHist*2))
	c.Floor("mimics_created", int64(nHist/10))
	c.Floor("synthetic_changes_returned", int64(nHist/10))
	c.Floor("saved_synthetic_entries", int64(nHist/10))
	c.Floor("perform_failures_injected", int64(nHist/20))
	c.Floor("unchanged_entries_that_must_be_kept", int64(nHist/2))
	c.Floor("unmount_pairs_child_before_parent", int64(nHist/20))
	c.Floor("mount_pairs_parent_before_child", int64(nHist/10))
	c.Floor("mount_tables_compared_with_saved_profile", int64(nHist*2))
	c.Floor("entries_detached_together_with_the_entry_above_them", int64(nHist/10))
	c.Floor("unchanged_child_beneath_changed_parent_of_other_origin_mounted_after_it", int64(nHist/10))
	c.Floor("nesting_content_parent_changes_layout_child_stays", int64(nHist/30))
	c.Floor("nesting_synthetic_parent_changes_layout_child_stays", int64(nHist/30))
	c.Floor("nesting_layout_parent_changes_content_child_stays", int64(nHist/30))
	c.Floor("updates_with_mixed_nesting_and_unrelated_entry_sorting_after", int64(nHist/10))
	c.Floor("codec_entries", int64(nCodec))
	c.Floor("histories_nontrivial", int64(nHist/4))
	c.MinDistinct(nHist / 4)
}
