// C28 generators: pre-existing directory trees, histories of desired mount
// profiles, and hostile mount entries for the codec clause. Everything is a
// pure function of the *rand.Rand handed in (kit.CaseRand).
package main

import (
	"fmt"
	"math/rand"
	"os"
	"path/filepath"
	"sort"
	"strings"

	"github.com/snapcore/snapd/osutil"
)

// ---------------------------------------------------------------------------
// pre-existing tree

// c28Tree is the real temporary tree the planner and the simulator probe.
type c28Tree struct {
	Root  string
	Dirs  []string          // pre-existing directories (absolute, sorted)
	Files []string          // pre-existing regular files
	Links map[string]string // pre-existing symlinks -> target
	RO    []string          // roots of read-only regions (squashfs-like)
}

// names deliberately sort differently with and without a trailing slash
// ("a" < "a-b" < "a.b" < "a/…" < "a0") and include whitespace / backslash so
// that recorded profiles exercise the codec on realistic entries.
var c28Names = []string{"a", "b", "c", "a-b", "a.b", "a0", "lib", "share", "etc", "d e", `q\z`, "t\tb"}

func c28PickName(r *rand.Rand) string {
	if r.Intn(10) == 0 {
		return c28Names[9+r.Intn(3)]
	}
	return c28Names[r.Intn(9)]
}

func (t *c28Tree) rel(p string) string { return strings.TrimPrefix(p, t.Root) }

func (t *c28Tree) hasDir(p string) bool {
	i := sort.SearchStrings(t.Dirs, p)
	return i < len(t.Dirs) && t.Dirs[i] == p
}

func (t *c28Tree) exists(p string) bool {
	if t.hasDir(p) {
		return true
	}
	for _, f := range t.Files {
		if f == p {
			return true
		}
	}
	_, ok := t.Links[p]
	return ok
}

// c28BuildTree creates the tree on disk under root.
func c28BuildTree(r *rand.Rand, root string) (*c28Tree, error) {
	t := &c28Tree{Root: root, Links: map[string]string{}}
	dirset := map[string]bool{}
	add := func(rel string) string {
		p := filepath.Join(root, rel)
		for q := p; len(q) >= len(root); q = filepath.Dir(q) {
			dirset[q] = true
		}
		return p
	}
	base := []string{"usr", "usr/lib", "usr/share", "opt", "etc", "var", "var/lib", "home/u",
		"snap/foo/x1", "snap/foo/x1/meta", "snap/foo/x1/data", "snap/foo_inst/x1", "snap/other/x2/content",
		"var/snap/foo/common", "var/snap/foo_inst/common"}
	for _, b := range base {
		add(b)
	}
	// random growth: children and grandchildren with hostile-to-sorting names
	grow := []string{"usr", "usr/lib", "usr/share", "opt", "etc", "var", "var/lib", "home/u", "snap/foo/x1", "var/snap/foo/common"}
	for _, g := range grow {
		for k := r.Intn(3); k > 0; k-- {
			c := g + "/" + c28PickName(r)
			add(c)
			for k2 := r.Intn(3); k2 > 0; k2-- {
				add(c + "/" + c28PickName(r))
			}
		}
	}
	for d := range dirset {
		t.Dirs = append(t.Dirs, d)
	}
	sort.Strings(t.Dirs)
	for _, d := range t.Dirs {
		if err := os.MkdirAll(d, 0755); err != nil {
			return nil, err
		}
	}
	// files and symlinks
	for k := 2 + r.Intn(5); k > 0; k-- {
		d := t.Dirs[r.Intn(len(t.Dirs))]
		p := filepath.Join(d, "f"+c28PickName(r))
		if t.exists(p) {
			continue
		}
		if err := os.WriteFile(p, nil, 0644); err != nil {
			return nil, err
		}
		t.Files = append(t.Files, p)
	}
	for k := 1 + r.Intn(3); k > 0; k-- {
		d := t.Dirs[r.Intn(len(t.Dirs))]
		p := filepath.Join(d, "l"+c28PickName(r))
		if t.exists(p) {
			continue
		}
		tgt := t.Dirs[r.Intn(len(t.Dirs))]
		if err := os.Symlink(tgt, p); err != nil {
			return nil, err
		}
		t.Links[p] = tgt
	}
	// read-only regions
	t.RO = []string{filepath.Join(root, "usr"), filepath.Join(root, "snap")}
	if r.Intn(2) == 0 {
		t.RO = append(t.RO, filepath.Join(root, "opt"))
	}
	if r.Intn(2) == 0 {
		t.RO = append(t.RO, filepath.Join(root, "etc"))
	}
	if r.Intn(5) == 0 {
		t.RO = append(t.RO, filepath.Join(root, "var/lib"))
	}
	if r.Intn(12) == 0 {
		// everything read-only (core-like immutable root)
		t.RO = append(t.RO, root)
	}
	return t, nil
}

// ---------------------------------------------------------------------------
// desired profiles

type c28Gen struct {
	r    *rand.Rand
	t    *c28Tree
	nid  int
	used map[string]bool // Dirs of the profile under construction
}

func (g *c28Gen) snapSource() string {
	srcs := []string{"snap/foo/x1/data", "snap/foo/x1/meta", "snap/other/x2/content", "var/snap/foo/common", "snap/foo/x1"}
	s := filepath.Join(g.t.Root, srcs[g.r.Intn(len(srcs))])
	if g.r.Intn(4) == 0 {
		s = filepath.Join(s, c28PickName(g.r))
	}
	return s
}

// dirKind reports whether other entries may sensibly live beneath e.
func c28DirKind(e *osutil.MountEntry) bool {
	k := e.XSnapdKind()
	return k == "" || k == "ensure-dir"
}

func (g *c28Gen) randomDir() string {
	for {
		d := g.t.Dirs[g.r.Intn(len(g.t.Dirs))]
		if d != g.t.Root {
			return d
		}
	}
}

// pickTarget chooses a mount point: an existing directory, a missing path one
// or two components beneath an existing directory, or a path beneath another
// directory-kind entry of the profile being built.
func (g *c28Gen) pickTarget(prof []osutil.MountEntry, wantExistingFile bool) string {
	for try := 0; try < 50; try++ {
		var p string
		switch x := g.r.Intn(10); {
		case wantExistingFile && x < 4 && len(g.t.Files) > 0:
			p = g.t.Files[g.r.Intn(len(g.t.Files))]
		case x < 3 && !wantExistingFile:
			p = g.randomDir()
		case x < 7 || len(prof) == 0:
			p = filepath.Join(g.randomDir(), c28PickName(g.r))
			if g.r.Intn(3) == 0 {
				p = filepath.Join(p, c28PickName(g.r))
			}
		default:
			par := prof[g.r.Intn(len(prof))]
			if !c28DirKind(&par) {
				continue
			}
			p = filepath.Join(par.Dir, c28PickName(g.r))
			if g.r.Intn(4) == 0 {
				p = filepath.Join(p, c28PickName(g.r))
			}
		}
		if g.used[p] || p == g.t.Root {
			continue
		}
		return p
	}
	g.nid++
	return filepath.Join(g.t.Root, "var", fmt.Sprintf("uniq%d", g.nid))
}

// parentTarget proposes the parent directory of an existing entry (adding an
// entry *above* something already mounted).
func (g *c28Gen) parentTarget(prof []osutil.MountEntry) (string, bool) {
	if len(prof) == 0 {
		return "", false
	}
	e := prof[g.r.Intn(len(prof))]
	p := filepath.Dir(e.Dir)
	if len(p) <= len(g.t.Root) || g.used[p] {
		return "", false
	}
	return p, true
}

func (g *c28Gen) newEntry(prof []osutil.MountEntry) osutil.MountEntry {
	r := g.r
	origin := []string{"layout", "layout", "layout", "", "", "overname-like"}[r.Intn(6)]
	var e osutil.MountEntry
	kindRoll := r.Intn(20)
	target := ""
	if r.Intn(8) == 0 {
		if p, ok := g.parentTarget(prof); ok {
			target = p
			if kindRoll >= 12 {
				kindRoll = r.Intn(12) // directory kinds only above other entries
			}
		}
	}
	switch {
	case kindRoll < 5: // rbind dir
		if target == "" {
			target = g.pickTarget(prof, false)
		}
		e = osutil.MountEntry{Name: g.snapSource(), Dir: target, Type: "none", Options: []string{"rbind", "rw"}}
	case kindRoll < 9: // bind dir
		if target == "" {
			target = g.pickTarget(prof, false)
		}
		e = osutil.MountEntry{Name: g.snapSource(), Dir: target, Type: "none", Options: []string{"bind", []string{"ro", "rw"}[r.Intn(2)]}}
	case kindRoll < 12: // tmpfs
		if target == "" {
			target = g.pickTarget(prof, false)
		}
		e = osutil.MountEntry{Name: "tmpfs", Dir: target, Type: "tmpfs", Options: []string{"x-snapd.mode=0755"}}
	case kindRoll < 15: // symlink
		target = g.pickTarget(prof, false)
		for try := 0; try < 20 && g.t.exists(target); try++ {
			target = g.pickTarget(prof, false)
		}
		link := g.snapSource()
		if len(g.t.Links) > 0 && r.Intn(4) == 0 {
			// an existing symlink that already points where the entry says
			keys := make([]string, 0, len(g.t.Links))
			for k := range g.t.Links {
				keys = append(keys, k)
			}
			sort.Strings(keys)
			k := keys[r.Intn(len(keys))]
			if !g.used[k] {
				target, link = k, g.t.Links[k]
			}
		}
		e = osutil.MountEntry{Name: "none", Dir: target, Type: "none", Options: []string{"x-snapd.kind=symlink", "x-snapd.symlink=" + link}}
	case kindRoll < 18: // bind file
		target = g.pickTarget(prof, true)
		for try := 0; try < 20 && g.t.hasDir(target); try++ {
			target = g.pickTarget(prof, true)
		}
		e = osutil.MountEntry{Name: filepath.Join(g.snapSource(), "file"), Dir: target, Type: "none", Options: []string{"bind", "rw", "x-snapd.kind=file"}}
	default: // ensure-dir (never carries an origin in snapd)
		target = g.pickTarget(prof, false)
		must := filepath.Dir(target)
		for !g.t.hasDir(must) && len(must) > len(g.t.Root) {
			must = filepath.Dir(must)
		}
		e = osutil.MountEntry{Name: "none", Dir: target, Type: "none", Options: []string{"x-snapd.kind=ensure-dir", "x-snapd.must-exist-dir=" + must}}
		origin = ""
	}
	switch origin {
	case "layout":
		e.Options = append(e.Options, "x-snapd.origin=layout")
	case "overname-like":
		// overname entries are rbinds of instance directories; only directory
		// binds may carry the origin
		if e.XSnapdKind() == "" && e.Type == "none" {
			e.Options = append(e.Options, "x-snapd.origin=overname")
		}
	}
	if r.Intn(6) == 0 {
		g.nid++
		e.Options = append(e.Options, fmt.Sprintf("x-snapd.id=id-%d", g.nid))
	}
	return e
}

func (g *c28Gen) overnamePair() []osutil.MountEntry {
	root := g.t.Root
	return []osutil.MountEntry{
		{Name: filepath.Join(root, "snap/foo_inst"), Dir: filepath.Join(root, "snap/foo"), Type: "none", Options: []string{"rbind", "x-snapd.origin=overname"}},
		{Name: filepath.Join(root, "var/snap/foo_inst"), Dir: filepath.Join(root, "var/snap/foo"), Type: "none", Options: []string{"rbind", "x-snapd.origin=overname"}},
	}
}

func c28CopyEntry(e osutil.MountEntry) osutil.MountEntry {
	e.Options = append([]string(nil), e.Options...)
	return e
}

func (g *c28Gen) setUsed(prof []osutil.MountEntry) {
	g.used = map[string]bool{}
	for _, e := range prof {
		g.used[e.Dir] = true
	}
}

// add appends e unless its mount point is taken or it would put an entry
// beneath a file or symlink entry (only directory kinds contain other entries).
func (g *c28Gen) add(prof []osutil.MountEntry, e osutil.MountEntry) []osutil.MountEntry {
	if g.used[e.Dir] {
		return prof
	}
	for i := range prof {
		if !c28DirKind(&e) && strings.HasPrefix(prof[i].Dir, e.Dir+"/") {
			return prof
		}
		if !c28DirKind(&prof[i]) && strings.HasPrefix(e.Dir, prof[i].Dir+"/") {
			return prof
		}
	}
	g.used[e.Dir] = true
	return append(prof, e)
}

func (g *c28Gen) firstProfile() []osutil.MountEntry {
	var prof []osutil.MountEntry
	g.setUsed(nil)
	if g.r.Intn(3) == 0 {
		for _, e := range g.overnamePair() {
			prof = g.add(prof, e)
		}
	}
	for k := 1 + g.r.Intn(7); k > 0; k-- {
		prof = g.add(prof, g.newEntry(prof))
	}
	if g.r.Intn(5) < 2 {
		prof = g.families(prof)
	}
	g.r.Shuffle(len(prof), func(i, j int) { prof[i], prof[j] = prof[j], prof[i] })
	return prof
}

// nextProfile derives the next desired profile: most entries stay, some go,
// some change source or flags, new ones arrive (beside, beneath or above
// existing ones); now and then nothing changes or everything goes.
func (g *c28Gen) nextProfile(prev []osutil.MountEntry) (next []osutil.MountEntry, shape string) {
	r := g.r
	switch x := r.Intn(100); {
	case x < 10:
		for _, e := range prev {
			next = append(next, c28CopyEntry(e))
		}
		if r.Intn(2) == 0 {
			r.Shuffle(len(next), func(i, j int) { next[i], next[j] = next[j], next[i] })
		}
		return next, "same"
	case x < 15:
		return nil, "empty"
	case x < 35:
		if vi := g.victim(prev); vi >= 0 {
			return g.parentGoes(prev, vi)
		}
	}
	g.setUsed(nil)
	removed, modified, added := 0, 0, 0
	for _, e := range prev {
		switch y := r.Intn(100); {
		case y < 20:
			removed++
			continue
		case y < 35:
			m := g.modify(e)
			modified++
			next = g.add(next, m)
		default:
			next = g.add(next, c28CopyEntry(e))
		}
	}
	for k := r.Intn(4); k > 0; k-- {
		n := len(next)
		next = g.add(next, g.newEntry(next))
		added += len(next) - n
	}
	if r.Intn(8) == 0 {
		n := len(next)
		next = g.families(next)
		added += len(next) - n
	}
	if r.Intn(2) == 0 {
		r.Shuffle(len(next), func(i, j int) { next[i], next[j] = next[j], next[i] })
	}
	return next, fmt.Sprintf("-%d~%d+%d", removed, modified, added)
}

// modify returns a changed copy of e: another source, ro/rw flipped, another
// symlink target or another mode. The mount point stays.
func (g *c28Gen) modify(e osutil.MountEntry) osutil.MountEntry {
	r := g.r
	m := c28CopyEntry(e)
	switch {
	case m.XSnapdKind() == "symlink":
		for i, o := range m.Options {
			if strings.HasPrefix(o, "x-snapd.symlink=") {
				m.Options[i] = "x-snapd.symlink=" + g.snapSource() + "/v2"
			}
		}
	case m.XSnapdKind() == "ensure-dir" || m.Type == "tmpfs":
		m.Options = append(m.Options, "x-snapd.mode=0700")
	case r.Intn(2) == 0:
		m.Name = m.Name + ".v2"
	default:
		flipped := false
		for i, o := range m.Options {
			if o == "rw" {
				m.Options[i], flipped = "ro", true
			} else if o == "ro" {
				m.Options[i], flipped = "rw", true
			}
		}
		if !flipped {
			m.Name = m.Name + ".v2"
		}
	}
	return m
}

// ---------------------------------------------------------------------------
// directed classes: nesting across origins, shared mimics, bystanders

func (g *c28Gen) withOrigin(e osutil.MountEntry, origin string) osutil.MountEntry {
	switch origin {
	case "layout":
		e.Options = append(e.Options, "x-snapd.origin=layout")
	case "overname":
		if e.XSnapdKind() == "" && e.Type == "none" {
			e.Options = append(e.Options, "x-snapd.origin=overname")
		}
	}
	if g.r.Intn(6) == 0 {
		g.nid++
		e.Options = append(e.Options, fmt.Sprintf("x-snapd.id=id-%d", g.nid))
	}
	return e
}

// dirEntry: an entry other entries can live beneath (rbind, bind or tmpfs).
func (g *c28Gen) dirEntry(target, origin string) osutil.MountEntry {
	r := g.r
	var e osutil.MountEntry
	switch x := r.Intn(10); {
	case x < 4 || origin == "overname" && x < 7:
		e = osutil.MountEntry{Name: g.snapSource(), Dir: target, Type: "none", Options: []string{"rbind", "rw"}}
	case x < 7 || origin == "overname":
		e = osutil.MountEntry{Name: g.snapSource(), Dir: target, Type: "none", Options: []string{"bind", []string{"ro", "rw"}[r.Intn(2)]}}
	default:
		e = osutil.MountEntry{Name: "tmpfs", Dir: target, Type: "tmpfs", Options: []string{"x-snapd.mode=0755"}}
	}
	return g.withOrigin(e, origin)
}

// leafEntry: any kind on a target that does not exist yet (directory kinds,
// symlink, file).
func (g *c28Gen) leafEntry(target, origin string) osutil.MountEntry {
	switch x := g.r.Intn(10); {
	case x < 7 || g.t.exists(target):
		return g.dirEntry(target, origin)
	case x < 9:
		return g.withOrigin(osutil.MountEntry{Name: "none", Dir: target, Type: "none",
			Options: []string{"x-snapd.kind=symlink", "x-snapd.symlink=" + g.snapSource()}}, origin)
	default:
		return g.withOrigin(osutil.MountEntry{Name: filepath.Join(g.snapSource(), "file"), Dir: target, Type: "none",
			Options: []string{"bind", "rw", "x-snapd.kind=file"}}, origin)
	}
}

var c28FamilyOrigins = []string{"layout", "", "layout", "", "layout", "", "overname"}

// otherOrigin picks an origin different from o (layout and content mostly).
func (g *c28Gen) otherOrigin(o string) string {
	for {
		if c := c28FamilyOrigins[g.r.Intn(len(c28FamilyOrigins))]; c != o {
			return c
		}
	}
}

// nestFamily adds a directory-kind parent of one origin and one to three
// entries beneath it (one or two components down, now and then a grandchild)
// whose origin differs from the parent's three times out of four: layout
// beneath content, content beneath layout, either beneath or above overname.
func (g *c28Gen) nestFamily(prof []osutil.MountEntry) []osutil.MountEntry {
	r := g.r
	po := c28FamilyOrigins[r.Intn(len(c28FamilyOrigins))]
	target := g.pickTarget(prof, false)
	n := len(prof)
	prof = g.add(prof, g.dirEntry(target, po))
	if len(prof) == n {
		return prof
	}
	for k := 1 + r.Intn(3); k > 0; k-- {
		co := po
		if r.Intn(4) != 0 {
			co = g.otherOrigin(po)
		}
		sub := filepath.Join(target, c28PickName(r))
		if r.Intn(4) == 0 {
			sub = filepath.Join(sub, c28PickName(r))
		}
		n = len(prof)
		child := g.leafEntry(sub, co)
		prof = g.add(prof, child)
		if len(prof) > n && c28DirKind(&child) && child.XSnapdKind() == "" && r.Intn(4) == 0 {
			prof = g.add(prof, g.leafEntry(filepath.Join(sub, c28PickName(r)), g.otherOrigin(co)))
		}
	}
	return prof
}

func (g *c28Gen) readOnlyDirs() []string {
	var out []string
	for _, d := range g.t.Dirs {
		if d == g.t.Root {
			continue
		}
		for _, ro := range g.t.RO {
			if d == ro || strings.HasPrefix(d, ro+"/") {
				out = append(out, d)
				break
			}
		}
	}
	return out
}

// mimicFamily adds two or three entries on missing names directly inside one
// existing directory of a read-only region: the first one that gets mounted
// has the writable mimic made for it (tmpfs + binds, needed-by that entry),
// the others are mounted inside that mimic. Origins: mostly layout, mixed
// with content and, rarely, overname.
func (g *c28Gen) mimicFamily(prof []osutil.MountEntry) []osutil.MountEntry {
	r := g.r
	ro := g.readOnlyDirs()
	if len(ro) == 0 {
		return prof
	}
	base := ro[r.Intn(len(ro))]
	want := 2 + r.Intn(2)
	for try := 0; try < 12 && want > 0; try++ {
		p := filepath.Join(base, c28PickName(r))
		if g.t.exists(p) || g.used[p] {
			continue
		}
		o := "layout"
		switch x := r.Intn(10); {
		case x < 3:
			o = ""
		case x < 4:
			o = "overname"
		}
		n := len(prof)
		prof = g.add(prof, g.leafEntry(p, o))
		if len(prof) > n {
			want--
		}
	}
	return prof
}

// bystanders adds up to three unrelated entries, of any origin, on paths that
// sort before (etc, home, opt) or after (var/...) most of the tree.
func (g *c28Gen) bystanders(prof []osutil.MountEntry) []osutil.MountEntry {
	r := g.r
	early := []string{"etc", "home/u", "opt"}
	late := []string{"var/lib", "var/snap/foo/common", "var"}
	for k := 1 + r.Intn(3); k > 0; k-- {
		where := early
		if r.Intn(2) == 0 {
			where = late
		}
		p := filepath.Join(g.t.Root, where[r.Intn(len(where))], c28PickName(r))
		o := c28FamilyOrigins[r.Intn(len(c28FamilyOrigins))]
		if g.used[p] {
			continue
		}
		if g.t.hasDir(p) || !g.t.exists(p) {
			prof = g.add(prof, g.leafEntry(p, o))
		}
	}
	return prof
}

// families adds the directed classes to a profile under construction.
func (g *c28Gen) families(prof []osutil.MountEntry) []osutil.MountEntry {
	switch g.r.Intn(4) {
	case 0:
		prof = g.nestFamily(prof)
	case 1:
		prof = g.mimicFamily(prof)
	default:
		prof = g.nestFamily(prof)
		prof = g.mimicFamily(prof)
	}
	if g.r.Intn(3) != 0 {
		prof = g.bystanders(prof)
	}
	return prof
}

// victim picks an entry of prev whose change leaves something else standing
// on it: an entry with another entry beneath it, or one of several entries on
// missing names inside the same directory (the one the shared mimic was made
// for may be among them). Returns -1 when there is none.
func (g *c28Gen) victim(prev []osutil.MountEntry) int {
	var cand []int
	for i := range prev {
		ok := false
		for j := range prev {
			if j == i {
				continue
			}
			if strings.HasPrefix(prev[j].Dir, prev[i].Dir+"/") {
				ok = true
			} else if filepath.Dir(prev[j].Dir) == filepath.Dir(prev[i].Dir) && !g.t.exists(prev[i].Dir) && !g.t.exists(prev[j].Dir) {
				ok = true
			}
		}
		if ok {
			cand = append(cand, i)
		}
	}
	if len(cand) == 0 {
		return -1
	}
	return cand[g.r.Intn(len(cand))]
}

// parentGoes derives the next profile around one victim: it is removed (60%)
// or modified, everything beneath it and beside it in the same directory
// stays textually unchanged, the unrelated entries mostly stay (7% removed,
// 8% modified), 0-1 new entries.
func (g *c28Gen) parentGoes(prev []osutil.MountEntry, vi int) (next []osutil.MountEntry, shape string) {
	r := g.r
	g.setUsed(nil)
	v := prev[vi]
	what := "removed"
	for i, e := range prev {
		switch {
		case i == vi:
			if r.Intn(10) < 6 {
				continue
			}
			what = "modified"
			next = g.add(next, g.modify(e))
		case strings.HasPrefix(e.Dir, v.Dir+"/") || filepath.Dir(e.Dir) == filepath.Dir(v.Dir):
			next = g.add(next, c28CopyEntry(e))
		default:
			switch y := r.Intn(100); {
			case y < 7:
			case y < 15:
				next = g.add(next, g.modify(e))
			default:
				next = g.add(next, c28CopyEntry(e))
			}
		}
	}
	if r.Intn(2) == 0 {
		next = g.add(next, g.newEntry(next))
	}
	if r.Intn(2) == 0 {
		r.Shuffle(len(next), func(i, j int) { next[i], next[j] = next[j], next[i] })
	}
	return next, "parent-" + what + "-rest-stays"
}

// ---------------------------------------------------------------------------
// codec: hostile entries

var c28Atoms = []string{
	" ", " ", "\t", "\n", "\\", "\\", "#", ",", "0", "1", "3", "4", "2", "\\040", "\\011", "\\012", "\\134", "\\04", "\\13",
	"\r", "\v", "\f", "\x00", "\x85", "\xa0", "\xc2\x85", "\xc2\xa0", "\xe2\x80\x83", "\xe2\x80\xa8", "\xe3\x80\x80", "\xff", "\xc3",
	"a", "b", "/", "=", "-", ".", "none", "defaults", "é", "☃", "x-snapd.", "\"", "'", "%", "%s", "\x7f", "\x1b",
}

// c28HostileString: 1..maxAtoms atoms; never empty, never starting with '#';
// noComma for option elements.
func c28HostileString(r *rand.Rand, maxAtoms int, noComma bool) string {
	for {
		var b strings.Builder
		for k := 1 + r.Intn(maxAtoms); k > 0; k-- {
			if r.Intn(6) == 0 {
				b.WriteByte(byte(r.Intn(256)))
			} else {
				b.WriteString(c28Atoms[r.Intn(len(c28Atoms))])
			}
		}
		s := b.String()
		if noComma {
			s = strings.ReplaceAll(s, ",", ";")
		}
		if s == "" || s[0] == '#' {
			continue
		}
		return s
	}
}

func c28HostileEntry(r *rand.Rand) osutil.MountEntry {
	e := osutil.MountEntry{
		Name: c28HostileString(r, 6, false),
		Dir:  c28HostileString(r, 6, false),
		Type: c28HostileString(r, 3, false),
	}
	for k := 1 + r.Intn(4); k > 0; k-- {
		e.Options = append(e.Options, c28HostileString(r, 4, true))
	}
	if r.Intn(4) == 0 {
		e.DumpFrequency = r.Intn(1000) - 100
		e.CheckPassNumber = r.Intn(1000) - 100
	}
	return e
}

// c28ByteClass maps a string to a structural class pattern (runs collapsed).
func c28ByteClass(s string) string {
	var b strings.Builder
	last := byte(0)
	for i := 0; i < len(s); i++ {
		var c byte
		switch ch := s[i]; {
		case ch == ' ':
			c = 's'
		case ch == '\t':
			c = 't'
		case ch == '\n':
			c = 'n'
		case ch == '\\':
			c = 'b'
		case ch == '#':
			c = '#'
		case ch == ',':
			c = ','
		case ch == '\r' || ch == '\v' || ch == '\f':
			c = 'w'
		case ch >= '0' && ch <= '9':
			c = 'd'
		case ch < 0x20 || ch == 0x7f:
			c = 'c'
		case ch >= 0x80:
			c = 'h'
		default:
			c = 'a'
		}
		if c != last {
			b.WriteByte(c)
			last = c
		}
	}
	return b.String()
}
