// C28 simulator: the harness-owned side of the two seams of the update:
// MountProfileUpdateContext (profiles kept as fstab text in memory, written
// and read with the real codec) and changePerform (the seam the package's own
// tests use), which here records every change and imitates what the real
// Change.Perform reports back: success, an error (the "could not perform,
// skip" path of non-layout entries) or the synthetic changes of a writable
// mimic. The mimic changes themselves come from the REAL createWritableMimic
// (planWritableMimic reads the real temporary tree; execWritableMimic performs
// its plan through this same seam, re-entrantly, where it is a no-op).
package main

import (
	"errors"
	"fmt"
	"hash/fnv"
	"os"
	"path/filepath"
	"sort"
	"strings"

	"github.com/snapcore/snapd/osutil"
)

// ---------------------------------------------------------------------------
// update context

type c28Ctx struct {
	desiredText string
	currentText string

	locks, unlocks int
	savedCalls     int
	saved          []osutil.MountEntry // entries handed to SaveCurrentProfile (deep copy)
	savedText      string
	loadedDesired  []osutil.MountEntry
	loadedCurrent  []osutil.MountEntry
	as             *Assumptions
}

func (x *c28Ctx) Lock() (func(), error) {
	x.locks++
	return func() { x.unlocks++ }, nil
}

func (x *c28Ctx) Assumptions() *Assumptions {
	x.as = &Assumptions{}
	return x.as
}

func c28CopyEntries(in []osutil.MountEntry) []osutil.MountEntry {
	out := make([]osutil.MountEntry, len(in))
	for i := range in {
		out[i] = c28CopyEntry(in[i])
	}
	return out
}

func (x *c28Ctx) LoadDesiredProfile() (*osutil.MountProfile, error) {
	p, err := osutil.LoadMountProfileText(x.desiredText)
	if err == nil {
		x.loadedDesired = c28CopyEntries(p.Entries)
	}
	return p, err
}

func (x *c28Ctx) LoadCurrentProfile() (*osutil.MountProfile, error) {
	p, err := osutil.LoadMountProfileText(x.currentText)
	if err == nil {
		x.loadedCurrent = c28CopyEntries(p.Entries)
	}
	return p, err
}

func (x *c28Ctx) SaveCurrentProfile(p *osutil.MountProfile) error {
	x.savedCalls++
	x.saved = c28CopyEntries(p.Entries)
	text, err := osutil.SaveMountProfileText(p)
	if err != nil {
		return err
	}
	x.savedText = text
	return nil
}

// ---------------------------------------------------------------------------
// changePerform simulator

type c28Rec struct {
	Action Action
	Entry  osutil.MountEntry
	Synth  []osutil.MountEntry // synthetic changes returned (Mount only)
	Err    string
	Seq    int // mount sequence number of the entry being unmounted (0 = unknown)

	TargetExisted bool // Mount: the mount point was there before the change

	// Unmount with MNT_DETACH: the entries that were mounted beneath this one
	// after it and left the mount table together with it.
	Vanished []string
	// Unmount of an entry that had already left the table with a detached
	// entry above it (EINVAL, cleared by the real code).
	AlreadyGone bool
}

// c28Live is one row of the simulated mount table.
type c28Live struct {
	key    string
	dir    string
	seq    int
	origin string
	str    string
}

// c28Gone remembers an entry that left the mount table because an entry above
// it was detached during the current update.
type c28Gone struct {
	row          c28Live
	parent       string // the detached entry
	parentOrigin string
	parentDir    string
}

type c28Sim struct {
	tree    *c28Tree
	ro      map[string]bool
	tmpfs   map[string]int  // live tmpfs mounts per directory (writable)
	created map[string]bool // paths created by the simulator (mount points and their parents)

	depth       int
	nestedCalls int
	recs        []c28Rec
	live        []c28Live // the simulated mount table, in mount order
	seq         int
	gone        map[string][]c28Gone // per update: key -> how it left the table without an Unmount of its own

	failRate float64
	caseKey  string
	update   int

	// counters
	mimics, failuresInjected, failuresAfterMimic, roRefusals, typeMismatch int
	unknownUnmounts, symlinkGoneWithParent                                 int
	detachedWithParent, unmountsOfGone                                     int
}

func c28NewSim(t *c28Tree, caseKey string, failRate float64) *c28Sim {
	s := &c28Sim{tree: t, ro: map[string]bool{}, tmpfs: map[string]int{}, created: map[string]bool{},
		failRate: failRate, caseKey: caseKey}
	for _, d := range t.RO {
		s.ro[d] = true
	}
	return s
}

func c28HashFloat(parts ...string) float64 {
	h := fnv.New64a()
	for _, p := range parts {
		h.Write([]byte(p))
		h.Write([]byte{0})
	}
	return float64(h.Sum64()>>11) / float64(1<<53)
}

// c28Key identifies a mount independently of how the profile codec spells
// empty fields ("" is written as "none") and of the x-snapd.detach marker the
// planner adds to unmount changes.
func c28Key(e *osutil.MountEntry) string {
	c := *e
	c.Dir = filepath.Clean(c.Dir)
	if c.Name == "" {
		c.Name = "none"
	}
	if c.Type == "" {
		c.Type = "none"
	}
	opts := make([]string, 0, len(c.Options))
	for _, o := range c.Options {
		if o != "x-snapd.detach" {
			opts = append(opts, o)
		}
	}
	c.Options = opts
	return c.String()
}

func (s *c28Sim) writable(dir string) bool {
	if s.tmpfs[dir] > 0 || s.created[dir] {
		return true
	}
	for p := dir; ; p = filepath.Dir(p) {
		if s.ro[p] {
			return false
		}
		if p == s.tree.Root || p == "/" || p == "." {
			return true
		}
	}
}

func (s *c28Sim) addLive(e *osutil.MountEntry) {
	s.seq++
	s.live = append(s.live, c28Live{key: c28Key(e), dir: filepath.Clean(e.Dir), seq: s.seq, origin: c28Origin(e), str: e.String()})
}

// startUpdate resets what is recorded per update.
func (s *c28Sim) startUpdate(ui int) {
	s.update = ui
	s.recs = nil
	s.gone = map[string][]c28Gone{}
}

// restore puts rows that left the table with a detached entry back where they
// were (the monitor goes on as if the record were true).
func (s *c28Sim) restore(rows []c28Live) {
	s.live = append(s.live, rows...)
	sort.SliceStable(s.live, func(i, j int) bool { return s.live[i].seq < s.live[j].seq })
}

// table returns the simulated mount table as a multiset of entry keys.
func (s *c28Sim) table() map[string]int {
	t := make(map[string]int, len(s.live))
	for i := range s.live {
		t[s.live[i].key]++
	}
	return t
}

func (s *c28Sim) perform(c *Change, as *Assumptions) ([]*Change, error) {
	if s.depth > 0 {
		// a step of a mimic plan executed by the real execWritableMimic
		s.nestedCalls++
		return nil, nil
	}
	rec := c28Rec{Action: c.Action, Entry: c28CopyEntry(c.Entry)}
	var synth []*Change
	var err error
	switch c.Action {
	case Keep:
	case Unmount:
		s.unmount(&rec)
	case Mount:
		_, lerr := os.Lstat(c.Entry.Dir)
		rec.TargetExisted = lerr == nil
		synth, err = s.mount(c, as)
		for _, sc := range synth {
			rec.Synth = append(rec.Synth, c28CopyEntry(sc.Entry))
			if sc.Action == Mount {
				s.addLive(&sc.Entry)
			}
		}
		if err == nil {
			s.addLive(&c.Entry)
		}
	default:
		err = fmt.Errorf("c28: unknown action %q", c.Action)
	}
	if err != nil {
		rec.Err = err.Error()
	}
	s.recs = append(s.recs, rec)
	return synth, err
}

func (s *c28Sim) firstExisting(p string) string {
	for {
		p = filepath.Dir(p)
		if _, err := os.Lstat(p); err == nil {
			return p
		}
		if p == "/" || p == "." {
			return p
		}
	}
}

func (s *c28Sim) mount(c *Change, as *Assumptions) ([]*Change, error) {
	e := &c.Entry
	target := e.Dir
	kind := e.XSnapdKind()
	origin := e.XSnapdOrigin()
	failMode := 0
	if origin != "layout" && origin != "overname" && s.failRate > 0 {
		// keyed by the path inside the tree: the scratch location must not matter
		if c28HashFloat(s.caseKey, fmt.Sprint(s.update), s.tree.rel(target), "fail") < s.failRate {
			failMode = 1
			if c28HashFloat(s.caseKey, fmt.Sprint(s.update), s.tree.rel(target), "mode") < 0.5 {
				failMode = 2
			}
		}
	}
	if failMode == 1 {
		s.failuresInjected++
		return nil, errors.New("c28: injected failure (nothing done)")
	}
	var synth []*Change
	fi, err := os.Lstat(target)
	switch {
	case err == nil:
		// same checks as ensureTarget
		switch kind {
		case "", "ensure-dir":
			if !fi.Mode().IsDir() {
				s.typeMismatch++
				return nil, fmt.Errorf("cannot use %q as mount point: not a directory", target)
			}
		case "file":
			if !fi.Mode().IsRegular() {
				s.typeMismatch++
				return nil, fmt.Errorf("cannot use %q as mount point: not a regular file", target)
			}
		case "symlink":
			if fi.Mode()&os.ModeSymlink == 0 {
				s.typeMismatch++
				return nil, fmt.Errorf("cannot create symlink in %q: existing file in the way", target)
			}
			if cur, _ := os.Readlink(target); cur != e.XSnapdSymlink() {
				s.typeMismatch++
				return nil, fmt.Errorf("cannot create symbolic link %q: existing symbolic link in the way", target)
			}
		}
	case os.IsNotExist(err):
		anc := s.firstExisting(target)
		if afi, aerr := os.Lstat(anc); aerr != nil || !afi.IsDir() {
			s.typeMismatch++
			return nil, fmt.Errorf("cannot create %q: %q is not a directory", target, anc)
		}
		if !s.writable(anc) {
			if kind == "ensure-dir" {
				// pokeHoles is false for ensure-dir
				s.roRefusals++
				return nil, fmt.Errorf("cannot operate on read-only filesystem at %s", anc)
			}
			s.depth++
			var merr error
			synth, merr = createWritableMimic(anc, e.XSnapdEntryID(), as)
			s.depth--
			if merr != nil {
				return nil, fmt.Errorf("cannot create writable mimic over %q: %s", anc, merr)
			}
			s.mimics++
			s.tmpfs[anc]++
		}
		if failMode == 2 {
			s.failuresInjected++
			if len(synth) > 0 {
				s.failuresAfterMimic++
			}
			return synth, errors.New("c28: injected failure (after preparing the target's parent)")
		}
		// create the missing components
		var missing []string
		for p := filepath.Dir(target); p != anc; p = filepath.Dir(p) {
			missing = append(missing, p)
		}
		for i := len(missing) - 1; i >= 0; i-- {
			if err := os.Mkdir(missing[i], 0755); err != nil {
				return synth, err
			}
			s.created[missing[i]] = true
		}
		switch kind {
		case "", "ensure-dir":
			err = os.Mkdir(target, 0755)
		case "file":
			err = os.WriteFile(target, nil, 0644)
		case "symlink":
			err = os.Symlink(e.XSnapdSymlink(), target)
		}
		if err != nil {
			return synth, err
		}
		s.created[target] = true
	default:
		return nil, fmt.Errorf("cannot inspect %q: %v", target, err)
	}
	if failMode == 2 {
		s.failuresInjected++
		return synth, errors.New("c28: injected failure (target present)")
	}
	if e.Type == "tmpfs" {
		s.tmpfs[target]++
	}
	return synth, nil
}

// removeCreatedBeneath forgets (and deletes) what the simulator created
// beneath dir: it lived in a tmpfs that is now gone.
func (s *c28Sim) removeCreatedBeneath(dir string) {
	var sub []string
	for p := range s.created {
		if strings.HasPrefix(p, dir+"/") {
			sub = append(sub, p)
		}
	}
	sort.Sort(sort.Reverse(sort.StringSlice(sub)))
	for _, p := range sub {
		if os.Remove(p) == nil {
			delete(s.created, p)
		}
	}
}

func (s *c28Sim) unmount(rec *c28Rec) {
	e := &rec.Entry
	key := c28Key(e)
	found := -1
	for i := len(s.live) - 1; i >= 0; i-- {
		if s.live[i].key == key {
			found = i
			break
		}
	}
	dir := filepath.Clean(e.Dir)
	if found >= 0 {
		pseq := s.live[found].seq
		rec.Seq = pseq
		s.live = append(s.live[:found], s.live[found+1:]...)
		if e.XSnapdDetach() {
			// MNT_DETACH takes the whole subtree of mounts that sit on top of
			// this one: everything mounted later on its directory or at a path
			// beneath it. What was mounted there earlier lies underneath and
			// stays. (The change is taken to reach the entry it names.)
			keep := s.live[:0]
			for _, l := range s.live {
				if l.seq > pseq && (l.dir == dir || c28Beneath(l.dir, dir)) {
					s.gone[l.key] = append(s.gone[l.key], c28Gone{row: l, parent: e.String(), parentOrigin: c28Origin(e), parentDir: dir})
					rec.Vanished = append(rec.Vanished, l.str)
					s.detachedWithParent++
					continue
				}
				keep = append(keep, l)
			}
			s.live = keep
		}
	} else if g := s.gone[key]; len(g) > 0 {
		// left the table together with a detached entry above it: the real
		// unmount gets EINVAL, which is cleared
		rec.Seq = g[len(g)-1].row.seq
		rec.AlreadyGone = true
		s.unmountsOfGone++
	} else {
		s.unknownUnmounts++
	}
	if e.Type == "tmpfs" {
		if s.tmpfs[dir] > 0 {
			s.tmpfs[dir]--
		}
		if s.tmpfs[dir] == 0 {
			s.removeCreatedBeneath(dir)
		}
	}
	switch e.XSnapdKind() {
	case "ensure-dir":
		// directories made for ensure-dir are never removed
	case "symlink":
		if s.created[dir] {
			if err := os.Remove(dir); err == nil {
				delete(s.created, dir)
			}
		} else if _, err := os.Lstat(dir); err != nil {
			// the real code would fail here (ENOENT from osRemove); the
			// simulator lets the history continue and counts it
			s.symlinkGoneWithParent++
		}
	default:
		// remove the placeholder when we made it and it is empty
		if s.created[dir] {
			if err := os.Remove(dir); err == nil {
				delete(s.created, dir)
			}
		}
	}
}
