// C16 — independent calendar arithmetic (reference side of the differential
// monitors). Nothing in this file calls into snapd's schedule code; the only
// snapd identifiers used are the plain data types Week/WeekSpan/ClockSpan/Clock.
// Dates are handled as civil (year, month, day) triples and serial day numbers,
// never through time.Time arithmetic, so that a bug in snapd's 24h-stepping
// helpers cannot be shared by the reference.
package timeutil

// civilToSerial returns the number of days since 1970-01-01 of the proleptic
// Gregorian date y-m-d (algorithm: H. Hinnant, days_from_civil).
func civilToSerial(y, m, d int) int {
	if m <= 2 {
		y--
	}
	var era int
	if y >= 0 {
		era = y / 400
	} else {
		era = (y - 399) / 400
	}
	yoe := y - era*400
	mp := (m + 9) % 12
	doy := (153*mp+2)/5 + d - 1
	doe := yoe*365 + yoe/4 - yoe/100 + doy
	return era*146097 + doe - 719468
}

// serialToCivil is the inverse of civilToSerial.
func serialToCivil(z int) (y, m, d int) {
	z += 719468
	var era int
	if z >= 0 {
		era = z / 146097
	} else {
		era = (z - 146096) / 146097
	}
	doe := z - era*146097
	yoe := (doe - doe/1460 + doe/36524 - doe/146096) / 365
	y = yoe + era*400
	doy := doe - (365*yoe + yoe/4 - yoe/100)
	mp := (5*doy + 2) / 153
	d = doy - (153*mp+2)/5 + 1
	if mp < 10 {
		m = mp + 3
	} else {
		m = mp - 9
	}
	if m <= 2 {
		y++
	}
	return y, m, d
}

// refWeekday: 0 = Sunday ... 6 = Saturday (1970-01-01 was a Thursday).
func refWeekday(serial int) int {
	return ((serial+4)%7 + 7) % 7
}

func refLeap(y int) bool { return y%4 == 0 && (y%100 != 0 || y%400 == 0) }

func refDaysInMonth(y, m int) int {
	switch m {
	case 2:
		if refLeap(y) {
			return 29
		}
		return 28
	case 4, 6, 9, 11:
		return 30
	}
	return 31
}

// refNth returns the serial of the pos-th (1..4) or last (5) weekday wd of
// month y-m.
func refNth(y, m, wd int, pos uint) int {
	first := 1 + ((wd-refWeekday(civilToSerial(y, m, 1)))%7+7)%7
	day := first
	if pos >= 5 {
		for day+7 <= refDaysInMonth(y, m) {
			day += 7
		}
	} else {
		day = first + 7*(int(pos)-1)
	}
	return civilToSerial(y, m, day)
}

// refMatch decides whether the civil day y-m-d belongs to the week span, from
// the documented meaning: plain weekday ranges (possibly wrapping the week), the
// n-th / last weekday of a month, and spans anchored at a numbered start
// ("mon1-fri": first Monday and the days up to the following Friday) or at a
// numbered end ("mon-fri1": first Friday and the days back to the preceding
// Monday), either of which may spill over a month boundary.
func refMatch(ws WeekSpan, y, m, d int) bool {
	s := civilToSerial(y, m, d)
	wd := refWeekday(s)
	sw, ew := int(ws.Start.Weekday), int(ws.End.Weekday)
	length := ((ew-sw)%7 + 7) % 7
	if ws.Start.Pos == 0 && ws.End.Pos == 0 {
		return ((wd-sw)%7+7)%7 <= length
	}
	if length == 0 && ws.Start != ws.End {
		// mon1-mon: eight days, from the anchor to the same weekday a week away
		length = 7
	}
	if ws.Start.Pos != 0 {
		// anchored at the start: anchor in this month or in the previous one
		py, pm := y, m-1
		if pm == 0 {
			py, pm = y-1, 12
		}
		for _, ym := range [][2]int{{y, m}, {py, pm}} {
			a := refNth(ym[0], ym[1], sw, ws.Start.Pos)
			if a <= s && s <= a+length {
				return true
			}
		}
		return false
	}
	// anchored at the end: anchor in this month or in the next one
	ny, nm := y, m+1
	if nm == 13 {
		ny, nm = y+1, 1
	}
	for _, ym := range [][2]int{{y, m}, {ny, nm}} {
		b := refNth(ym[0], ym[1], ew, ws.End.Pos)
		if b-length <= s && s <= b {
			return true
		}
	}
	return false
}

// refSpanMinutes returns start offset (minutes from the anchor day's midnight)
// and length in minutes of the clock span, end running into the next day when it
// is before the start.
func refSpanMinutes(cs ClockSpan) (start, length int) {
	s := cs.Start.Hour*60 + cs.Start.Minute
	e := cs.End.Hour*60 + cs.End.Minute
	if e >= s {
		return s, e - s
	}
	return s, e - s + 1440
}
