// C16 — auto-refresh runs inside timer windows and is never postponed past the
// limit; timers round-trip through String(); invalid timers are rejected.
//
// The harness is compiled into package timeutil so that it can pin the
// package's clock (timeNow). It drives the real ParseSchedule / Schedule.Next /
// Next / String with grammar-generated timers and hostile (last, now,
// maxDuration) triples. Oracles:
//
//   - window clauses: x = now + Next(...) must lie in a window of the timer that
//     starts no later than limit = last + maxDuration, or be exactly the limit,
//     or be "now" when the limit has passed. The window set is built from the
//     schedule primitives (WeekSpan.Match, flattenedClockSpans, ClockSpan.Window)
//     over the days around x -- never from Schedule.Next or Includes();
//   - the primitives themselves are checked differentially against independent
//     calendar arithmetic (c16_ref_test.go): the day matcher on every day it is
//     used on plus an exhaustive sweep of every parseable week span over whole
//     years, and the "/N" sub-spans against an equal partition of the parent
//     span anchored on the same day;
//   - parse -> String -> parse equality on schedules normalised for zero-length
//     spans; a generator of unambiguously invalid timers that must be rejected.
package timeutil

import (
	"fmt"
	"reflect"
	"sort"
	"strings"
	"testing"
	"time"

	kit "verifkit"
)

type c16Mon struct {
	c        *kit.Check
	loc      *time.Location
	matchMem map[[2]int]bool
	scheds   []*Schedule
	classes  map[string]struct{}
}

func c16Serial(t time.Time) int {
	y, m, d := t.Date()
	return civilToSerial(y, int(m), d)
}

func c16Midnight(serial int, loc *time.Location) time.Time {
	y, m, d := serialToCivil(serial)
	return time.Date(y, time.Month(m), d, 0, 0, 0, 0, loc)
}

func c16SpanClass(ws WeekSpan) string {
	kind := "nth"
	if ws.Start.Pos == 5 || ws.End.Pos == 5 {
		kind = "last"
	}
	switch {
	case ws.Start.Pos == 0 && ws.End.Pos == 0:
		return "plain"
	case ws.Start == ws.End:
		return "single-" + kind
	case ws.Start.Pos != 0:
		return "start-anchored-" + kind
	}
	return "end-anchored-" + kind
}

// spanMatch is the one place where WeekSpan.Match is consulted; every call is
// also a differential test against the independent matcher.
func (mo *c16Mon) spanMatch(ws WeekSpan, serial int, loc *time.Location, h, mi int) bool {
	y, m, d := serialToCivil(serial)
	got := ws.Match(time.Date(y, time.Month(m), d, h, mi, 0, 0, loc))
	want := refMatch(ws, y, m, d)
	mo.c.Count("weekmatch_differential_calls", 1)
	if got != want {
		mo.c.Violation("C16:weekspan-match:"+c16SpanClass(ws), map[string]interface{}{
			"weekspan": ws.String(), "day": fmt.Sprintf("%04d-%02d-%02d", y, m, d), "zone": loc.String(),
			"WeekSpan.Match": got, "calendar_reference": want,
		})
	}
	return got
}

// dayMatches: does schedule si have windows anchored on the given day?
func (mo *c16Mon) dayMatches(si, serial int) bool {
	s := mo.scheds[si]
	if len(s.WeekSpans) == 0 {
		return true
	}
	k := [2]int{si, serial}
	if v, ok := mo.matchMem[k]; ok {
		return v
	}
	res := false
	for _, ws := range s.WeekSpans {
		if mo.spanMatch(ws, serial, mo.loc, 12, 0) {
			res = true
		}
	}
	mo.matchMem[k] = res
	return res
}

// primWindows calls f for every window of the timer anchored on the given day,
// built from the schedule primitives.
func (mo *c16Mon) primWindows(serial int, f func(w ScheduleWindow)) {
	noon := c16Midnight(serial, mo.loc).Add(12 * time.Hour)
	for si, s := range mo.scheds {
		if !mo.dayMatches(si, serial) {
			continue
		}
		for _, cs := range s.flattenedClockSpans() {
			f(cs.Window(noon))
		}
	}
}

func c16In(w ScheduleWindow, t time.Time) bool { return !t.Before(w.Start) && !t.After(w.End) }

// inSpan: is x inside an (unsplit) clock span of the timer anchored on a
// matching day, computed without ClockSpan.Window / ClockSpans.
func (mo *c16Mon) inSpan(x time.Time) bool {
	dx := c16Serial(x)
	for off := -2; off <= 1; off++ {
		mid := c16Midnight(dx+off, mo.loc)
		for si, s := range mo.scheds {
			if !mo.dayMatches(si, dx+off) {
				continue
			}
			spans := s.ClockSpans
			if len(spans) == 0 {
				spans = []ClockSpan{{}}
			}
			for _, cs := range spans {
				st, ln := refSpanMinutes(cs)
				a := mid.Add(time.Duration(st) * time.Minute)
				b := a.Add(time.Duration(ln) * time.Minute)
				if !x.Before(a) && !x.After(b) {
					return true
				}
			}
		}
	}
	return false
}

func (mo *c16Mon) windowsNear(serial, days int) []ScheduleWindow {
	var ws []ScheduleWindow
	for d := serial - 1; d <= serial+days; d++ {
		mo.primWindows(d, func(w ScheduleWindow) { ws = append(ws, w) })
	}
	return ws
}

type c16Features struct {
	week, nth, lastPos, wrapWeek, anchStart, anchEnd, clockRange, crossMidnight, spread, split, multi, zeroFlagged, h24 bool
}

func c16Feat(scheds []*Schedule) c16Features {
	var f c16Features
	f.multi = len(scheds) > 1
	for _, s := range scheds {
		for _, ws := range s.WeekSpans {
			f.week = true
			if ws.Start.Pos != 0 || ws.End.Pos != 0 {
				f.nth = true
			}
			if ws.Start.Pos == 5 || ws.End.Pos == 5 {
				f.lastPos = true
			}
			if ws.Start.Weekday > ws.End.Weekday {
				f.wrapWeek = true
			}
			if ws.Start != ws.End && ws.Start.Pos != 0 {
				f.anchStart = true
			}
			if ws.Start != ws.End && ws.Start.Pos == 0 && ws.End.Pos != 0 {
				f.anchEnd = true
			}
		}
		for _, cs := range s.ClockSpans {
			if cs.Start != cs.End {
				f.clockRange = true
				if cs.End.Hour*60+cs.End.Minute < cs.Start.Hour*60+cs.Start.Minute {
					f.crossMidnight = true
				}
				if cs.Spread {
					f.spread = true
				}
				if cs.Split > 1 {
					f.split = true
				}
			} else if cs.Spread || cs.Split > 0 {
				f.zeroFlagged = true
			}
			if cs.Start.Hour == 24 || cs.End.Hour == 24 {
				f.h24 = true
			}
		}
	}
	return f
}

func (f c16Features) count(c *kit.Check) {
	for name, on := range map[string]bool{"weekdays": f.week, "nth_weekday": f.nth, "last_weekday": f.lastPos,
		"week_wrap": f.wrapWeek, "span_anchored_start": f.anchStart, "span_anchored_end": f.anchEnd, "clock_range": f.clockRange,
		"midnight_crossing": f.crossMidnight, "spread": f.spread, "split": f.split, "multi_set": f.multi,
		"zero_length_flagged": f.zeroFlagged, "clock_24_00": f.h24} {
		if on {
			c.Count("timers_with_"+name, 1)
		}
	}
}

func c16Normalise(in []*Schedule) []Schedule {
	out := make([]Schedule, len(in))
	for i, s := range in {
		out[i].WeekSpans = append([]WeekSpan(nil), s.WeekSpans...)
		for _, cs := range s.ClockSpans {
			if cs.Start == cs.End {
				// a zero-length span has no sub-spans and nothing to spread over
				cs.Spread, cs.Split = false, 0
			}
			out[i].ClockSpans = append(out[i].ClockSpans, cs)
		}
	}
	return out
}

func c16Format(scheds []*Schedule) string {
	parts := make([]string, len(scheds))
	for i, s := range scheds {
		parts[i] = s.String()
	}
	return strings.Join(parts, ",,")
}

type c16Case struct {
	Index     int    `json:"case_index"`
	Timer     string `json:"timer"`
	Zone      string `json:"zone"`
	Last      string `json:"last"`
	Now       string `json:"now"`
	Max       string `json:"max_duration"`
	PlaceLast string `json:"last_placement"`
	PlaceNow  string `json:"now_placement"`
}

func c16T(t time.Time) string { return t.Format("Mon 2006-01-02T15:04:05.999999999Z07:00") }

// checkSplit compares the "/N" sub-spans of every split span of the timer with
// an equal partition of the parent span, anchored on the same day. It returns
// the sub-windows (on the given anchor day) that sit a whole day away from
// where the parent span puts them.
func (mo *c16Mon) checkSplit(timer string, anchor int) (displaced []ClockSpan) {
	noon := c16Midnight(anchor, mo.loc).Add(12 * time.Hour)
	mid := c16Midnight(anchor, mo.loc)
	for _, s := range mo.scheds {
		for _, cs := range s.ClockSpans {
			if cs.Split < 2 || cs.Start == cs.End {
				continue
			}
			mo.c.Count("split_spans_checked", 1)
			subs := cs.ClockSpans()
			st, ln := refSpanMinutes(cs)
			bad := ""
			if len(subs) != int(cs.Split) {
				bad = fmt.Sprintf("%d sub-spans for /%d", len(subs), cs.Split)
			}
			n := float64(len(subs))
			for i, sub := range subs {
				if bad != "" {
					break
				}
				w := sub.Window(noon)
				offS := w.Start.Sub(mid).Minutes()
				offE := w.End.Sub(mid).Minutes()
				idealS := float64(st) + float64(i)*float64(ln)/n
				idealE := float64(st) + float64(i+1)*float64(ln)/n
				// snapd truncates sub-span boundaries to whole minutes: a start may be up
				// to 2 minutes, an end up to 3 minutes before the ideal boundary, never after
				fits := func(s, e float64) bool {
					return s > idealS-2 && s <= idealS+1e-6 && e > idealE-3 && e <= idealE+1e-6
				}
				switch {
				case fits(offS, offE):
				case fits(offS+1440, offE+1440):
					mo.c.Count("split_subwindows_a_day_early", 1)
					displaced = append(displaced, sub)
				default:
					bad = fmt.Sprintf("sub-span %d of %d is %s, i.e. minutes [%v,%v] from the anchor day's midnight; an equal partition of %s puts it at [%.2f,%.2f]",
						i+1, len(subs), sub, offS, offE, cs, idealS, idealE)
				}
			}
			if bad != "" {
				mo.c.Violation("C16:split-not-equal-parts", map[string]interface{}{"timer": timer, "span": cs.String(), "detail": bad})
			}
		}
	}
	return displaced
}

// judge runs the real Next for one triple and applies the window clauses.
func (mo *c16Mon) judge(cs c16Case, last, now time.Time, max time.Duration) string {
	c := mo.c
	old := timeNow
	timeNow = func() time.Time { return now }
	defer func() { timeNow = old }()

	witness := func(extra map[string]interface{}) map[string]interface{} {
		w := map[string]interface{}{"case_index": cs.Index, "case": cs, "last": c16T(last), "now": c16T(now),
			"limit": c16T(last.Add(max)), "parsed": c16Format(mo.scheds)}
		for k, v := range extra {
			w[k] = v
		}
		return w
	}

	// mechanism "window search": what Schedule.Next returns must be a window of
	// that schedule (anchored on a matching day)
	for si, s := range mo.scheds {
		w := s.Next(last)
		c.Count("schedule_next_calls", 1)
		found := false
		for _, day := range []int{c16Serial(w.Start) - 1, c16Serial(w.Start)} {
			if !mo.dayMatches(si, day) {
				continue
			}
			noon := c16Midnight(day, mo.loc).Add(12 * time.Hour)
			for _, fs := range s.flattenedClockSpans() {
				pw := fs.Window(noon)
				if pw.Start.Equal(w.Start) && pw.End.Equal(w.End) && pw.Spread == w.Spread {
					found = true
				}
			}
		}
		if !found {
			c.Violation("C16:schedule-next-not-a-window", witness(map[string]interface{}{
				"schedule": s.String(), "returned_start": c16T(w.Start), "returned_end": c16T(w.End)}))
		}
	}

	d := Next(mo.scheds, last, max)
	c.Count("next_calls", 1)
	x := now.Add(d)
	limit := last.Add(max)
	base := map[string]interface{}{"delay": d.String(), "attempt": c16T(x)}

	if d < 0 {
		c.Violation("C16:negative-delay", witness(base))
		return "violation"
	}
	if !limit.After(now) {
		// the maximum postponement is over: the attempt must be immediate
		if d > 0 {
			c.Violation("C16:overdue-not-immediate", witness(base))
			return "violation"
		}
		return "overdue-immediate"
	}

	dx := c16Serial(x)
	inPrim, inPrimOK, spreadChosen := false, false, false
	var holders []string
	for off := -2; off <= 1; off++ {
		mo.primWindows(dx+off, func(w ScheduleWindow) {
			if c16In(w, x) {
				inPrim = true
				if len(holders) < 4 {
					holders = append(holders, c16T(w.Start)+" .. "+c16T(w.End))
				}
				if !w.Start.After(limit) {
					inPrimOK = true
					if w.Spread {
						spreadChosen = true
					}
				}
			}
		})
	}
	base["windows_holding_attempt"] = holders

	switch {
	case inPrimOK:
		if spreadChosen {
			c.Count("attempts_in_spread_window", 1)
		}
		// the sub-window must also be part of the span it was split from
		if !mo.inSpan(x) {
			c.Violation("C16:outside-window:split-subwindow-a-day-early", witness(base))
			return "violation"
		}
		if d == 0 {
			return "window-open-now"
		}
		return "window-ahead"
	case x.Equal(limit):
		// "unless the maximum postponement comes first": no window of the timer may
		// have been available before the limit. A window is available when it is not
		// over at 'now', does not hold 'last' (one attempt per window) and starts
		// before the limit.
		if !last.After(now) {
			var missed *ScheduleWindow
			for day := c16Serial(now) - 2; day <= c16Serial(limit)+1 && missed == nil; day++ {
				mo.primWindows(day, func(w ScheduleWindow) {
					if missed == nil && !w.End.Before(now) && w.Start.Before(limit) && !c16In(w, last) {
						ww := w
						missed = &ww
					}
				})
			}
			if missed != nil {
				base["available_window"] = c16T(missed.Start) + " .. " + c16T(missed.End)
				c.Violation("C16:limit-used-although-window-comes-first", witness(base))
				return "violation"
			}
		}
		return "at-limit"
	case inPrim:
		c.Violation("C16:window-starts-after-limit", witness(base))
		return "violation"
	}
	c.Violation("C16:outside-window", witness(base))
	return "violation"
}

func TestVerifC16(t *testing.T) {
	c := kit.New("C16", "exploration")
	defer c.Done(t)
	c.Rule("cases = (timer, zone, last, now, maxDuration): timers from a grammar-directed generator over weekdays, week spans " +
		"(wrapping, nth/last weekday, anchored at either end), clock times, ranges (midnight-crossing, zero-length, 24:00), '~', '/N', " +
		"1-3 event sets; last/now placed at month ends, 28/29 Feb, first/last weekdays and at -1h..+1m around window starts/ends and " +
		"around the limit; maxDuration 1h..95d. Non-trivial = the parser accepted the timer and the attempt was decided by a timer " +
		"window or by the postponement limit (not the trivially immediate overdue path); distinct = distinct (timer, zone, last, now, max) tuples")
	c.Assume("last and now are expressed in the same fixed-offset zone (UTC, +05:30, -08:00, +13:45, -03:30); DST zones are excluded (24h stepping across a DST change is outside the property)")
	c.Assume("'the timer's windows' = for every day matched by a week span (or every day without week spans) each clock span anchored on that day, '/N' sub-spans included; zero-length spans are the single instant")
	c.Assume("randomised spread (randDur) is left random: any instant of the chosen window is accepted")
	c.Assume("round-trip equality is on schedules with zero-length spans normalised (spread flag and split count carry no windows there)")
	shard, nshard := kit.Shard()
	only := kit.OnlyCase()

	mo := &c16Mon{c: c, classes: map[string]struct{}{}}
	outcomes := map[string]int{}

	runCase := func(idx int) {
		r := kit.CaseRand("c16", idx)
		timer := genTimer(r)
		loc := c16Zones[r.Intn(len(c16Zones))]
		c.Eval()
		scheds, err := ParseSchedule(timer)
		if err != nil {
			// not a clause of the property; the generator is meant to emit accepted timers only
			c.Count("generated_timers_rejected_by_parser", 1)
			fmt.Printf("C16 note: generated timer %q rejected: %v\n", timer, err)
			return
		}
		c.Count("timers_parsed", 1)
		feat := c16Feat(scheds)
		feat.count(c)

		// ---- round trip
		formatted := c16Format(scheds)
		again, err := ParseSchedule(formatted)
		c.Count("round_trips", 1)
		if err != nil {
			c.Violation("C16:roundtrip:formatted-timer-rejected", map[string]interface{}{"case_index": idx, "timer": timer, "formatted": formatted, "error": err.Error()})
		} else {
			if !reflect.DeepEqual(scheds, again) {
				c.Count("round_trips_equal_only_after_normalising_zero_length_spans", 1)
			}
			if !reflect.DeepEqual(c16Normalise(scheds), c16Normalise(again)) {
				c.Violation("C16:roundtrip:different-schedule", map[string]interface{}{"case_index": idx, "timer": timer, "formatted": formatted,
					"reparsed_formats_as": c16Format(again)})
			}
		}

		mo.loc, mo.scheds, mo.matchMem = loc, scheds, map[[2]int]bool{}

		// ---- placement
		y, m, d := genDay(r)
		s0 := civilToSerial(y, m, d)
		displaced := mo.checkSplit(timer, s0)

		var last time.Time
		placeLast := "date"
		if pct(r, 50) {
			if ws := mo.windowsNear(s0, 9); len(ws) > 0 {
				var p string
				last, p = around(r, ws[r.Intn(len(ws))])
				placeLast = "window:" + p
			}
		}
		if last.IsZero() {
			ns := 0
			if pct(r, 50) {
				ns = r.Intn(1000000000)
			}
			last = time.Date(y, time.Month(m), d, r.Intn(24), r.Intn(60), r.Intn(60), ns, loc)
		}
		max := genMax(r)
		limit := last.Add(max)
		var now time.Time
		var placeNow string
		switch k := r.Intn(100); {
		case k < 10:
			now, placeNow = last, "same"
		case k < 25:
			now = last.Add([]time.Duration{1, time.Second, 59 * time.Second, time.Minute, 5 * time.Minute, 30 * time.Minute}[r.Intn(6)])
			placeNow = "last+small"
		case k < 45:
			now = last.Add(time.Duration(r.Int63n(int64(48 * time.Hour))))
			placeNow = "last+<48h"
		case k < 70:
			s1 := c16Serial(last) + r.Intn(11)
			if ws := mo.windowsNear(s1, 3); len(ws) > 0 {
				var p string
				now, p = around(r, ws[r.Intn(len(ws))])
				placeNow = "window:" + p
			}
			if now.IsZero() || now.Before(last) {
				now = last.Add(time.Duration(r.Int63n(int64(6 * time.Hour))))
				placeNow = "last+<6h"
			}
		case k < 85:
			now = limit.Add([]time.Duration{-time.Hour - time.Second, -time.Minute, -time.Second, -1, 0, 1, time.Second, 30 * time.Minute,
				2 * time.Hour, 72 * time.Hour}[r.Intn(10)])
			placeNow = "limit-relative"
		case k < 95:
			now = last.Add(time.Duration(r.Int63n(int64(120 * 24 * time.Hour))))
			placeNow = "last+<120d"
		default:
			now = last.Add(-time.Duration(r.Int63n(int64(72 * time.Hour))))
			placeNow = "before-last(clock-set-back)"
		}

		cs := c16Case{Index: idx, Timer: timer, Zone: loc.String(), Last: last.Format(time.RFC3339Nano), Now: now.Format(time.RFC3339Nano),
			Max: max.String(), PlaceLast: placeLast, PlaceNow: placeNow}
		out := mo.judge(cs, last, now, max)
		outcomes[out]++
		c.Count("outcome_"+out, 1)
		c.Count("placement_now_"+strings.SplitN(placeNow, ":", 2)[0], 1)
		if out != "overdue-immediate" && out != "violation" {
			c.Nontrivial(kit.Sig(timer, loc.String(), last.UnixNano(), now.UnixNano(), int64(max)))
			mo.classes[fmt.Sprintf("%+v/%s/%s/%s", feat, out, placeLast, placeNow)] = struct{}{}
		}
		if outcomes[out] == 1 {
			c.Sample(map[string]interface{}{"case": cs, "parsed": formatted, "outcome": out})
		}

		// ---- directed probe: a sub-window that the split moved a day early, on a day
		// whose predecessor has no windows, approached from well before it
		if len(displaced) > 0 && feat.week {
			anyMatch := func(day int) bool {
				for si := range scheds {
					if mo.dayMatches(si, day) {
						return true
					}
				}
				return false
			}
			for day := s0; day < s0+62; day++ {
				if !anyMatch(day) || anyMatch(day-1) {
					continue
				}
				w := displaced[0].Window(c16Midnight(day, loc).Add(12 * time.Hour))
				pl := w.Start.Add(-5 * time.Hour)
				pcs := c16Case{Index: idx, Timer: timer, Zone: loc.String(), Last: pl.Format(time.RFC3339Nano), Now: pl.Format(time.RFC3339Nano),
					Max: "2280h0m0s", PlaceLast: "probe:5h-before-early-subwindow", PlaceNow: "same"}
				c.Count("directed_probes_early_subwindow", 1)
				c.Count("outcome_probe_"+mo.judge(pcs, pl, pl, 95*24*time.Hour), 1)
				break
			}
		}
	}

	if only >= 0 {
		runCase(only)
		c.MinDistinct(0)
		return
	}

	ncases := kit.Scale(20000, 60000)
	for idx := 0; idx < ncases; idx++ {
		runCase(idx)
	}
	c.Max("max_distinct_structural_classes_per_shard", len(mo.classes)) // timer features x outcome x placements

	// ---- known-invalid timers must be rejected
	ninv := kit.Scale(6000, 20000)
	for i := 0; i < ninv; i++ {
		r := kit.CaseRand("c16-invalid", i)
		s, cl := genInvalid(r)
		c.Eval()
		c.Count("invalid_timers_generated", 1)
		scheds, err := ParseSchedule(s)
		if err == nil {
			c.Violation("C16:invalid-accepted:"+cl, map[string]interface{}{"invalid_index": i, "timer": s, "class": cl, "parsed_as": c16Format(scheds)})
			continue
		}
		c.Count("invalid_timers_rejected", 1)
		c.Count("invalid_class_"+cl, 1)
		if i < 2 {
			c.Sample(map[string]interface{}{"invalid_timer": s, "class": cl, "error": err.Error()})
		}
	}

	// ---- exhaustive differential sweep of the day matcher: every parseable week
	// span against every day of whole years (the 28-year cycle plus the 2100
	// non-leap century year in the thorough tier)
	seen := map[WeekSpan]bool{}
	var spans []WeekSpan
	for sw := 0; sw < 7; sw++ {
		for sp := 0; sp <= 5; sp++ {
			for ew := -1; ew < 7; ew++ {
				for ep := 0; ep <= 5; ep++ {
					str := c16Wd[sw]
					if sp > 0 {
						str += fmt.Sprint(sp)
					}
					if ew >= 0 {
						str += "-" + c16Wd[ew]
						if ep > 0 {
							str += fmt.Sprint(ep)
						}
					} else if ep > 0 {
						continue
					}
					ws, err := parseWeekSpan(str)
					if err != nil || seen[ws] {
						continue
					}
					seen[ws] = true
					spans = append(spans, ws)
				}
			}
		}
	}
	sort.Slice(spans, func(i, j int) bool { return spans[i].String() < spans[j].String() })
	c.Count("weekspans_enumerated", len(spans))
	type yr struct{ from, to int }
	ranges := []yr{{2015, 2021}}
	if !kit.Quick() {
		ranges = []yr{{1999, 2030}, {2096, 2104}}
	}
	clocks := [][2]int{{0, 0}, {12, 34}, {23, 59}}
	for i, ws := range spans {
		if i%nshard != shard {
			continue
		}
		for _, rg := range ranges {
			for s := civilToSerial(rg.from, 1, 1); s <= civilToSerial(rg.to, 12, 31); s++ {
				k := (s + i) % 15
				if k < 0 {
					k = -k
				}
				mo.spanMatch(ws, s, c16Zones[k%5], clocks[k/5][0], clocks[k/5][1])
				c.Count("weekmatch_exhaustive_span_days", 1)
			}
		}
	}

	// ---- floors: the monitors must have seen every kind of decision
	for _, k := range []string{"outcome_window-open-now", "outcome_window-ahead", "outcome_at-limit", "outcome_overdue-immediate"} {
		c.Floor(k, int64(ncases/100))
	}
	c.Floor("timers_parsed", int64(ncases*9/10))
	c.Floor("round_trips", int64(ncases*9/10))
	c.Floor("invalid_timers_rejected", int64(ninv/2))
	c.Floor("attempts_in_spread_window", int64(ncases/100))
	c.Floor("weekmatch_differential_calls", 100000)
	c.Floor("split_spans_checked", int64(ncases/20))
	for _, k := range []string{"nth_weekday", "last_weekday", "week_wrap", "span_anchored_start", "span_anchored_end", "midnight_crossing", "spread", "split", "multi_set"} {
		c.Floor("timers_with_"+k, int64(ncases/50))
	}
	c.MinDistinct(ncases / 2)
}
