// C16 — grammar-directed generators: valid timers, known-invalid timers, and
// hostile (last, now, maxDuration) placements.
package timeutil

import (
	"fmt"
	"math/rand"
	"strings"
	"time"
)

var c16Wd = []string{"sun", "mon", "tue", "wed", "thu", "fri", "sat"}

func pick(r *rand.Rand, xs ...int) int { return xs[r.Intn(len(xs))] }

func pct(r *rand.Rand, p int) bool { return r.Intn(100) < p }

// ---- valid timers ------------------------------------------------------------

func fmtClock(r *rand.Rand, m int) string {
	if m >= 1440 {
		return "24:00"
	}
	h, mi := m/60, m%60
	if h < 10 && pct(r, 30) {
		return fmt.Sprintf("%d:%02d", h, mi)
	}
	return fmt.Sprintf("%02d:%02d", h, mi)
}

func genMinute(r *rand.Rand) int {
	if pct(r, 35) {
		return pick(r, 0, 1, 59, 60, 359, 360, 719, 720, 1320, 1380, 1438, 1439, 1440)
	}
	if pct(r, 40) {
		return r.Intn(24) * 60 // whole hours
	}
	return r.Intn(1440)
}

func genCount(r *rand.Rand) int {
	switch {
	case pct(r, 50):
		return pick(r, 1, 2, 3, 4, 5, 6, 7, 8, 12, 16, 24)
	case pct(r, 8):
		return pick(r, 30, 48, 100)
	}
	return 1 + r.Intn(24)
}

func genTimeSet(r *rand.Rand) string {
	s := genMinute(r)
	if pct(r, 30) {
		out := fmtClock(r, s)
		if pct(r, 3) {
			// accepted by the parser although outside the documented grammar
			out += fmt.Sprintf("/%d", genCount(r))
		}
		return out
	}
	var e int
	switch k := r.Intn(100); {
	case k < 12:
		e = s // zero-length span
	case k < 40:
		// crossing midnight: end before start
		if s == 0 {
			s = 1 + r.Intn(1439)
		}
		if s > 1439 && pct(r, 70) {
			s = 1439 // otherwise "24:00-hh:mm", accepted by the parser
		}
		e = r.Intn(s)
	case k < 50:
		e = 1440
	default:
		if s >= 1439 {
			s = r.Intn(1439)
		}
		e = s + 1 + r.Intn(1440-s-1+1)
		if e > 1440 {
			e = 1440
		}
	}
	sep := "-"
	if pct(r, 50) {
		sep = "~"
	}
	out := fmtClock(r, s) + sep + fmtClock(r, e)
	if pct(r, 45) {
		out += fmt.Sprintf("/%d", genCount(r))
	}
	return out
}

func genWdaySet(r *rand.Rand) string {
	a, b := c16Wd[r.Intn(7)], c16Wd[r.Intn(7)]
	n := func() int {
		if pct(r, 35) {
			return 5
		}
		return 1 + r.Intn(5)
	}
	switch k := r.Intn(100); {
	case k < 25:
		return a
	case k < 45:
		return fmt.Sprintf("%s%d", a, n())
	case k < 65:
		return a + "-" + b
	case k < 80:
		return fmt.Sprintf("%s%d-%s", a, n(), b)
	case k < 95:
		return fmt.Sprintf("%s-%s%d", a, b, n())
	}
	// both ends numbered (accepted, anchored at the start by the parser)
	p := 1 + r.Intn(5)
	q := p + r.Intn(6-p)
	return fmt.Sprintf("%s%d-%s%d", a, p, b, q)
}

func genList(r *rand.Rand, f func(*rand.Rand) string) string {
	n := pick(r, 1, 1, 1, 2, 2, 3)
	parts := make([]string, n)
	for i := range parts {
		parts[i] = f(r)
	}
	return strings.Join(parts, ",")
}

func genEventSet(r *rand.Rand) string {
	switch k := r.Intn(100); {
	case k < 45:
		return genList(r, genWdaySet) + "," + genList(r, genTimeSet)
	case k < 80:
		return genList(r, genTimeSet)
	}
	return genList(r, genWdaySet)
}

func genTimer(r *rand.Rand) string {
	n := pick(r, 1, 1, 1, 1, 1, 1, 2, 2, 2, 3)
	sets := make([]string, n)
	for i := range sets {
		sets[i] = genEventSet(r)
	}
	return strings.Join(sets, ",,")
}

// ---- known-invalid timers ----------------------------------------------------

// genInvalid returns a timer that the documented grammar excludes
// unambiguously, and the class of the defect planted in it.
func genInvalid(r *rand.Rand) (string, string) {
	wl := strings.Split(genList(r, genWdaySet), ",")
	tl := strings.Split(genList(r, genTimeSet), ",")
	join := func() string {
		var all []string
		all = append(all, wl...)
		all = append(all, tl...)
		s := strings.Join(all, ",")
		// sometimes embed in a longer event list
		switch r.Intn(4) {
		case 0:
			return genEventSet(r) + ",," + s
		case 1:
			return s + ",," + genEventSet(r)
		}
		return s
	}
	okTime := func() string { return fmtClock(r, r.Intn(1440)) }
	badTime := func(cl string) string {
		switch cl {
		case "hour>24":
			return fmt.Sprintf("%d:%02d", 25+r.Intn(75), r.Intn(60))
		default: // minute>59
			return fmt.Sprintf("%02d:%d", r.Intn(24), 60+r.Intn(40))
		}
	}
	classes := []string{"hour>24", "minute>59", "unknown-weekday", "nth-out-of-range", "dangling-dash",
		"dangling-comma", "dangling-tilde", "dangling-slash", "count-zero", "empty", "weekday-after-time",
		"double-span"}
	cl := classes[r.Intn(len(classes))]
	switch cl {
	case "hour>24", "minute>59":
		bt := badTime(cl)
		switch r.Intn(3) {
		case 0:
			tl[r.Intn(len(tl))] = bt
		case 1:
			tl[r.Intn(len(tl))] = bt + pickS(r, "-", "~") + fmtClock(r, r.Intn(1441))
		default:
			tl[r.Intn(len(tl))] = okTime() + pickS(r, "-", "~") + bt
		}
		if pct(r, 30) {
			wl = nil
		}
	case "unknown-weekday":
		bad := pickS(r, "mom", "abc", "m0n", "monday", "mo", "day", "xyz", "frj")
		switch r.Intn(3) {
		case 0:
			wl[r.Intn(len(wl))] = bad
		case 1:
			wl[r.Intn(len(wl))] = bad + "-" + c16Wd[r.Intn(7)]
		default:
			wl[r.Intn(len(wl))] = c16Wd[r.Intn(7)] + "-" + bad
		}
	case "nth-out-of-range":
		bad := c16Wd[r.Intn(7)] + pickS(r, "0", "6", "7", "8", "9")
		switch r.Intn(3) {
		case 0:
			wl[r.Intn(len(wl))] = bad
		case 1:
			wl[r.Intn(len(wl))] = bad + "-" + c16Wd[r.Intn(7)]
		default:
			wl[r.Intn(len(wl))] = c16Wd[r.Intn(7)] + "-" + bad
		}
	case "dangling-dash":
		switch r.Intn(4) {
		case 0:
			wl[r.Intn(len(wl))] = c16Wd[r.Intn(7)] + "-"
		case 1:
			wl[r.Intn(len(wl))] = "-" + c16Wd[r.Intn(7)]
		case 2:
			tl[r.Intn(len(tl))] = okTime() + "-"
		default:
			tl[r.Intn(len(tl))] = "-" + okTime()
		}
	case "dangling-tilde":
		if pct(r, 50) {
			tl[r.Intn(len(tl))] = okTime() + "~"
		} else {
			tl[r.Intn(len(tl))] = "~" + okTime()
		}
	case "dangling-slash":
		tl[r.Intn(len(tl))] = "09:00" + pickS(r, "-", "~") + "11:30/"
	case "count-zero":
		tl[r.Intn(len(tl))] = "09:00" + pickS(r, "-", "~") + "11:30/" + pickS(r, "0", "00")
	case "empty":
		return "", cl
	case "weekday-after-time":
		// eventset = wdaylist "," timelist: a weekday can never follow a time
		return strings.Join(tl, ",") + "," + strings.Join(wl, ","), cl
	case "double-span":
		if pct(r, 50) {
			wl[r.Intn(len(wl))] = "mon-wed-fri"
		} else {
			tl[r.Intn(len(tl))] = "09:00-10:00-11:00"
		}
	case "dangling-comma":
		s := join()
		switch r.Intn(3) {
		case 0:
			return s + ",", cl
		case 1:
			return "," + s, cl
		default:
			return s + ",,", cl
		}
	}
	return join(), cl
}

func pickS(r *rand.Rand, xs ...string) string { return xs[r.Intn(len(xs))] }

// ---- hostile dates -------------------------------------------------------------

var c16Zones = []*time.Location{
	time.UTC,
	time.FixedZone("+0530", 5*3600+1800),
	time.FixedZone("-0800", -8*3600),
	time.FixedZone("+1345", 13*3600+2700),
	time.FixedZone("-0330", -3*3600-1800),
}

// months whose shape is hostile to week arithmetic: leap / non-leap / century
// Februaries, Februaries of exactly four weeks starting on Sunday / Monday,
// year ends, 30/31-day neighbours, the months used in snapd's own comments.
var c16Months = [][2]int{
	{2016, 2}, {2017, 2}, {2020, 2}, {2024, 2}, {2100, 2}, {2015, 2}, {2021, 2}, {2026, 2},
	{2019, 12}, {2020, 1}, {2023, 12}, {2024, 1}, {2018, 7}, {2018, 8}, {2023, 4}, {2023, 5},
	{2017, 3}, {2016, 3}, {2022, 10}, {2022, 11},
}

func genDay(r *rand.Rand) (y, m, d int) {
	if pct(r, 65) {
		ym := c16Months[r.Intn(len(c16Months))]
		y, m = ym[0], ym[1]
	} else {
		y, m = 2015+r.Intn(21), 1+r.Intn(12)
	}
	dim := refDaysInMonth(y, m)
	if pct(r, 55) {
		d = pick(r, 1, 2, 6, 7, 8, dim-7, dim-6, dim-1, dim, 28, 29)
		if d > dim {
			d = dim
		}
	} else {
		d = 1 + r.Intn(dim)
	}
	return
}

var c16MaxDur = []time.Duration{time.Hour, 6 * time.Hour, 24 * time.Hour, 36 * time.Hour, 3 * 24 * time.Hour,
	7 * 24 * time.Hour, 14 * 24 * time.Hour, 31 * 24 * time.Hour, 60 * 24 * time.Hour}

func genMax(r *rand.Rand) time.Duration {
	switch {
	case pct(r, 35):
		return 95 * 24 * time.Hour // the production value
	case pct(r, 25):
		return time.Hour + time.Duration(r.Int63n(int64(95*24*time.Hour-time.Hour)/int64(time.Minute)))*time.Minute
	}
	return c16MaxDur[r.Intn(len(c16MaxDur))]
}

// around places an instant relative to a window: just before, on, just after
// the start and the end, and in the middle.
func around(r *rand.Rand, w ScheduleWindow) (time.Time, string) {
	switch r.Intn(14) {
	case 0:
		return w.Start.Add(-time.Hour), "start-1h"
	case 1:
		return w.Start.Add(-time.Minute), "start-1m"
	case 2:
		return w.Start.Add(-time.Second), "start-1s"
	case 3:
		return w.Start.Add(-1), "start-1ns"
	case 4:
		return w.Start, "start"
	case 5:
		return w.Start.Add(1), "start+1ns"
	case 6:
		return w.Start.Add(time.Minute), "start+1m"
	case 7:
		return w.Start.Add(w.End.Sub(w.Start) / 2), "middle"
	case 8:
		return w.End.Add(-time.Minute), "end-1m"
	case 9:
		return w.End.Add(-1), "end-1ns"
	case 10:
		return w.End, "end"
	case 11:
		return w.End.Add(1), "end+1ns"
	case 12:
		return w.End.Add(time.Second), "end+1s"
	}
	return w.End.Add(time.Minute), "end+1m"
}
