// C18 replay stream: mutants judged against databases that ALREADY KNOW the
// genuine assertion.
//
// The mutation monitor (c18_test.go:mutate) judges every mutant on sc.db, a
// database that never held the accepted original ("forged first" = control).
// Here the same mutants, plus a family of "replay forgeries" (signature bytes
// and primary key kept; revision raised / equal / lowered, non-key headers
// edited, optional headers added or deleted, body edited, signing key or
// authority swapped), are also judged on databases that hold the genuine
// assertion in the backstore Add writes to ("stored"), in a backstore stacked
// underneath ("stacked-under"), in the predefined set and (account /
// account-key) in the trusted set. Whatever the database already knows, a
// forged encoding whose signed content or decoded signature differs must be
// rejected by Check and by Add, and a later Find must still return the
// genuine assertion byte for byte.
package asserts_test

import (
	"bytes"
	"fmt"
	"math/rand"
	"strconv"
	"strings"
	"time"

	kit "verifkit"

	"github.com/snapcore/snapd/asserts"
)

// ---- encoded assertion split into editable parts ------------------------------

type c18Parts struct {
	entries []string // top-level header entries (with continuation lines), no trailing \n
	hasBody bool
	body    []byte
	sig     []byte // encoded signature, byte for byte as in the original
}

func c18Split(enc []byte, l *c18Layout) *c18Parts {
	p := &c18Parts{sig: enc[l.sigSplit+2:]}
	for _, e := range l.entries {
		p.entries = append(p.entries, string(enc[e[0]:e[1]]))
	}
	if l.bodyOff >= 0 {
		p.hasBody = true
		p.body = enc[l.bodyOff:l.sigSplit]
	}
	return p
}

func (p *c18Parts) clone() *c18Parts {
	q := *p
	q.entries = append([]string{}, p.entries...)
	return &q
}

func c18EntryName(e string) string {
	if i := strings.IndexByte(e, ':'); i >= 0 {
		return e[:i]
	}
	return ""
}

func (p *c18Parts) idx(name string) int {
	for i, e := range p.entries {
		if c18EntryName(e) == name {
			return i
		}
	}
	return -1
}

// set replaces the entry or inserts it before the last one (sign-key).
func (p *c18Parts) set(name, value string) {
	e := name + ": " + value
	if i := p.idx(name); i >= 0 {
		p.entries[i] = e
		return
	}
	n := len(p.entries)
	p.entries = append(p.entries[:n-1:n-1], e, p.entries[n-1])
}

func (p *c18Parts) del(name string) {
	if i := p.idx(name); i >= 0 {
		p.entries = append(p.entries[:i:i], p.entries[i+1:]...)
	}
}

func (p *c18Parts) setBody(b []byte) {
	p.hasBody = len(b) > 0
	p.body = b
	if len(b) > 0 {
		p.set("body-length", strconv.Itoa(len(b)))
	} else {
		p.del("body-length")
	}
}

func (p *c18Parts) bytes() []byte {
	var buf bytes.Buffer
	buf.WriteString(strings.Join(p.entries, "\n"))
	if p.hasBody {
		buf.WriteString("\n\n")
		buf.Write(p.body)
	}
	buf.WriteString("\n\n")
	buf.Write(p.sig)
	return buf.Bytes()
}

func (p *c18Parts) setRevision(rev int) {
	if rev <= 0 {
		p.del("revision")
	} else {
		p.set("revision", strconv.Itoa(rev))
	}
}

// c18ReplayForgeries derives forged encodings of an accepted assertion that
// keep its signature bytes, type and primary key but change the signed content.
func c18ReplayForgeries(sc *c18Scenario, it *c18Item, l *c18Layout, rng *rand.Rand) []*c18Mutant {
	base := c18Split(it.enc, l)
	rev := it.a.Revision()
	fixed := map[string]bool{"type": true, "authority-id": true, "revision": true, "format": true, "body-length": true, "sign-key-sha3-384": true}
	for _, k := range it.a.Type().PrimaryKey {
		fixed[k] = true
	}
	var eligible []int
	for i, e := range base.entries {
		if !fixed[c18EntryName(e)] {
			eligible = append(eligible, i)
		}
	}
	var out []*c18Mutant
	mk := func(op string, p *c18Parts) {
		if b := p.bytes(); !bytes.Equal(b, it.enc) {
			out = append(out, &c18Mutant{Region: "replay", Op: op, Pos: -1, Bytes: b})
		}
	}
	// content edits, each of which is combined with the revision variants
	type edit struct {
		name string
		f    func(p *c18Parts) bool
	}
	edits := []edit{{"revision-only", func(p *c18Parts) bool { return true }}}
	if len(eligible) > 0 {
		editValue := func(p *c18Parts) bool {
			i := eligible[rng.Intn(len(eligible))]
			e := []byte(p.entries[i])
			var sites []int
			for j := strings.IndexByte(p.entries[i], ':') + 1; j < len(e); j++ {
				if (e[j] >= 'a' && e[j] <= 'z') || (e[j] >= '0' && e[j] <= '9') {
					sites = append(sites, j)
				}
			}
			if len(sites) == 0 {
				return false
			}
			j := sites[rng.Intn(len(sites))]
			for old := e[j]; e[j] == old; {
				if old >= '0' && old <= '9' {
					e[j] = byte('0' + rng.Intn(10))
				} else {
					e[j] = byte('a' + rng.Intn(26))
				}
			}
			p.entries[i] = string(e)
			return true
		}
		edits = append(edits,
			edit{"header-value-edited", editValue},
			edit{"header-value-edited-2", editValue},
			edit{"header-deleted", func(p *c18Parts) bool {
				p.del(c18EntryName(p.entries[eligible[rng.Intn(len(eligible))]]))
				return true
			}})
	}
	edits = append(edits,
		edit{"optional-header-added", func(p *c18Parts) bool { p.set("zz-extra", "1"); return true }},
		edit{"body-edited", func(p *c18Parts) bool {
			if p.hasBody {
				b := append([]byte{}, p.body...)
				b[rng.Intn(len(b))] ^= 1
				if rng.Intn(2) == 0 {
					b = append(b, 'x')
				}
				p.setBody(b)
			} else {
				p.setBody([]byte("body"))
			}
			return true
		}},
		edit{"format-raised", func(p *c18Parts) bool { p.set("format", strconv.Itoa(it.a.Format()+1)); return true }},
	)
	if base.hasBody {
		edits = append(edits, edit{"body-dropped", func(p *c18Parts) bool { p.setBody(nil); return true }})
	}
	if base.idx("authority-id") >= 0 {
		all := append([]string{sc.Root}, sc.Accounts...)
		edits = append(edits, edit{"authority-swapped", func(p *c18Parts) bool {
			o := all[rng.Intn(len(all))]
			if o == it.Authority {
				return false
			}
			p.set("authority-id", o)
			return true
		}})
	}
	var keyIDs []string
	for _, k := range sc.Keys {
		if k.ID != it.a.SignKeyID() && k.Where != "absent" {
			keyIDs = append(keyIDs, k.ID)
		}
	}
	if len(keyIDs) > 0 {
		edits = append(edits, edit{"sign-key-swapped", func(p *c18Parts) bool {
			p.set("sign-key-sha3-384", keyIDs[rng.Intn(len(keyIDs))])
			return true
		}})
	}
	for _, ed := range edits {
		p := base.clone()
		if !ed.f(p) {
			continue
		}
		if ed.name != "revision-only" {
			mk(ed.name+"/revision-equal", p)
		}
		q := p.clone()
		q.setRevision(rev + 1)
		mk(ed.name+"/revision-raised", q)
		if ed.name == "revision-only" || rng.Intn(3) == 0 {
			q = p.clone()
			q.setRevision(rev + 2 + rng.Intn(5000))
			mk(ed.name+"/revision-raised-far", q)
		}
		if rev > 0 {
			q = p.clone()
			q.setRevision(rev - 1)
			mk(ed.name+"/revision-lowered", q)
			if rev > 1 {
				q = p.clone()
				q.setRevision(0)
				mk(ed.name+"/revision-dropped", q)
			}
		}
	}
	return out
}

// ---- databases that hold the genuine assertion ----------------------------------

type c18Holder struct {
	where string
	open  func() (*asserts.Database, error)
	db    *asserts.Database
}

type c18Known struct {
	mo      *c18Mon
	sc      *c18Scenario
	it      *c18Item
	now     time.Time
	ref     *asserts.Ref
	uniq    string
	holders []*c18Holder
	n       int
}

// newKnown prepares the holders for one accepted assertion. Must be called
// with the clock pinned at the instant where Check accepted it.
func (mo *c18Mon) newKnown(sc *c18Scenario, it *c18Item, now time.Time) *c18Known {
	kn := &c18Known{mo: mo, sc: sc, it: it, now: now, ref: it.a.Ref()}
	kn.uniq = kn.ref.Unique()
	stored := func() (*asserts.Database, error) {
		db := sc.db.WithStackedBackstore(asserts.NewMemoryBackstore())
		return db, db.Add(it.a) // the real Add, at the instant where Check accepted it
	}
	with := func(trusted, predefined []asserts.Assertion) func() (*asserts.Database, error) {
		return func() (*asserts.Database, error) {
			cfg := &asserts.DatabaseConfig{Backstore: sc.cfg.Backstore,
				Trusted:         append(append([]asserts.Assertion{}, sc.cfg.Trusted...), trusted...),
				OtherPredefined: append(append([]asserts.Assertion{}, sc.cfg.OtherPredefined...), predefined...)}
			db, err := asserts.OpenDatabase(cfg)
			if err != nil {
				return nil, err
			}
			// Adds of forged encodings never reach the scenario's shared backstore
			return db.WithStackedBackstore(asserts.NewMemoryBackstore()), nil
		}
	}
	kn.holders = []*c18Holder{
		{where: "stored", open: stored},
		{where: "stacked-under", open: func() (*asserts.Database, error) {
			db, err := stored()
			if err != nil {
				return nil, err
			}
			return db.WithStackedBackstore(asserts.NewMemoryBackstore()), nil
		}},
		{where: "predefined", open: with(nil, []asserts.Assertion{it.a})},
	}
	if it.Type == "account" || it.Type == "account-key" {
		kn.holders = append(kn.holders, &c18Holder{where: "trusted", open: with([]asserts.Assertion{it.a}, nil)})
	}
	return kn
}

func (kn *c18Known) holds(db *asserts.Database) (asserts.Assertion, bool) {
	cur, err := kn.ref.Resolve(db.Find)
	return cur, err == nil && bytes.Equal(asserts.Encode(cur), kn.it.enc)
}

// judge evaluates one decoded mutant (same type and primary key as the genuine
// assertion; content and/or decoded signature differ) on the holders.
func (kn *c18Known) judge(m *c18Mutant, path string, a2 asserts.Assertion, what, sigField string) {
	c := kn.mo.c
	if a2.Type() != kn.it.a.Type() || a2.Ref().Unique() != kn.uniq {
		c.Count("known_skipped_other_type_or_primary_key", 1)
		return
	}
	sel := kn.holders
	if m.Region != "replay" {
		// "stored" plus one of the others in rotation
		kn.n++
		sel = []*c18Holder{kn.holders[0], kn.holders[1+kn.n%(len(kn.holders)-1)]}
	}
	class := map[string]string{
		"content":           "C18:replayed-signature-over-edited-content",
		"signature":         "C18:replayed-content-under-edited-signature",
		"content+signature": "C18:edited-content-and-signature-with-genuine-known",
	}[what]
	for _, h := range sel {
		if h.db == nil {
			db, err := h.open()
			if err != nil {
				c.Count("known_genuine_not_placeable:"+h.where, 1)
				c.Note("known_genuine_not_placeable_example", fmt.Sprintf("scenario %d item %d %s in %s: %v", kn.sc.Idx, kn.it.Idx, kn.it.Type, h.where, err))
				continue
			}
			if _, ok := kn.holds(db); !ok {
				c.Count("known_genuine_not_found_after_placing:"+h.where, 1)
				continue
			}
			h.db = db
			c.Count("known_holders_opened:"+h.where, 1)
		}
		c.Eval()
		c.Nontrivial(kit.Sig("known", kn.it.Type, h.where, m.Region, m.Op, path, what))
		c.Count("known_claims", 1)
		c.Count("known_claims_where:"+h.where, 1)
		c.Count("known_claims_changed:"+what, 1)
		c.Count("known_claims_region:"+m.Region, 1)
		if m.Region == "replay" {
			c.Count("known_claims_replay:"+m.Op, 1)
			c.Count("known_claims_replay_revision:"+m.Op[strings.IndexByte(m.Op, '/')+1:], 1)
		}
		errC := h.db.Check(a2)
		errA := h.db.Add(a2)
		cur, intact := kn.holds(h.db)
		if errC != nil && errA != nil && intact {
			c.Count("known_rejected", 1)
			c.Count("known_rejected_as:"+c18Classify(errC), 1)
			continue
		}
		found := "<not found>"
		if cur != nil {
			found = string(asserts.Encode(cur))
		}
		wit := kn.mo.witness(kn.sc, kn.it, map[string]interface{}{
			"stream": "replay-against-known-genuine", "genuine_held_in": h.where, "now": kn.now.Format(time.RFC3339Nano),
			"mutation": m.String(), "decoded_via": path, "mutated_encoded": string(m.Bytes), "changed": what,
			"decoded_signature_field": sigField, "check_error": fmt.Sprint(errC), "add_error": fmt.Sprint(errA),
			"found_after_add": found, "genuine_still_found_byte_for_byte": intact,
			"reference": "the database holds the genuine assertion; a forged encoding with the same primary key whose signed content or decoded signature differs must be rejected by Check and Add, and Find must keep returning the genuine one",
		})
		if what == "signature" && c18ContainerFields[sigField] && intact {
			// the listed container malleability, seen again on this database
			c.Count("known_container_accepted", 1)
			c.Violation("C18:mutation-accepted:signature-container:"+sigField, wit)
			continue
		}
		if errC == nil {
			c.Count("known_check_accepted", 1)
			c.Violation(class+":check-accepted", wit)
		}
		if errA == nil {
			c.Count("known_add_accepted", 1)
			c.Violation(class+":add-accepted", wit)
		}
		if !intact {
			c.Count("known_add_stored", 1)
			c.Violation(class+":add-stored", wit)
		}
		if errA == nil || !intact {
			h.db = nil // rebuilt for the next mutant
		}
	}
	// reverse order (control): forged first on a database that never saw the
	// genuine one, then the genuine one; the genuine one must win
	if m.Region == "replay" {
		db := kn.sc.db.WithStackedBackstore(asserts.NewMemoryBackstore())
		c.Eval()
		errC, errA := db.Check(a2), db.Add(a2)
		errG := db.Add(kn.it.a)
		_, intact := kn.holds(db)
		switch {
		case errC != nil && errA != nil && errG == nil && intact:
			c.Count("known_control_forged_first_rejected_then_genuine_added", 1)
		case errC != nil && errA != nil && errG != nil:
			c.Count("known_control_genuine_not_added", 1)
		default:
			c.Violation("C18:forged-first-then-genuine:forged-accepted-or-genuine-not-found", kn.mo.witness(kn.sc, kn.it, map[string]interface{}{
				"stream": "replay-control", "now": kn.now.Format(time.RFC3339Nano), "mutation": m.String(), "mutated_encoded": string(m.Bytes),
				"check_error": fmt.Sprint(errC), "add_error": fmt.Sprint(errA), "genuine_add_error": fmt.Sprint(errG), "genuine_found_byte_for_byte": intact,
			}))
		}
	}
}
