// C18 scenario builder: a trusted root, 2-3 accounts, account keys with
// generated validity windows / constraints / storage locations, and test
// assertions of eight types signed with right and wrong keys.
//
// Everything the reference predicate needs is kept in plain records
// (c18Key, c18Item) filled in while generating -- never read back from snapd.
package asserts_test

import (
	"bytes"
	"crypto"
	"crypto/rsa"
	_ "crypto/sha512"
	"encoding/base64"
	"fmt"
	"math/rand"
	"strings"
	"time"

	"golang.org/x/crypto/openpgp/packet"

	"github.com/snapcore/snapd/asserts"
	"github.com/snapcore/snapd/asserts/assertstest"
)

// ---- key pool (generated once per process) -----------------------------------

type c18PoolKey struct {
	priv asserts.PrivateKey
	rsa  *rsa.PrivateKey
	id   string
	enc  []byte // encoded public key (account-key body / device-key)
}

var c18Pool []c18PoolKey

func c18InitPool(n int) {
	if len(c18Pool) >= n {
		return
	}
	for len(c18Pool) < n {
		priv, rk := assertstest.GenerateKey(1024)
		enc, err := asserts.EncodePublicKey(priv.PublicKey())
		if err != nil {
			panic(err)
		}
		c18Pool = append(c18Pool, c18PoolKey{priv: priv, rsa: rk, id: priv.PublicKey().ID(), enc: enc})
	}
}

// ---- records -----------------------------------------------------------------

// c18Cons is one entry of an account-key "constraints" header restricted to
// the family the generator emits: an exact type plus, optionally, one string
// header that must equal Pattern or (Prefix) start with it.
type c18Cons struct {
	Type    string `json:"type"`
	Header  string `json:"header,omitempty"`
	Pattern string `json:"pattern,omitempty"`
	Prefix  bool   `json:"prefix,omitempty"`
}

type c18Key struct {
	Pool     int       `json:"pool"`
	ID       string    `json:"key_id"`
	Owner    string    `json:"owner"`
	Since    time.Time `json:"since"`
	Until    time.Time `json:"until"` // zero: forever
	Cons     []c18Cons `json:"constraints,omitempty"`
	Where    string    `json:"where"` // trusted | predefined | stored | absent
	WinClass string    `json:"window_class"`
	Name     string    `json:"name"`
	enc      []byte
}

type c18Item struct {
	Idx       int                    `json:"item"`
	Type      string                 `json:"type"`
	Authority string                 `json:"authority"`
	Rel       string                 `json:"signer_relation"` // own | other-account | forged-with-other-private-key | grafted-signature
	KeyID     string                 `json:"claimed_key_id"`
	HasTS     bool                   `json:"has_timestamp"`
	TS        time.Time              `json:"timestamp"`
	TSClass   string                 `json:"timestamp_class"`
	Filter    string                 `json:"filter_value"`
	Headers   map[string]interface{} `json:"-"`
	BadSig    bool                   `json:"signature_not_over_these_bytes"`
	ConsOK    bool                   `json:"cross_consistency_satisfied"`
	a         asserts.Assertion
	enc       []byte
}

type c18Scenario struct {
	Idx      int
	T0       time.Time
	Root     string
	Accounts []string // non-root
	Keys     []*c18Key
	byID     map[string]*c18Key // every key with a record (also absent ones)
	inDB     map[string]*c18Key // records whose account-key is in the database
	spare    []int              // pool keys without any account-key
	snapID   string
	db       *asserts.Database // under test
	dbE      *asserts.Database // same content, used in SetEarliestTime mode
	sdb      *asserts.Database // signing only
	infra    []asserts.Assertion
	r0       *c18Key             // trusted, open-ended, unconstrained root key
	lifeBase []asserts.Assertion // [root account, R0 account-key]: trusted set of the key-lifecycle database
	cfg      *asserts.DatabaseConfig // configuration sc.db was opened with (replay stream: variants with one more trusted / predefined assertion)
}

var c18Zones = []*time.Location{time.UTC, time.FixedZone("", 2*3600), time.FixedZone("", -(5*3600 + 30*60))}

func c18Fmt(t time.Time, rng *rand.Rand) string {
	z := c18Zones[rng.Intn(len(c18Zones))]
	if t.Nanosecond() != 0 {
		return t.In(z).Format(time.RFC3339Nano)
	}
	return t.In(z).Format(time.RFC3339)
}

const c18Day = 24 * time.Hour

var c18FilterValues = []string{"alpha-1", "alpha-2", "beta-1", "gamma"}

// per type: the string header constraints may filter on
var c18FilterHeader = map[string]string{
	"account":          "username",
	"account-key":      "name",
	"snap-declaration": "snap-name",
	"snap-revision":    "developer-id",
	"model":            "model",
	"serial":           "model",
	"validation-set":   "name",
	"system-user":      "username",
}

var c18Types = []string{"account", "account-key", "snap-declaration", "snap-revision", "model", "serial", "validation-set", "system-user"}

// self-signed type without an authority that Database.Check knows how to verify
// (serial-request and device-session-request are not checked through the
// database): only the signature clauses apply
var c18NoAuthorityTypes = []string{"account-key-request"}

// types whose cross-checks demand a directly trusted authority
var c18RootOnly = map[string]bool{"account": true, "account-key": true, "snap-declaration": true, "snap-revision": true}

var c18Timestamped = map[string]bool{"account": true, "snap-declaration": true, "snap-revision": true, "model": true, "serial": true, "validation-set": true}

func c18ID32(rng *rand.Rand) string {
	const al = "abcdefghijklmnopqrstuvwxyzABCDEFGHIJKLMNOPQRSTUVWXYZ0123456789"
	b := make([]byte, 32)
	for i := range b {
		b[i] = al[rng.Intn(len(al))]
	}
	return string(b)
}

func (sc *c18Scenario) filterPool(typ string) []string {
	if typ == "snap-revision" {
		return append([]string{sc.Root}, sc.Accounts...)
	}
	return c18FilterValues
}

func (sc *c18Scenario) genWindow(rng *rand.Rand, k *c18Key) {
	r := rng.Intn(100)
	switch {
	case r < 25:
		k.WinClass = "forever"
		k.Since = sc.T0.Add(-time.Duration(1+rng.Intn(2000)) * c18Day).Add(time.Duration(rng.Intn(86400)) * time.Second)
	case r < 31:
		k.WinClass = "empty"
		k.Since = sc.T0.Add(time.Duration(rng.Intn(2000)-1000) * c18Day)
		k.Until = k.Since
	default:
		durs := []time.Duration{time.Second, 2 * time.Second, 90 * time.Second, time.Hour, 30 * c18Day, 400 * c18Day}
		d := durs[rng.Intn(len(durs))]
		k.WinClass = "bounded-" + d.String()
		k.Since = sc.T0.Add(time.Duration(rng.Intn(2000)-1000) * c18Day).Add(time.Duration(rng.Intn(86400)) * time.Second)
		if rng.Intn(8) == 0 {
			// sub-second instants are legal RFC3339
			k.Since = k.Since.Add(time.Duration(1+rng.Intn(999)) * time.Millisecond)
			k.WinClass += "-subsecond"
		}
		k.Until = k.Since.Add(d)
	}
}

func (sc *c18Scenario) genCons(rng *rand.Rand, k *c18Key, types []string) {
	n := 1 + rng.Intn(2)
	for i := 0; i < n; i++ {
		typ := types[rng.Intn(len(types))]
		c := c18Cons{Type: typ}
		if rng.Intn(3) > 0 {
			c.Header = c18FilterHeader[typ]
			pool := sc.filterPool(typ)
			v := pool[rng.Intn(len(pool))]
			if rng.Intn(2) == 0 {
				c.Pattern = v
			} else {
				c.Prefix = true
				cut := 3 + rng.Intn(3)
				if cut > len(v) {
					cut = len(v)
				}
				c.Pattern = v[:cut]
			}
		}
		k.Cons = append(k.Cons, c)
	}
}

func c18ConsHeader(cons []c18Cons) []interface{} {
	var l []interface{}
	for _, c := range cons {
		hm := map[string]interface{}{"type": c.Type}
		if c.Header != "" {
			p := c.Pattern // only [a-zA-Z0-9-]: no regexp metacharacters
			if c.Prefix {
				p += ".*"
			}
			hm[c.Header] = p
		}
		l = append(l, map[string]interface{}{"headers": hm})
	}
	return l
}

func c18Must(a asserts.Assertion, err error) asserts.Assertion {
	if err != nil {
		panic(fmt.Errorf("C18 harness cannot build infrastructure assertion: %v", err))
	}
	return a
}

func (sc *c18Scenario) accountKeyAssertion(rng *rand.Rand, k *c18Key, signer *c18Key) *asserts.AccountKey {
	h := map[string]interface{}{
		"authority-id":        sc.Root,
		"account-id":          k.Owner,
		"name":                k.Name,
		"public-key-sha3-384": k.ID,
		"since":               c18Fmt(k.Since, rng),
	}
	if !k.Until.IsZero() {
		h["until"] = c18Fmt(k.Until, rng)
	}
	if len(k.Cons) > 0 {
		h["format"] = "1"
		h["constraints"] = c18ConsHeader(k.Cons)
	}
	return c18Must(sc.sdb.Sign(asserts.AccountKeyType, h, k.enc, signer.ID)).(*asserts.AccountKey)
}

func c18NewScenario(idx int, rng *rand.Rand) *c18Scenario {
	sc := &c18Scenario{Idx: idx, byID: map[string]*c18Key{}, inDB: map[string]*c18Key{}}
	sc.T0 = time.Date(2018, 1, 1, 0, 0, 0, 0, time.UTC).Add(time.Duration(rng.Intn(4000)) * c18Day).Add(time.Duration(rng.Intn(86400)) * time.Second)
	sc.Root = fmt.Sprintf("root-%d", idx)
	nacc := 2 + rng.Intn(2)
	for i := 0; i < nacc; i++ {
		sc.Accounts = append(sc.Accounts, fmt.Sprintf("%s-%d-%c", []string{"acme", "brand", "dev"}[i], idx, 'a'+i))
	}
	var err error
	sc.sdb, err = asserts.OpenDatabase(&asserts.DatabaseConfig{})
	if err != nil {
		panic(err)
	}
	perm := rng.Perm(len(c18Pool))
	for _, p := range perm {
		if err := sc.sdb.ImportKey(c18Pool[p].priv); err != nil {
			panic(err)
		}
	}
	next := 0
	take := func(owner, where string) *c18Key {
		p := perm[next]
		next++
		k := &c18Key{Pool: p, ID: c18Pool[p].id, Owner: owner, Where: where, Name: fmt.Sprintf("k%d", p), enc: c18Pool[p].enc}
		sc.Keys = append(sc.Keys, k)
		sc.byID[k.ID] = k
		if where != "absent" {
			sc.inDB[k.ID] = k
		}
		return k
	}
	// root keys: R0 is valid over the whole explored period and unconstrained
	// (it signs the infrastructure); R1 and R2 are generated like any other key
	r0 := take(sc.Root, "trusted")
	r0.WinClass = "forever"
	r0.Since = sc.T0.Add(-4000 * c18Day)
	r1 := take(sc.Root, "trusted")
	sc.genWindow(rng, r1)
	if rng.Intn(2) == 0 {
		sc.genCons(rng, r1, []string{"account", "account-key", "snap-declaration", "snap-revision", "model"})
	}
	r2 := take(sc.Root, []string{"trusted", "predefined", "stored"}[rng.Intn(3)])
	sc.genWindow(rng, r2)
	for ai, acc := range sc.Accounts {
		nk := 2
		if ai == 0 {
			nk = 3
		}
		for j := 0; j < nk; j++ {
			where := "stored"
			if rng.Intn(4) == 0 {
				where = "predefined"
			}
			k := take(acc, where)
			sc.genWindow(rng, k)
			if rng.Intn(100) < 40 {
				sc.genCons(rng, k, []string{"model", "serial", "validation-set", "system-user"})
			}
		}
	}
	// a key that exists on paper (an account-key was issued) but is not in the database
	ab := take(sc.Accounts[0], "absent")
	sc.genWindow(rng, ab)
	sc.spare = append(sc.spare, perm[next:]...)
	if len(sc.spare) < 2 {
		panic("C18 harness: key pool too small")
	}

	// ---- infrastructure assertions ------------------------------------------
	bs := asserts.NewMemoryBackstore()
	var trusted, predefined []asserts.Assertion
	infraTS := c18Fmt(sc.T0.Add(-3000*c18Day), rng)
	mkAccount := func(id string) asserts.Assertion {
		return c18Must(sc.sdb.Sign(asserts.AccountType, map[string]interface{}{
			"authority-id": sc.Root, "account-id": id, "display-name": strings.ToUpper(id[:1]) + id[1:],
			"validation": "verified", "timestamp": infraTS,
		}, nil, r0.ID))
	}
	trusted = append(trusted, mkAccount(sc.Root))
	for _, acc := range sc.Accounts {
		a := mkAccount(acc)
		if err := bs.Put(asserts.AccountType, a); err != nil {
			panic(err)
		}
		sc.infra = append(sc.infra, a)
	}
	for _, k := range sc.Keys {
		ak := sc.accountKeyAssertion(rng, k, r0)
		if k == r0 {
			sc.r0 = r0
			sc.lifeBase = []asserts.Assertion{trusted[0], ak}
		}
		switch k.Where {
		case "trusted":
			trusted = append(trusted, ak)
		case "predefined":
			predefined = append(predefined, ak)
		case "stored":
			if err := bs.Put(asserts.AccountKeyType, ak); err != nil {
				panic(err)
			}
		}
		if k.Where == "predefined" || k.Where == "stored" {
			sc.infra = append(sc.infra, ak)
		}
	}
	sc.snapID = c18ID32(rng)
	decl := c18Must(sc.sdb.Sign(asserts.SnapDeclarationType, map[string]interface{}{
		"authority-id": sc.Root, "series": "16", "snap-id": sc.snapID, "snap-name": "stored-snap",
		"publisher-id": sc.Accounts[0], "timestamp": infraTS,
	}, nil, r0.ID))
	if err := bs.Put(asserts.SnapDeclarationType, decl); err != nil {
		panic(err)
	}
	sc.infra = append(sc.infra, trusted...)
	sc.infra = append(sc.infra, decl)
	cfg := &asserts.DatabaseConfig{Trusted: trusted, OtherPredefined: predefined, Backstore: bs}
	sc.cfg = cfg
	if sc.db, err = asserts.OpenDatabase(cfg); err != nil {
		panic(err)
	}
	if sc.dbE, err = asserts.OpenDatabase(cfg); err != nil {
		panic(err)
	}
	return sc
}

// keysOf returns the recorded keys of an account (also the absent one).
func (sc *c18Scenario) keysOf(acc string) []*c18Key {
	var l []*c18Key
	for _, k := range sc.Keys {
		if k.Owner == acc {
			l = append(l, k)
		}
	}
	return l
}

type c18Instant struct {
	T   time.Time
	Cls string
}

// c18Boundaries lists the instants around a key's validity window.
func c18Boundaries(k *c18Key) []c18Instant {
	l := []c18Instant{
		{k.Since.Add(-400 * c18Day), "far-before"},
		{k.Since.Add(-time.Second), "since-1s"},
		{k.Since.Add(-time.Nanosecond), "since-1ns"},
		{k.Since, "since"},
		{k.Since.Add(time.Second), "since+1s"},
	}
	if k.Until.IsZero() {
		return append(l, c18Instant{k.Since.Add(3650 * c18Day), "far-after-since"})
	}
	return append(l,
		c18Instant{k.Since.Add(k.Until.Sub(k.Since) / 2), "mid"},
		c18Instant{k.Until.Add(-time.Second), "until-1s"},
		c18Instant{k.Until.Add(-time.Nanosecond), "until-1ns"},
		c18Instant{k.Until, "until"},
		c18Instant{k.Until.Add(time.Second), "until+1s"},
		c18Instant{k.Until.Add(400 * c18Day), "far-after"},
	)
}

// headersFor fills it.Filter and builds the type-specific headers (with
// authority-id) and body of a test assertion.
func (sc *c18Scenario) headersFor(it *c18Item, n int, ts string, rng *rand.Rand) (map[string]interface{}, []byte) {
	all := append([]string{sc.Root}, sc.Accounts...)
	pool := sc.filterPool(it.Type)
	it.Filter = pool[rng.Intn(len(pool))]
	sp := c18Pool[sc.spare[rng.Intn(len(sc.spare))]]
	var h map[string]interface{}
	var body []byte
	switch it.Type {
	case "account":
		h = map[string]interface{}{"account-id": fmt.Sprintf("new-acct-%d-%d", sc.Idx, n), "display-name": "New Account",
			"username": it.Filter, "validation": "unproven", "timestamp": ts}
	case "account-key":
		since := sc.T0.Add(time.Duration(rng.Intn(1000)) * c18Day)
		h = map[string]interface{}{"account-id": all[rng.Intn(len(all))], "name": it.Filter,
			"public-key-sha3-384": sp.id, "since": c18Fmt(since, rng)}
		if rng.Intn(2) == 0 {
			h["until"] = c18Fmt(since.Add(time.Duration(1+rng.Intn(900))*c18Day), rng)
		}
		body = sp.enc
	case "snap-declaration":
		h = map[string]interface{}{"series": "16", "snap-id": c18ID32(rng), "snap-name": it.Filter,
			"publisher-id": all[rng.Intn(len(all))], "timestamp": ts}
	case "snap-revision":
		dg := make([]byte, 48)
		rng.Read(dg)
		enc, err := asserts.EncodeDigest(crypto.SHA3_384, dg)
		if err != nil {
			panic(err)
		}
		h = map[string]interface{}{"snap-sha3-384": enc, "snap-id": sc.snapID, "snap-size": fmt.Sprint(1 + rng.Intn(1<<20)),
			"snap-revision": fmt.Sprint(1 + rng.Intn(500)), "developer-id": it.Filter, "timestamp": ts}
	case "model":
		h = map[string]interface{}{"series": "16", "brand-id": it.Authority, "model": it.Filter, "architecture": "amd64",
			"gadget": "pc", "kernel": "pc-kernel", "timestamp": ts}
		if rng.Intn(2) == 0 {
			h["required-snaps"] = []interface{}{"foo", "bar"}
		}
	case "serial":
		h = map[string]interface{}{"brand-id": it.Authority, "model": it.Filter, "serial": fmt.Sprintf("sn-%d", n),
			"device-key": string(sp.enc), "device-key-sha3-384": sp.id, "timestamp": ts}
		if rng.Intn(2) == 0 {
			body = []byte(fmt.Sprintf("hw-id: %d\nnotes: generated\n\nsecond paragraph", rng.Intn(1000)))
		}
	case "validation-set":
		h = map[string]interface{}{"series": "16", "account-id": it.Authority, "name": it.Filter, "sequence": fmt.Sprint(1 + rng.Intn(9)),
			"snaps": []interface{}{map[string]interface{}{"name": "foo", "id": c18ID32(rng), "presence": "required", "revision": "5"},
				map[string]interface{}{"name": "bar", "id": c18ID32(rng), "presence": "optional"}},
			"timestamp": ts}
	case "system-user":
		since := sc.T0.Add(time.Duration(rng.Intn(1000)) * c18Day)
		h = map[string]interface{}{"brand-id": it.Authority, "email": "user@example.com", "series": []interface{}{"16"},
			"models": []interface{}{"alpha-1", "beta-1"}, "name": "Generated User", "username": it.Filter,
			"password": "$6$salt$hash", "since": c18Fmt(since, rng), "until": c18Fmt(since.Add(300*c18Day), rng)}
	}
	h["authority-id"] = it.Authority
	return h, body
}

// newItem generates and signs one test assertion. It returns nil when snapd's
// signing side refuses the generated headers (counted by the caller).
func (sc *c18Scenario) newItem(n int, rng *rand.Rand, prev []*c18Item) (*c18Item, error) {
	it := &c18Item{Idx: n, Type: c18Types[rng.Intn(len(c18Types))], ConsOK: true}
	all := append([]string{sc.Root}, sc.Accounts...)
	if rng.Intn(12) == 0 {
		return sc.newNoAuthorityItem(it, rng)
	}
	if c18RootOnly[it.Type] {
		it.Authority = sc.Root
		if rng.Intn(12) == 0 {
			// knowingly violates the type's cross-check (not a C18 reason)
			it.Authority = sc.Accounts[rng.Intn(len(sc.Accounts))]
			it.ConsOK = false
		}
	} else {
		it.Authority = all[rng.Intn(len(all))]
	}
	// who signs
	own := sc.keysOf(it.Authority)
	claimed := own[rng.Intn(len(own))]
	actual := claimed
	it.Rel = "own"
	switch r := rng.Intn(100); {
	case r < 18:
		var others []*c18Key
		for _, k := range sc.Keys {
			if k.Owner != it.Authority {
				others = append(others, k)
			}
		}
		claimed = others[rng.Intn(len(others))]
		actual = claimed
		it.Rel = "other-account"
	case r < 27:
		// the header names an own key, the signature is made with another private key
		for actual == claimed {
			actual = sc.Keys[rng.Intn(len(sc.Keys))]
		}
		it.Rel = "forged-with-other-private-key"
		it.BadSig = true
	case r < 34 && len(prev) > 0:
		it.Rel = "grafted-signature"
		it.BadSig = true
	}
	it.KeyID = claimed.ID

	// timestamp placed relative to the claimed key's window
	if c18Timestamped[it.Type] {
		it.HasTS = true
		b := c18Boundaries(claimed)
		var pick c18Instant
		if rng.Intn(100) < 45 {
			// inside the window when there is an inside
			pick = c18Instant{claimed.Since, "since"}
			for _, x := range b {
				if x.Cls == "mid" || x.Cls == "far-after-since" {
					pick = x
				}
			}
		} else {
			pick = b[rng.Intn(len(b))]
		}
		it.TS, it.TSClass = pick.T, pick.Cls
	} else {
		it.TSClass = "none"
	}
	ts := c18Fmt(it.TS, rng)

	h, body := sc.headersFor(it, n, ts, rng)
	typ := asserts.Type(it.Type)
	if rng.Intn(4) == 0 {
		h["revision"] = fmt.Sprint(1 + rng.Intn(5))
	}
	it.Headers = h

	a, err := sc.sdb.Sign(typ, h, body, actual.ID)
	if err != nil {
		return nil, err
	}
	switch it.Rel {
	case "forged-with-other-private-key":
		// same headers, but naming the claimed key: take the content as the
		// claimed key would have produced it and attach a signature made over
		// exactly that content with the other private key
		good, err := sc.sdb.Sign(typ, h, body, claimed.ID)
		if err != nil {
			return nil, err
		}
		content, _ := good.Signature()
		a, err = asserts.Decode(c18Join(content, c18RawSign(content, c18Pool[actual.Pool].rsa)))
		if err != nil {
			return nil, fmt.Errorf("forged assertion does not decode: %v", err)
		}
	case "grafted-signature":
		// a genuine signature by the same key, but made over another assertion
		donor := prev[rng.Intn(len(prev))]
		other, err := sc.sdb.Sign(asserts.Type(donor.Type), donor.Headers, donor.a.Body(), claimed.ID)
		if err != nil {
			return nil, err
		}
		content, _ := a.Signature()
		_, sig := other.Signature()
		oc, _ := other.Signature()
		if bytes.Equal(oc, content) {
			return nil, fmt.Errorf("graft donor has identical content")
		}
		a, err = asserts.Decode(c18Join(content, sig))
		if err != nil {
			return nil, fmt.Errorf("grafted assertion does not decode: %v", err)
		}
	}
	it.a = a
	it.enc = asserts.Encode(a)
	return it, nil
}

// newNoAuthorityItem: account-key-request, signed by the key
// it carries or (BadSig) by another one.
func (sc *c18Scenario) newNoAuthorityItem(it *c18Item, rng *rand.Rand) (*c18Item, error) {
	it.Type = c18NoAuthorityTypes[rng.Intn(len(c18NoAuthorityTypes))]
	it.TSClass = "none"
	it.Rel = "self-signed"
	pi := rng.Intn(len(sc.spare))
	sp := c18Pool[sc.spare[pi]]
	signer := sp
	if rng.Intn(3) == 0 {
		it.Rel = "self-signed-with-other-private-key"
		it.BadSig = true
		signer = c18Pool[sc.spare[(pi+1)%len(sc.spare)]]
	}
	all := append([]string{sc.Root}, sc.Accounts...)
	h := map[string]interface{}{"account-id": all[rng.Intn(len(all))], "name": "requested", "public-key-sha3-384": sp.id,
		"since": c18Fmt(sc.T0, rng)}
	if rng.Intn(2) == 0 {
		h["until"] = c18Fmt(sc.T0.Add(100*c18Day), rng)
	}
	body := sp.enc
	it.Headers = h
	a, err := asserts.SignWithoutAuthority(asserts.Type(it.Type), h, body, signer.priv)
	if err != nil {
		return nil, err
	}
	it.a = a
	it.enc = asserts.Encode(a)
	return it, nil
}

func c18Join(content, sig []byte) []byte {
	b := append([]byte{}, content...)
	b = append(b, '\n', '\n')
	return append(b, sig...)
}

func c18WrapB64(raw []byte) []byte {
	flat := base64.StdEncoding.EncodeToString(raw)
	var buf bytes.Buffer
	for len(flat) > 76 {
		buf.WriteString(flat[:76])
		buf.WriteByte('\n')
		flat = flat[76:]
	}
	buf.WriteString(flat)
	buf.WriteByte('\n')
	return buf.Bytes()
}

// c18RawSign makes a v4 OpenPGP binary signature over content with an RSA
// private key, in the container snapd uses (0x01 prefix, base64, 76 columns).
func c18RawSign(content []byte, priv *rsa.PrivateKey) []byte {
	pk := packet.NewRSAPrivateKey(time.Date(2016, 1, 1, 0, 0, 0, 0, time.UTC), priv)
	sig := &packet.Signature{PubKeyAlgo: pk.PubKeyAlgo, Hash: crypto.SHA512, CreationTime: time.Date(2021, 3, 4, 5, 6, 7, 0, time.UTC)}
	h := crypto.SHA512.New()
	h.Write(content)
	if err := sig.Sign(h, pk, &packet.Config{DefaultHash: crypto.SHA512}); err != nil {
		panic(err)
	}
	buf := bytes.NewBuffer([]byte{0x1})
	if err := sig.Serialize(buf); err != nil {
		panic(err)
	}
	return c18WrapB64(buf.Bytes())
}
