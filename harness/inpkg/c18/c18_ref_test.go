// C18 reference acceptance predicate and classification of snapd's errors.
package asserts_test

import (
	"strings"
	"time"
)

func (k *c18Key) validAt(t time.Time) bool {
	return !t.Before(k.Since) && (k.Until.IsZero() || t.Before(k.Until))
}

// admits: does one of the key's constraints admit the assertion (no
// constraints: everything). Written over the generator's own constraint
// records, not over snapd's compiled matchers.
func (k *c18Key) admits(it *c18Item) bool {
	for _, c := range k.Cons {
		if c.Type != it.Type {
			continue
		}
		v, isStr := it.Headers[c.Header].(string)
		if c.Header == "" || (isStr && !c.Prefix && v == c.Pattern) || (isStr && c.Prefix && strings.HasPrefix(v, c.Pattern)) {
			return true
		}
	}
	return len(k.Cons) == 0
}

// c18Ref is the reference: "" when the statement's conditions for acceptance
// all hold, otherwise the first reason (in snapd's pipeline order, which only
// matters for the reason-agreement counters) for which the assertion MUST be
// rejected. It reads only the generator's own records (inDB: key id -> record of
// the account-key currently in the database): which key the assertion
// names, whose key that is, whether its account-key is in the database, the
// key's window and constraints, and whether the generator attached a
// signature that was not made over these bytes by that key.
//
// earliest=true is the SetEarliestTime mode, where the current time is only
// known to be >= now: the key must not have expired by then.
func c18Ref(inDB map[string]*c18Key, it *c18Item, now time.Time, earliest bool) string {
	k := inDB[it.KeyID]
	switch {
	case it.Authority == "": // self-signed type: only "the signature verifies over these bytes"
		if it.BadSig {
			return "bad-signature"
		}
		return ""
	case k == nil:
		return "unknown-key"
	case k.Owner != it.Authority:
		return "key-of-other-authority"
	case !earliest && !k.validAt(now):
		return "key-not-valid-now"
	case earliest && !k.Until.IsZero() && !now.Before(k.Until):
		return "key-not-valid-now"
	case !k.admits(it):
		return "constraints"
	case it.BadSig:
		return "bad-signature"
	case it.HasTS && !k.validAt(it.TS):
		return "timestamp-outside-key-validity"
	}
	return ""
}

// c18Classify maps a snapd Check/Add error to the same vocabulary.
func c18Classify(err error) string {
	if err == nil {
		return ""
	}
	m := err.Error()
	switch {
	case strings.HasPrefix(m, "no matching public key"):
		return "unknown-key"
	case strings.Contains(m, "but expected it from"), strings.Contains(m, "does not match public key from"):
		return "key-of-other-authority"
	case strings.Contains(m, "is signed with expired public key"):
		return "key-not-valid-now"
	case strings.Contains(m, "does not match signing constraints"):
		return "constraints"
	case strings.Contains(m, "failed signature verification"), strings.Contains(m, "cannot decode signature"),
		strings.Contains(m, "signature has spurious trailing data"), strings.Contains(m, "unsupported signature format"),
		strings.Contains(m, "expected signature, got instead"):
		return "bad-signature"
	case strings.Contains(m, "outside of signing key validity"):
		return "timestamp-outside-key-validity"
	case strings.Contains(m, "is not signed by a directly trusted authority"), strings.Contains(m, "is not signed by a store"):
		return "cross-check"
	}
	return "other"
}
