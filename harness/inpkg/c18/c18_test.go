// C18 -- only correctly signed, currently valid assertions are accepted.
//
// The harness is compiled into snapd's asserts test package (package
// asserts_test) so that it can pin the package clock (asserts.MockTimeNow).
// It drives the real Database.Check / Database.Add (default checkers) with
//
//   - generated scenarios (c18_scen_test.go): trusted root, accounts, account
//     keys with windows/constraints in the trusted, predefined and stored sets,
//     assertions of eight types signed by right and wrong keys, the clock swept
//     over each key's validity boundaries; verdicts are compared with the
//     reference predicate c18Ref (c18_ref_test.go);
//   - a mutation monitor (c18_mut_test.go) over every assertion snapd accepted.
package asserts_test

import (
	"bytes"
	"fmt"
	"io"
	"math/rand"
	"testing"
	"time"

	kit "verifkit"

	"github.com/snapcore/snapd/asserts"
)

type c18Mon struct {
	c *kit.Check
	// sizes
	itemsPerScenario  int
	posPerRegion      int
	sweepsPerScen     int
	lifeOps           int
	unexpectedRejects int
}

func (mo *c18Mon) witness(sc *c18Scenario, it *c18Item, extra map[string]interface{}) map[string]interface{} {
	w := map[string]interface{}{
		"case_index": sc.Idx,
		"item":       it,
		"headers":    it.Headers,
		"encoded":    string(it.enc),
		"claimed_key": func() interface{} {
			if k := sc.byID[it.KeyID]; k != nil {
				return k
			}
			return nil
		}(),
		"claimed_key_in_database": sc.inDB[it.KeyID] != nil,
		"root":                    sc.Root,
	}
	var infra []string
	for _, a := range sc.infra {
		infra = append(infra, string(asserts.Encode(a)))
	}
	w["database_assertions"] = infra
	for k, v := range extra {
		w[k] = v
	}
	return w
}

// verdicts runs the three observation modes for one (assertion, now).
func (mo *c18Mon) verdicts(sc *c18Scenario, a asserts.Assertion, now time.Time) (check, add, earliest error) {
	restore := asserts.MockTimeNow(now)
	check = sc.db.Check(a)
	add = sc.db.WithStackedBackstore(asserts.NewMemoryBackstore()).Add(a)
	restore()
	// SetEarliestTime mode must not look at the clock at all
	restore = asserts.MockTimeNow(time.Date(1985, 1, 1, 0, 0, 0, 0, time.UTC))
	sc.dbE.SetEarliestTime(now)
	earliest = sc.dbE.Check(a)
	restore()
	return
}

func (mo *c18Mon) runScenario(idx int) {
	c := mo.c
	rng := kit.CaseRand("c18-scenario", idx)
	sc := c18NewScenario(idx, rng)
	c.Count("scenarios", 1)
	c.Count("keys_in_database", len(sc.inDB))
	for _, k := range sc.Keys {
		c.Count("key_where:"+k.Where, 1)
		if len(k.Cons) > 0 {
			c.Count("keys_constrained", 1)
		}
	}

	var items []*c18Item
	type accepted struct {
		it  *c18Item
		now time.Time
	}
	var acc []accepted
	for n := 0; n < mo.itemsPerScenario; n++ {
		it, err := sc.newItem(n, rng, items)
		if err != nil {
			c.Count("items_not_signable", 1)
			c.Note("last_unsignable", err.Error())
			continue
		}
		items = append(items, it)
		c.Count("items", 1)
		c.Count("items_type:"+it.Type, 1)
		c.Count("items_signer:"+it.Rel, 1)

		k := sc.byID[it.KeyID]
		var nows []c18Instant
		kWhere, kWin, kCons := "none", "none", false
		if k != nil {
			nows = c18Boundaries(k)
			kWhere, kWin, kCons = k.Where, k.WinClass, len(k.Cons) > 0
		}
		nows = append(nows, c18Instant{sc.T0.Add(time.Duration(rng.Intn(4000)-2000) * c18Day), "random"})
		if it.HasTS {
			nows = append(nows, c18Instant{it.TS, "at-timestamp"})
		}
		acceptedAt := time.Time{}
		for _, nw := range nows {
			errC, errA, errE := mo.verdicts(sc, it.a, nw.T)
			for mi, mode := range []string{"check", "add", "check-earliest-time"} {
				err := []error{errC, errA, errE}[mi]
				c.Eval()
				ref := c18Ref(sc.inDB, it, nw.T, mode == "check-earliest-time")
				if mode == "check-earliest-time" && k != nil && k.Until.Equal(k.Since) {
					// a key that is never valid: what "not yet expired" means for it is not
					// fixed by the statement in this mode
					c.Count("earliest_mode_empty_window_noclaim", 1)
					continue
				}
				got := c18Classify(err)
				refCls := ref
				if refCls == "" {
					refCls = "accept"
				}
				c.Count(mode+":reference:"+refCls, 1)
				c.Nontrivial(kit.Sig(it.Type, it.Rel, kWhere, kWin, kCons, it.TSClass, nw.Cls, mode, ref))
				switch {
				case ref != "" && err == nil:
					c.Violation("C18:accepted:"+ref, mo.witness(sc, it, map[string]interface{}{
						"now": nw.T.Format(time.RFC3339Nano), "now_class": nw.Cls, "mode": mode,
						"reference": "must reject: " + ref, "observed": "accepted",
					}))
				case ref != "" && err != nil:
					c.Count("rejected", 1)
					if got == ref {
						c.Count("reject_reason_agrees", 1)
					} else {
						c.Count("reject_reason_differs:"+ref+"/"+got, 1)
					}
				case ref == "" && err == nil:
					c.Count("accepted", 1)
					c.Count("accepted_type:"+it.Type, 1)
					if mode == "check" && acceptedAt.IsZero() {
						acceptedAt = nw.T
					}
				case ref == "" && err != nil:
					if !it.ConsOK && got == "cross-check" {
						c.Count("rejected_by_cross_check_as_generated", 1)
					} else {
						// not a C18 violation (the statement is "only if"), but the
						// scenario is meant to satisfy everything else snapd checks
						c.Count("reference_accepts_snapd_rejects", 1)
						mo.unexpectedRejects++
						c.Note("reference_accepts_snapd_rejects_example", fmt.Sprintf("scenario %d item %d %s now=%s mode=%s: %v", idx, it.Idx, it.Type, nw.Cls, mode, err))
					}
				}
			}
		}
		if !acceptedAt.IsZero() {
			acc = append(acc, accepted{it, acceptedAt})
		}
		if n < 2 && idx < 2 {
			c.Sample(map[string]interface{}{"scenario": idx, "item": it, "headers": it.Headers, "claimed_key": k,
				"claimed_key_in_database": sc.inDB[it.KeyID] != nil, "accepted_by_check_at": acceptedAt.Format(time.RFC3339Nano)})
		}
	}

	// ---- mutation monitor ------------------------------------------------------
	for ai, ac := range acc {
		// donor of a genuine signature made over OTHER content (two generated
		// assertions can be byte-identical in content; a second genuine
		// signature by the rightful key over the very same bytes is not tampering)
		var donor []byte
		myContent, _ := ac.it.a.Signature()
		for off, j := rng.Intn(len(acc)), 0; j < len(acc) && donor == nil; j++ {
			dc, ds := acc[(off+j)%len(acc)].it.a.Signature()
			if !bytes.Equal(dc, myContent) {
				donor = ds
			}
		}
		mo.mutate(sc, ac.it, ac.now, donor, ai < mo.sweepsPerScen, rng)
	}

	// ---- key-lifecycle stream on one long-lived database --------------------------
	mo.runLifecycle(sc)
}

func c18DecodeBoth(b []byte) map[string]asserts.Assertion {
	out := map[string]asserts.Assertion{}
	if a, err := asserts.Decode(b); err == nil {
		out["Decode"] = a
	}
	if a, err := asserts.NewDecoder(bytes.NewReader(b)).Decode(); err == nil && err != io.EOF {
		out["Decoder"] = a
	}
	return out
}

func (mo *c18Mon) mutate(sc *c18Scenario, it *c18Item, now time.Time, donorSig []byte, sweep bool, rng *rand.Rand) {
	c := mo.c
	c.Count("mutated_assertions", 1)
	c.Count("mutated_type:"+it.Type, 1)
	content0, sig0 := it.a.Signature()
	dec0, err := c18DecodeSig(sig0)
	if err != nil {
		panic("C18 harness: accepted assertion with undecodable signature")
	}
	lay := c18FindLayout(it.enc)
	restore := asserts.MockTimeNow(now)
	defer restore()
	kn := mo.newKnown(sc, it, now)

	eval := func(m *c18Mutant) {
		c.Eval()
		c.Count("mutants", 1)
		c.Count("mutants_region:"+m.Region, 1)
		decoded := c18DecodeBoth(m.Bytes)
		if len(decoded) == 0 {
			c.Count("mutant_does_not_decode", 1)
			return
		}
		var judgedKnown [][2][]byte
		for _, path := range []string{"Decode", "Decoder"} {
			a2 := decoded[path]
			if a2 == nil {
				continue
			}
			content2, sig2 := a2.Signature()
			dec2, derr := c18DecodeSig(sig2)
			contentSame := bytes.Equal(content0, content2)
			sigSame := derr == nil && bytes.Equal(dec0, dec2)
			if contentSame && sigSame {
				c.Count("mutant_noclaim_same_content_and_decoded_signature", 1)
				continue
			}
			what := "content"
			if contentSame {
				what = "signature"
			} else if !sigSame {
				what = "content+signature"
			}
			c.Nontrivial(kit.Sig("mutant", it.Type, m.Region, m.Op, path, what))
			c.Count("mutant_claims", 1)
			c.Count("mutant_claims_region:"+m.Region, 1)
			c.Count("mutant_claims_changed:"+what, 1)
			// the same mutant against databases that already hold the genuine
			// assertion (once per distinct decoding; not for the exhaustive bit sweep)
			if m.Op != "sweep-flip-b64-bit" {
				seen := false
				for _, j := range judgedKnown {
					seen = seen || (bytes.Equal(j[0], content2) && bytes.Equal(j[1], sig2))
				}
				if !seen {
					judgedKnown = append(judgedKnown, [2][]byte{content2, sig2})
					sigField := ""
					if contentSame {
						sigField = "undecodable"
						if derr == nil {
							sigField = c18SigDiffField(dec0, dec2)
						}
					}
					kn.judge(m, path, a2, what, sigField)
				}
			}
			errC := sc.db.Check(a2)
			errA := sc.db.WithStackedBackstore(asserts.NewMemoryBackstore()).Add(a2)
			if errC != nil && errA != nil {
				c.Count("mutant_rejected", 1)
				c.Count("mutant_rejected_as:"+c18Classify(errC), 1)
				continue
			}
			var sig string
			field := ""
			if contentSame {
				field = "undecodable"
				if derr == nil {
					field = c18SigDiffField(dec0, dec2)
				}
				if c18ContainerFields[field] {
					sig = "C18:mutation-accepted:signature-container:" + field
				} else {
					sig = "C18:mutation-accepted:signature:" + field
				}
			} else {
				sig = "C18:mutation-accepted:content:" + m.Region
			}
			c.Count("mutant_accepted", 1)
			c.Count("mutant_accepted_op:"+m.Op, 1)
			c.Count("mutant_accepted_field:"+field, 1)
			c.Violation(sig, mo.witness(sc, it, map[string]interface{}{
				"now": now.Format(time.RFC3339Nano), "mutation": m.String(), "decoded_via": path,
				"mutated_encoded": string(m.Bytes), "changed": what, "decoded_signature_field": field,
				"original_decoded_signature_hex": fmt.Sprintf("%x", dec0), "mutated_decoded_signature_hex": fmt.Sprintf("%x", dec2),
				"check_error": fmt.Sprint(errC), "add_error": fmt.Sprint(errA),
				"reference": "decodes, and signed content or decoded signature differ from the accepted original: must be rejected",
			}))
		}
	}

	for _, region := range c18RegionNames {
		offs := lay.regions[region]
		if len(offs) == 0 {
			continue
		}
		for _, op := range c18ByteOps {
			for i := 0; i < mo.posPerRegion; i++ {
				eval(c18ByteMutant(it.enc, region, offs[rng.Intn(len(offs))], op, rng))
			}
		}
	}
	for _, m := range c18Structural(it.enc, lay, donorSig, rng) {
		eval(m)
	}
	// replay forgeries: own random stream, so the case lists above are unchanged
	for _, m := range c18ReplayForgeries(sc, it, lay, kit.CaseRand("c18-replay", sc.Idx*1000+it.Idx)) {
		c.Count("replay_forgeries", 1)
		eval(m)
	}
	if sweep {
		c.Count("signature_sweeps", 1)
		c18SigSweep(it.enc, lay, eval)
	}
}

func TestVerifC18(t *testing.T) {
	c := kit.New("C18", "exploration")
	defer c.Done(t)
	c.Rule("A case is one (scenario, assertion, clock value, mode) evaluation or one mutant of an accepted assertion. " +
		"Scenarios are generated from (VERIF_SEED, shard, scenario index): root + 2-3 accounts, 10-11 account keys placed in the trusted / predefined / stored sets or left out, " +
		"each with a generated since/until window (forever, 1 s .. 400 d, empty, sub-second) and optional constraints; 8 assertion types signed by an own key, a key of another account, " +
		"another private key under an own key's id, or carrying a signature grafted from another assertion; timestamps and the clock placed at since-1s/-1ns/since/+1s/mid/until-1s/-1ns/until/+1s/far. " +
		"Non-trivial evaluation signature = (type, signer relation, key location, window class, constrained, timestamp class, clock class, mode, reference verdict). " +
		"A mutant is non-trivial when it still decodes (Decode or stream Decoder) and its signed content or decoded signature differs from the original; signature = (type, region, operation, decoder, what changed). "+
		"Replay stream: every such mutant except the exhaustive signature bit sweep, plus 'replay' forgeries (signature bytes and primary key kept; revision raised/equal/lowered combined with header value edits, header deletion/addition, body edits, format, authority or signing key swapped), is also judged on databases that already hold the genuine assertion (stored, stacked-under, predefined, trusted); signature = (type, where the genuine one is held, region, operation, decoder, what changed).")
	c.Assume("RSA-1024 test keys are generated per process with crypto/rand and OpenPGP signatures embed the real creation time, so key ids and signature bytes are not a function of the seed; every other choice (scenario, windows, headers, clock values, mutation sites) is.")
	c.Assume("Infrastructure assertions (accounts, account-keys, one snap-declaration) are placed into the backstores directly, without Check; the statement is about the assertion being checked, not its key's own chain.")
	c.Assume("'decoded signature' = standard base64 decoding of the signature part; SetEarliestTime mode: the key must not be expired at the earliest time (no claim for keys with an empty window).")

	mo := &c18Mon{c: c, itemsPerScenario: kit.Scale(24, 36), posPerRegion: kit.Scale(3, 6), sweepsPerScen: kit.Scale(1, 2), lifeOps: kit.Scale(60, 120)}
	nScen := kit.Scale(36, 120)
	c18InitPool(16)
	for idx := 0; idx < nScen; idx++ {
		if only := kit.OnlyCase(); only >= 0 && only != idx {
			continue
		}
		mo.runScenario(idx)
	}
	if mo.unexpectedRejects > 0 {
		c.Inconclusive(fmt.Sprintf("snapd rejected %d evaluations the reference accepts (scenario does not satisfy a check outside the statement, or acceptance is broken); see notes.reference_accepts_snapd_rejects_example", mo.unexpectedRejects))
	}
	if kit.OnlyCase() < 0 {
		c.Floor("accepted", 200)
		c.Floor("mutant_claims", 2000)
		c.Floor("mutant_rejected", 2000)
		for _, r := range []string{"unknown-key", "key-of-other-authority", "key-not-valid-now", "constraints", "bad-signature", "timestamp-outside-key-validity", "accept"} {
			c.Floor("check:reference:"+r, 20)
			c.Floor("add:reference:"+r, 20)
		}
		c.Floor("check-earliest-time:reference:key-not-valid-now", 20)
		for _, r := range []string{"unknown-key", "key-of-other-authority", "key-not-valid-now", "constraints", "timestamp-outside-key-validity", "accept"} {
			c.Floor("life:primed-check:reference:"+r, 10)
		}
		c.Floor("life_revisions_added", 100)
		c.Floor("life_uses_after_use_then_revision", 100)
		c.Floor("life_uses_whose_verdict_the_revision_changed", 30)
		c.Floor("life_rejected_although_an_older_revision_admits", 30)
		c.Floor("life_first_uses_after_several_revisions", 5)
		for _, r := range c18RegionNames {
			c.Floor("mutants_region:"+r, 300)
		}
		c.Floor("mutants_region:replay", 1000)
		c.Floor("known_claims", 5000)
		c.Floor("known_rejected", 5000)
		c.Floor("known_claims_changed:content", 2000)
		c.Floor("known_claims_changed:signature", 1000)
		c.Floor("known_control_forged_first_rejected_then_genuine_added", 1000)
		for _, w := range []string{"stored", "stacked-under", "predefined", "trusted"} {
			c.Floor("known_claims_where:"+w, 300)
		}
		for _, r := range []string{"revision-equal", "revision-raised", "revision-raised-far", "revision-lowered"} {
			c.Floor("known_claims_replay_revision:"+r, 100)
		}
		// separator and body-length byte mutants practically never decode
		for _, r := range []string{"header-name", "header-value", "header-syntax", "header-entry", "body", "signature"} {
			c.Floor("mutant_claims_region:"+r, 100)
		}
	}
}
