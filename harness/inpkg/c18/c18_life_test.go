// C18 key-lifecycle stream: ONE long-lived Database per scenario on which
// uses of a key (Check + Add of assertions it signed) are interleaved with
// Adds of newer revisions of that key's account-key (validity ended, moved,
// emptied, widened; constraints added or removed), in both orders. Every
// verdict is judged by the same reference predicate, computed from the LATEST
// successfully added revision of the claimed key's account-key at that moment,
// and re-judged on a database freshly opened over the same backstore.
package asserts_test

import (
	"fmt"
	"math/rand"
	"time"

	kit "verifkit"

	"github.com/snapcore/snapd/asserts"
)

type c18LifeKey struct {
	pool     int
	id       string
	owner    string
	revs     []*c18Key // successfully added revisions, oldest first
	attempts []*c18Key // every generated revision (their boundaries feed the clock)
	nextRev  int
	usedAt   int // number of revisions present when the key was last used on the long-lived database (-1: never)
}

type c18Life struct {
	mo     *c18Mon
	sc     *c18Scenario
	rng    *rand.Rand
	bs     asserts.Backstore
	db     *asserts.Database // long-lived ("primed")
	keys   []*c18LifeKey
	latest map[string]*c18Key // key id -> latest added revision (plus R0)
	log    []string
	hint   time.Time // a recently used clock value
}

func (lf *c18Life) fresh() *asserts.Database {
	db, err := asserts.OpenDatabase(&asserts.DatabaseConfig{Trusted: lf.sc.lifeBase, Backstore: lf.bs})
	if err != nil {
		panic(err)
	}
	return db
}

func c18NewLife(mo *c18Mon, sc *c18Scenario) *c18Life {
	lf := &c18Life{mo: mo, sc: sc, rng: kit.CaseRand("c18-life", sc.Idx), bs: asserts.NewMemoryBackstore(), latest: map[string]*c18Key{}}
	for _, a := range sc.infra {
		if a.Type() == asserts.SnapDeclarationType || (a.Type() == asserts.AccountType && a.HeaderString("account-id") != sc.Root) {
			if err := lf.bs.Put(a.Type(), a); err != nil {
				panic(err)
			}
		}
	}
	lf.db = lf.fresh()
	lf.latest[sc.r0.ID] = sc.r0
	owners := []string{sc.Root, sc.Accounts[0], sc.Accounts[0], sc.Accounts[1]}
	for i, o := range owners {
		p := sc.spare[i%len(sc.spare)]
		lf.keys = append(lf.keys, &c18LifeKey{pool: p, id: c18Pool[p].id, owner: o, usedAt: -1})
		if i+1 >= len(sc.spare) {
			break
		}
	}
	lf.hint = sc.T0
	return lf
}

// instants: boundaries of every revision generated so far for the key (so
// that instants valid under one revision and invalid under another abound).
func (lf *c18Life) instant(lk *c18LifeKey) c18Instant {
	if len(lk.attempts) == 0 || lf.rng.Intn(10) == 0 {
		return c18Instant{lf.sc.T0.Add(time.Duration(lf.rng.Intn(2000)-1000) * c18Day), "random"}
	}
	ri := lf.rng.Intn(len(lk.attempts))
	if lf.rng.Intn(2) == 0 {
		ri = len(lk.attempts) - 1
	}
	b := c18Boundaries(lk.attempts[ri])
	x := b[lf.rng.Intn(len(b))]
	if ri != len(lk.attempts)-1 {
		x.Cls += "-of-older-revision"
	}
	return x
}

// judge observes Check and Add on the long-lived database and on a fresh one
// over the same backstore, compares all with the reference, and reports
// whether the persistent Add succeeded.
func (lf *c18Life) judge(op int, it *c18Item, lk *c18LifeKey, now c18Instant, sigParts ...interface{}) bool {
	c := lf.mo.c
	ref := c18Ref(lf.latest, it, now.T, false)
	restore := asserts.MockTimeNow(now.T)
	fdb := lf.fresh()
	errs := map[string]error{}
	errs["primed-check"] = lf.db.Check(it.a)
	errs["fresh-check"] = fdb.Check(it.a)
	errs["fresh-add"] = fdb.WithStackedBackstore(asserts.NewMemoryBackstore()).Add(it.a)
	errs["primed-add"] = lf.db.Add(it.a) // persistent
	restore()
	lf.hint = now.T

	// would an earlier revision of the claimed key have admitted it?
	stale := false
	var claimedRevs []*c18Key
	for _, k := range lf.keys {
		if k.id == it.KeyID {
			claimedRevs = k.revs
		}
	}
	if ref != "" && len(claimedRevs) > 1 {
		for _, old := range claimedRevs[:len(claimedRevs)-1] {
			if c18Ref(map[string]*c18Key{old.ID: old}, it, now.T, false) == "" {
				stale = true
			}
		}
	}
	refCls := ref
	if refCls == "" {
		refCls = "accept"
	}
	wit := func(mode string, extra map[string]interface{}) map[string]interface{} {
		w := lf.mo.witness(lf.sc, it, map[string]interface{}{
			"stream": "key-lifecycle", "operation_index": op, "mode": mode, "now": now.T.Format(time.RFC3339Nano), "now_class": now.Cls,
			"claimed_key_revisions_added_so_far": claimedRevs, "claimed_key_latest": lf.latest[it.KeyID],
			"operations_so_far": lf.log, "reference": "must reject: " + ref,
		})
		delete(w, "database_assertions")
		delete(w, "claimed_key")
		delete(w, "claimed_key_in_database")
		for k, v := range extra {
			w[k] = v
		}
		return w
	}
	for _, mode := range []string{"primed-check", "fresh-check", "fresh-add", "primed-add"} {
		err := errs[mode]
		c.Eval()
		c.Count("life:"+mode+":reference:"+refCls, 1)
		c.Nontrivial(kit.Sig(append([]interface{}{"life", it.Type, it.Rel, it.TSClass, now.Cls, mode, ref, stale}, sigParts...)...))
		switch {
		case ref != "" && err == nil:
			sig := "C18:accepted:" + ref
			// stale: an older revision admits it, and only the long-lived database
			// (not a fresh one over the same backstore) accepts it
			if fresh := map[string]string{"primed-check": "fresh-check", "primed-add": "fresh-add"}[mode]; stale && fresh != "" && errs[fresh] != nil {
				sig = "C18:accepted:stale-account-key-revision:" + ref
			}
			c.Violation(sig, wit(mode, map[string]interface{}{"observed": "accepted", "an_older_revision_of_the_key_would_admit_it": stale}))
		case ref != "" && err != nil:
			c.Count("life_rejected", 1)
			if stale {
				c.Count("life_rejected_although_an_older_revision_admits", 1)
			}
			if got := c18Classify(err); got == ref {
				c.Count("reject_reason_agrees", 1)
			} else {
				c.Count("reject_reason_differs:"+ref+"/"+got, 1)
			}
		case ref == "" && err == nil:
			c.Count("life_accepted", 1)
		default:
			c.Count("reference_accepts_snapd_rejects", 1)
			lf.mo.unexpectedRejects++
			c.Note("reference_accepts_snapd_rejects_example", fmt.Sprintf("scenario %d lifecycle op %d %s now=%s mode=%s: %v", lf.sc.Idx, op, it.Type, now.Cls, mode, err))
		}
	}
	// differential: primed vs fresh over the same backstore
	for _, pair := range [][2]string{{"primed-check", "fresh-check"}, {"primed-add", "fresh-add"}} {
		pe, fe := errs[pair[0]], errs[pair[1]]
		switch {
		case (pe == nil) == (fe == nil):
			c.Count("life_primed_fresh_agree", 1)
		case pe == nil:
			c.Violation("C18:primed-vs-fresh:primed-database-accepts-what-a-fresh-one-rejects", wit(pair[0], map[string]interface{}{
				"observed": "accepted by the long-lived database", "fresh_database_error": fe.Error()}))
		default:
			// stricter than a fresh database: outside an only-if statement
			c.Count("life_primed_rejects_fresh_accepts", 1)
			lf.mo.unexpectedRejects++
			c.Note("reference_accepts_snapd_rejects_example", fmt.Sprintf("scenario %d lifecycle op %d: long-lived database rejects (%v), fresh one accepts", lf.sc.Idx, op, pe))
		}
	}
	return errs["primed-add"] == nil
}

func (lf *c18Life) revise(op int) {
	c, sc, rng := lf.mo.c, lf.sc, lf.rng
	lk := lf.keys[rng.Intn(len(lf.keys))]
	rec := &c18Key{Pool: lk.pool, ID: lk.id, Owner: lk.owner, Where: "stored", Name: fmt.Sprintf("life-%d", lk.pool), enc: c18Pool[lk.pool].enc}
	durs := []time.Duration{time.Second, 90 * time.Second, time.Hour, 30 * c18Day, 400 * c18Day}
	d := durs[rng.Intn(len(durs))]
	switch r := rng.Intn(100); {
	case r < 30: // ended before the recently used clock value
		rec.WinClass = "ended-before-recent-use"
		rec.Until = lf.hint.Add(-time.Duration(rng.Intn(3)) * time.Second).Truncate(time.Second)
		rec.Since = rec.Until.Add(-d)
	case r < 45: // not started yet
		rec.WinClass = "starts-after-recent-use"
		rec.Since = lf.hint.Add(time.Duration(1+rng.Intn(3)) * time.Second).Truncate(time.Second)
		rec.Until = rec.Since.Add(d)
	case r < 65:
		rec.WinClass = "covers-recent-use"
		rec.Since = lf.hint.Add(-d / 2).Truncate(time.Second)
		rec.Until = rec.Since.Add(d)
	case r < 85:
		rec.WinClass = "forever"
		rec.Since = lf.hint.Add(-time.Duration(1+rng.Intn(2000)) * c18Day).Truncate(time.Second)
	case r < 92:
		rec.WinClass = "empty"
		rec.Since = lf.hint.Truncate(time.Second)
		rec.Until = rec.Since
	default:
		sc.genWindow(rng, rec)
	}
	if rng.Intn(100) < 40 {
		types := []string{"model", "serial", "validation-set", "system-user"}
		if lk.owner == sc.Root {
			types = []string{"account", "account-key", "snap-declaration", "snap-revision", "model"}
		}
		sc.genCons(rng, rec, types)
	}
	// who signs the revision: R0, or (sometimes) the root's own lifecycle key
	signer := sc.r0.ID
	var signerLK *c18LifeKey
	if lf.keys[0] != lk && rng.Intn(5) == 0 {
		signerLK = lf.keys[0]
		signer = signerLK.id
	}
	h := map[string]interface{}{"authority-id": sc.Root, "account-id": rec.Owner, "name": rec.Name, "public-key-sha3-384": rec.ID,
		"since": c18Fmt(rec.Since, rng), "revision": fmt.Sprint(lk.nextRev)}
	if !rec.Until.IsZero() {
		h["until"] = c18Fmt(rec.Until, rng)
	}
	if len(rec.Cons) > 0 {
		h["format"] = "1"
		h["constraints"] = c18ConsHeader(rec.Cons)
	}
	if lk.nextRev == 0 {
		delete(h, "revision")
	}
	a, err := sc.sdb.Sign(asserts.AccountKeyType, h, rec.enc, signer)
	if err != nil {
		panic(fmt.Errorf("C18 harness cannot sign account-key revision: %v", err))
	}
	it := &c18Item{Idx: op, Type: "account-key", Authority: sc.Root, Rel: "own", KeyID: signer, TSClass: "none", Headers: h, ConsOK: true, a: a, enc: asserts.Encode(a)}
	now := c18Instant{sc.T0.Add(time.Duration(rng.Intn(2000)-1000) * c18Day), "random"}
	if signerLK != nil {
		now = lf.instant(signerLK)
	}
	lk.attempts = append(lk.attempts, rec)
	lf.log = append(lf.log, fmt.Sprintf("#%d add account-key of %s (key pool %d) revision %d: %s since=%s until=%s constraints=%s, signed by %s, clock %s",
		op, rec.Owner, rec.Pool, lk.nextRev, rec.WinClass, rec.Since.Format(time.RFC3339Nano), rec.Until.Format(time.RFC3339Nano), kit.JSON(rec.Cons),
		map[bool]string{true: "root lifecycle key", false: "R0"}[signerLK != nil], now.T.Format(time.RFC3339Nano)))
	c.Count("life_ops_revise", 1)
	if lk.usedAt >= 0 {
		c.Count("life_revisions_after_first_use", 1)
	} else {
		c.Count("life_revisions_before_first_use", 1)
	}
	if signerLK != nil {
		signerLK.usedAt = len(signerLK.revs)
	}
	added := lf.judge(op, it, lk, now, "revise", len(rec.Cons) > 0, rec.WinClass, signerLK != nil)
	lk.nextRev++
	if added {
		lk.revs = append(lk.revs, rec)
		lf.latest[lk.id] = rec
		c.Count("life_revisions_added", 1)
		lf.log[len(lf.log)-1] += " -> added"
	} else {
		c.Count("life_revisions_rejected", 1)
		lf.log[len(lf.log)-1] += " -> rejected"
	}
}

func (lf *c18Life) use(op int) {
	c, sc, rng := lf.mo.c, lf.sc, lf.rng
	lk := lf.keys[rng.Intn(len(lf.keys))]
	it := &c18Item{Idx: op, Authority: lk.owner, Rel: "own", KeyID: lk.id, ConsOK: true}
	if rng.Intn(5) == 0 {
		all := append([]string{sc.Root}, sc.Accounts...)
		for it.Authority == lk.owner {
			it.Authority = all[rng.Intn(len(all))]
		}
		it.Rel = "other-account"
	}
	types := []string{"model", "serial", "validation-set", "system-user"}
	if it.Authority == sc.Root {
		types = []string{"account", "snap-declaration", "snap-revision", "model", "serial", "validation-set", "system-user"}
	}
	it.Type = types[rng.Intn(len(types))]
	it.TSClass = "none"
	if c18Timestamped[it.Type] {
		it.HasTS = true
		x := lf.instant(lk)
		if n := len(lk.revs); n > 0 && rng.Intn(2) == 0 {
			// inside the latest window when it has an inside
			for _, y := range c18Boundaries(lk.revs[n-1]) {
				if y.Cls == "mid" || y.Cls == "far-after-since" {
					x = y
				}
			}
		}
		it.TS, it.TSClass = x.T, x.Cls
	}
	h, body := sc.headersFor(it, 100000+op, c18Fmt(it.TS, rng), rng)
	h["revision"] = fmt.Sprint(op + 1) // persistent Adds of the same primary key stay acceptable
	it.Headers = h
	a, err := sc.sdb.Sign(asserts.Type(it.Type), h, body, lk.id)
	if err != nil {
		c.Count("items_not_signable", 1)
		c.Note("last_unsignable", err.Error())
		return
	}
	it.a, it.enc = a, asserts.Encode(a)
	now := lf.instant(lk)
	lf.log = append(lf.log, fmt.Sprintf("#%d check+add %s by %s signed with key pool %d (%d revisions added), clock %s (%s)", op, it.Type, it.Authority, lk.pool, len(lk.revs), now.T.Format(time.RFC3339Nano), now.Cls))
	c.Count("life_ops_use", 1)
	usedBefore := lk.usedAt >= 0
	revisedSinceUse := usedBefore && len(lk.revs) > lk.usedAt
	if revisedSinceUse {
		c.Count("life_uses_after_use_then_revision", 1) // step 3 of use -> revise -> use
		// verdict under the revision present at the last use (none: unknown key) vs the latest
		prevAccepts := false
		if lk.usedAt > 0 {
			prev := lk.revs[lk.usedAt-1]
			prevAccepts = c18Ref(map[string]*c18Key{prev.ID: prev}, it, now.T, false) == ""
		}
		if prevAccepts != (c18Ref(lf.latest, it, now.T, false) == "") {
			c.Count("life_uses_whose_verdict_the_revision_changed", 1)
		}
	} else if !usedBefore && len(lk.revs) > 1 {
		c.Count("life_first_uses_after_several_revisions", 1)
	}
	nrev := len(lk.revs)
	if nrev > 3 {
		nrev = 3
	}
	lk.usedAt = len(lk.revs)
	lf.judge(op, it, lk, now, "use", nrev, usedBefore, revisedSinceUse)
}

func (mo *c18Mon) runLifecycle(sc *c18Scenario) {
	lf := c18NewLife(mo, sc)
	for op := 0; op < mo.lifeOps; op++ {
		if op < 2 || lf.rng.Intn(100) < 35 {
			lf.revise(op)
		} else {
			lf.use(op)
		}
	}
}
