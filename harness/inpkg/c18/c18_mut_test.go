// C18 mutation monitor: byte-level and structural mutations of encoded
// assertions that snapd accepted. A mutant that still decodes and whose signed
// content or decoded signature bytes differ from the original must be rejected.
package asserts_test

import (
	"bytes"
	"encoding/base64"
	"fmt"
	"math/rand"
	"strconv"
	"strings"
)

var c18nlnl = []byte("\n\n")

const c18B64 = "ABCDEFGHIJKLMNOPQRSTUVWXYZabcdefghijklmnopqrstuvwxyz0123456789+/"

// c18DecodeSig: the decoded signature bytes of an encoded signature (standard
// base64; line breaks are not part of it).
func c18DecodeSig(enc []byte) ([]byte, error) {
	buf := make([]byte, base64.StdEncoding.DecodedLen(len(enc)))
	n, err := base64.StdEncoding.Decode(buf, enc)
	return buf[:n], err
}

// c18Layout describes where the regions of an encoded assertion lie.
type c18Layout struct {
	regions  map[string][]int
	entries  [][2]int // top-level header entries [start,end) incl. continuation lines, without trailing \n
	headEnd  int
	bodyOff  int // -1: no body
	sigSplit int
}

var c18RegionNames = []string{"header-name", "header-value", "header-syntax", "body-length", "separator", "body", "signature"}

func c18FindLayout(enc []byte) *c18Layout {
	l := &c18Layout{regions: map[string][]int{}, bodyOff: -1}
	add := func(r string, from, to int) {
		for i := from; i < to; i++ {
			l.regions[r] = append(l.regions[r], i)
		}
	}
	l.sigSplit = bytes.LastIndex(enc, c18nlnl)
	content := enc[:l.sigSplit]
	l.headEnd = len(content)
	if hb := bytes.Index(content, c18nlnl); hb >= 0 {
		l.headEnd = hb
		l.bodyOff = hb + 2
		add("separator", hb, hb+2)
		add("body", hb+2, len(content))
	}
	add("separator", l.sigSplit, l.sigSplit+2)
	add("signature", l.sigSplit+2, len(enc))
	pos := 0
	for pos < l.headEnd {
		le := bytes.IndexByte(enc[pos:l.headEnd], '\n')
		if le < 0 {
			le = l.headEnd
		} else {
			le += pos
		}
		line := enc[pos:le]
		if len(line) > 0 && line[0] != ' ' {
			if n := len(l.entries); n > 0 {
				l.entries[n-1][1] = pos - 1
			}
			l.entries = append(l.entries, [2]int{pos, le})
			colon := bytes.IndexByte(line, ':')
			add("header-name", pos, pos+colon)
			vstart := pos + colon + 1
			if vstart < le && enc[vstart] == ' ' {
				vstart++
			}
			add("header-syntax", pos+colon, vstart)
			if string(line[:colon]) == "body-length" {
				add("body-length", vstart, le)
			} else {
				add("header-value", vstart, le)
			}
		} else {
			ind := 0
			for ind < len(line) && line[ind] == ' ' {
				ind++
			}
			add("header-syntax", pos, pos+ind)
			add("header-value", pos+ind, le)
		}
		if le < l.headEnd {
			add("header-syntax", le, le+1)
		}
		pos = le + 1
	}
	if n := len(l.entries); n > 0 {
		l.entries[n-1][1] = l.headEnd
	}
	return l
}

type c18Mutant struct {
	Region string
	Op     string
	Pos    int
	Bytes  []byte
}

var c18InsertAlphabet = []byte("\n :-a0A=/+z\t#")

func c18ByteMutant(enc []byte, region string, pos int, op string, rng *rand.Rand) *c18Mutant {
	m := &c18Mutant{Region: region, Op: op, Pos: pos}
	switch op {
	case "flip-bit":
		m.Bytes = append([]byte{}, enc...)
		m.Bytes[pos] ^= 1 << uint(rng.Intn(8))
	case "replace":
		m.Bytes = append([]byte{}, enc...)
		for m.Bytes[pos] == enc[pos] {
			if rng.Intn(2) == 0 {
				m.Bytes[pos] = c18B64[rng.Intn(64)]
			} else {
				m.Bytes[pos] = c18InsertAlphabet[rng.Intn(len(c18InsertAlphabet))]
			}
		}
	case "insert":
		b := c18InsertAlphabet[rng.Intn(len(c18InsertAlphabet))]
		if rng.Intn(2) == 0 {
			b = c18B64[rng.Intn(64)]
		}
		m.Bytes = append(append(append([]byte{}, enc[:pos]...), b), enc[pos:]...)
	case "delete":
		m.Bytes = append(append([]byte{}, enc[:pos]...), enc[pos+1:]...)
	case "duplicate":
		m.Bytes = append(append(append([]byte{}, enc[:pos+1]...), enc[pos]), enc[pos+1:]...)
	}
	return m
}

var c18ByteOps = []string{"flip-bit", "replace", "insert", "delete", "duplicate"}

// c18SigSweep: every bit of every base64 character of the signature flipped.
func c18SigSweep(enc []byte, l *c18Layout, f func(*c18Mutant)) {
	for _, pos := range l.regions["signature"] {
		idx := strings.IndexByte(c18B64, enc[pos])
		if idx < 0 {
			continue
		}
		for b := 0; b < 6; b++ {
			m := &c18Mutant{Region: "signature", Op: "sweep-flip-b64-bit", Pos: pos, Bytes: append([]byte{}, enc...)}
			m.Bytes[pos] = c18B64[idx^(1<<uint(b))]
			f(m)
		}
	}
}

// ---- decoded signature layout ---------------------------------------------------

type c18SigFields struct {
	ok                                                   bool
	bodyStart, hashedLenOff, unhashedLenOff, unhashedEnd int
	hashTagOff, mpiLenOff, mpiOff                        int
}

// c18ParseSig locates the fields of a decoded snapd signature: 0x01, an
// OpenPGP packet header, then a v4 signature packet body.
func c18ParseSig(d []byte) (f c18SigFields) {
	if len(d) < 4 || d[0] != 1 || d[1]&0x80 == 0 {
		return
	}
	p := 2
	if d[1]&0x40 != 0 { // new format
		switch {
		case d[2] < 192:
			p = 3
		case d[2] < 224:
			p = 4
		case d[2] == 255:
			p = 7
		default:
			return
		}
	} else {
		switch d[1] & 3 {
		case 0:
			p = 3
		case 1:
			p = 4
		case 2:
			p = 6
		default:
			return
		}
	}
	f.bodyStart = p
	if len(d) < p+6 || d[p] != 4 {
		return
	}
	f.hashedLenOff = p + 4
	hl := int(d[p+4])<<8 | int(d[p+5])
	f.unhashedLenOff = p + 6 + hl
	if len(d) < f.unhashedLenOff+2 {
		return
	}
	ul := int(d[f.unhashedLenOff])<<8 | int(d[f.unhashedLenOff+1])
	f.unhashedEnd = f.unhashedLenOff + 2 + ul
	f.hashTagOff = f.unhashedEnd
	f.mpiLenOff = f.hashTagOff + 2
	f.mpiOff = f.mpiLenOff + 2
	if len(d) < f.mpiOff {
		return
	}
	f.ok = true
	return
}

// split returns the named fields of a parsed decoded signature, in order.
func (f c18SigFields) split(d []byte) [][2]interface{} {
	return [][2]interface{}{
		{"format-prefix", d[:1]},
		{"packet-header", d[1:f.bodyStart]},
		{"version-type-algorithms", d[f.bodyStart : f.bodyStart+4]},
		{"hashed-subpackets", d[f.hashedLenOff:f.unhashedLenOff]},
		{"unhashed-subpackets", d[f.unhashedLenOff:f.unhashedEnd]},
		{"hash-tag", d[f.hashTagOff:f.mpiLenOff]},
		{"mpi-bitlength", d[f.mpiLenOff:f.mpiOff]},
		{"mpi", d[f.mpiOff:]},
	}
}

// c18SigDiffField names the fields in which two decoded signatures differ
// ("+"-joined, in packet order). A differing packet header is only named when
// nothing else differs (the packet length follows every change of size).
func c18SigDiffField(orig, mut []byte) string {
	fo, fm := c18ParseSig(orig), c18ParseSig(mut)
	if !fo.ok || !fm.ok {
		return "unparsed"
	}
	so, sm := fo.split(orig), fm.split(mut)
	var names []string
	for i := range so {
		if !bytes.Equal(so[i][1].([]byte), sm[i][1].([]byte)) {
			names = append(names, so[i][0].(string))
		}
	}
	if len(names) > 1 && names[0] == "packet-header" {
		names = names[1:]
	} else if len(names) > 1 && names[1] == "packet-header" {
		names = append(names[:1], names[2:]...)
	}
	return strings.Join(names, "+")
}

// fields of the OpenPGP container that the signature does not cover
var c18ContainerFields = map[string]bool{"packet-header": true, "unhashed-subpackets": true, "mpi-bitlength": true}

func c18PacketHeader(oldFormat bool, n int) []byte {
	if oldFormat {
		return []byte{0x80 | 2<<2 | 1, byte(n >> 8), byte(n)}
	}
	switch {
	case n < 192:
		return []byte{0xC2, byte(n)}
	case n < 8384:
		n -= 192
		return []byte{0xC2, byte(n>>8) + 192, byte(n)}
	}
	return []byte{0xC2, 255, byte(n >> 24), byte(n >> 16), byte(n >> 8), byte(n)}
}

// c18Structural builds the structural mutants of one encoded assertion.
func c18Structural(enc []byte, l *c18Layout, donorSig []byte, rng *rand.Rand) []*c18Mutant {
	var out []*c18Mutant
	mk := func(region, op string, b []byte) {
		if b != nil && !bytes.Equal(b, enc) {
			out = append(out, &c18Mutant{Region: region, Op: op, Pos: -1, Bytes: b})
		}
	}
	cat := func(parts ...[]byte) []byte { return bytes.Join(parts, nil) }
	ne := len(l.entries)
	// header entries: delete / duplicate / swap neighbours / add
	for _, i := range []int{rng.Intn(ne), rng.Intn(ne)} {
		e := l.entries[i]
		if i == 0 {
			mk("header-entry", "delete-entry", cat(enc[e[1]+1:]))
		} else {
			mk("header-entry", "delete-entry", cat(enc[:e[0]-1], enc[e[1]:]))
		}
		mk("header-entry", "duplicate-entry", cat(enc[:e[1]], []byte("\n"), enc[e[0]:e[1]], enc[e[1]:]))
		if i+1 < ne {
			n := l.entries[i+1]
			mk("header-entry", "swap-entries", cat(enc[:e[0]], enc[n[0]:n[1]], []byte("\n"), enc[e[0]:e[1]], enc[n[1]:]))
		}
	}
	last := l.entries[ne-1]
	mk("header-entry", "add-entry", cat(enc[:last[0]], []byte("zz-extra: 1\n"), enc[last[0]:]))
	mk("header-entry", "add-entry-after-sign-key", cat(enc[:l.headEnd], []byte("\nzz-extra: 1"), enc[l.headEnd:]))
	// body / body-length
	if l.bodyOff >= 0 {
		blr := l.regions["body-length"]
		if len(blr) > 0 {
			n, _ := strconv.Atoi(string(enc[blr[0] : blr[len(blr)-1]+1]))
			for _, d := range []int{-1, 1} {
				mk("body-length", "change-declared-length", cat(enc[:blr[0]], []byte(strconv.Itoa(n+d)), enc[blr[len(blr)-1]+1:]))
			}
			mk("body", "append-and-fix-length", cat(enc[:blr[0]], []byte(strconv.Itoa(n+1)), enc[blr[len(blr)-1]+1:l.sigSplit], []byte("x"), enc[l.sigSplit:]))
			mk("body", "truncate-and-fix-length", cat(enc[:blr[0]], []byte(strconv.Itoa(n-1)), enc[blr[len(blr)-1]+1:l.sigSplit-1], enc[l.sigSplit:]))
		}
		mk("body", "drop-body-keep-length", cat(enc[:l.headEnd], enc[l.sigSplit:]))
	} else {
		mk("body", "add-body-without-length", cat(enc[:l.headEnd], []byte("\n\nbody"), enc[l.sigSplit:]))
		mk("body", "add-body-with-length", cat(enc[:last[0]], []byte("body-length: 4\n"), enc[last[0]:l.headEnd], []byte("\n\nbody"), enc[l.sigSplit:]))
	}
	// signature level
	sig := enc[l.sigSplit+2:]
	if donorSig != nil {
		mk("signature", "graft-other-signature", cat(enc[:l.sigSplit+2], donorSig))
	}
	mk("signature", "append-after-signature", cat(enc, []byte("AAAA\n")))
	mk("signature", "truncate-signature", enc[:len(enc)-5])
	flat := bytes.ReplaceAll(sig, []byte("\n"), nil)
	mk("signature", "rewrap-unwrapped", cat(enc[:l.sigSplit+2], flat, []byte("\n")))
	var w64 []byte
	for i := 0; i < len(flat); i += 64 {
		e := i + 64
		if e > len(flat) {
			e = len(flat)
		}
		w64 = append(append(w64, flat[i:e]...), '\n')
	}
	mk("signature", "rewrap-64-columns", cat(enc[:l.sigSplit+2], w64))
	// re-encodings of the OpenPGP container around the same signature value
	if d, err := c18DecodeSig(sig); err == nil {
		if f := c18ParseSig(d); f.ok {
			body := d[f.bodyStart:]
			reenc := func(op string, hdr, body []byte) {
				mk("signature", op, cat(enc[:l.sigSplit+2], c18WrapB64(cat([]byte{1}, hdr, body))))
			}
			reenc("reencode-old-format-packet-header", c18PacketHeader(true, len(body)), body)
			reenc("reencode-5-octet-packet-length", []byte{0xC2, 255, 0, 0, byte(len(body) >> 8), byte(len(body))}, body)
			// add an (unhashed) issuer subpacket
			uo := f.unhashedLenOff - f.bodyStart
			ul := int(body[uo])<<8 | int(body[uo+1])
			sub := []byte{9, 16, 1, 2, 3, 4, 5, 6, 7, 8}
			nb := cat(body[:uo], []byte{byte((ul + len(sub)) >> 8), byte(ul + len(sub))}, body[uo+2:uo+2+ul], sub, body[uo+2+ul:])
			reenc("reencode-add-unhashed-subpacket", c18PacketHeader(false, len(nb)), nb)
			// declared MPI bit length changed within the same byte count
			mo := f.mpiLenOff - f.bodyStart
			bits := int(body[mo])<<8 | int(body[mo+1])
			nbits := bits - 1
			if (nbits+7)/8 != (bits+7)/8 {
				nbits = bits + 1
			}
			nb = append([]byte{}, body...)
			nb[mo], nb[mo+1] = byte(nbits>>8), byte(nbits)
			reenc("reencode-mpi-bitlength", c18PacketHeader(false, len(nb)), nb)
			// the signature value itself: last bit
			nb = append([]byte{}, body...)
			nb[len(nb)-1] ^= 1
			reenc("reencode-flip-signature-value", c18PacketHeader(false, len(nb)), nb)
			// hashed creation time +1
			nb = append([]byte{}, body...)
			nb[f.unhashedLenOff-f.bodyStart-1] ^= 1
			reenc("reencode-flip-hashed-subpacket", c18PacketHeader(false, len(nb)), nb)
		}
	}
	return out
}

func (m *c18Mutant) String() string { return fmt.Sprintf("%s/%s@%d", m.Region, m.Op, m.Pos) }
