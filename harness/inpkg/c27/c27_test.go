// C27 — generated desktop files cannot launch anything but the snap's own apps.
//
// Drives the real wrappers.sanitizeDesktopFile (directly, with the installed
// file name EnsureSnapDesktopFiles would hand it) and, for a slice of the
// cases, the whole EnsureSnapDesktopFiles path on a scratch root (file shipped
// in <mount>/meta/gui, installed file read back from the desktop files dir).
// The OUTPUT is judged by the independent reader in c27_reader_test.go.
package wrappers

import (
	"fmt"
	"os"
	"path/filepath"
	"runtime"
	"sort"
	"strconv"
	"strings"
	"testing"

	kit "verifkit"

	"github.com/snapcore/snapd/dirs"
	"github.com/snapcore/snapd/snap"
)

func c27Quote(s string) string {
	if len(s) > 3000 {
		return strconv.Quote(s[:1500]) + fmt.Sprintf(" ...[%d bytes elided]... ", len(s)-3000) + strconv.Quote(s[len(s)-1500:])
	}
	return strconv.Quote(s)
}

// c27ExpectFor computes what the oracle needs from plain strings and the
// directory layout (dirs.*), not from snap.Info helpers.
func c27ExpectFor(s *c27Snap, file string) c27Expect {
	e := c27Expect{Instance: s.instance(), File: file}
	e.MountDir = dirs.SnapMountDir + "/" + e.Instance + "/" + s.revString()
	for _, a := range s.Apps {
		w := e.Instance + "." + a
		if a == s.Name {
			w = e.Instance
		}
		e.Wrappers = append(e.Wrappers, dirs.SnapBinariesDir+"/"+w)
	}
	return e
}

func c27DesktopPrefix(s *c27Snap) string {
	if s.Key == "" {
		return s.Name
	}
	return s.Name + "+" + s.Key
}

// c27GluedInput reports whether the offending output line is the expansion of
// an input Icon line in which ${SNAP} occurs elsewhere than as the leading
// "${SNAP}/" (the class of the known candidate defect).
func c27GluedInput(content, outLine string, s *c27Snap, mount string) (string, bool) {
	for _, l := range strings.Split(content, "\n") {
		l = strings.TrimSuffix(l, "\r")
		if !strings.HasPrefix(l, "Icon=") {
			continue
		}
		val := l[len("Icon="):]
		if !strings.Contains(strings.TrimPrefix(val, "${SNAP}/"), "${SNAP}") {
			continue
		}
		// snapd renames icon names "snap.<name>.x" to "snap.<instance>.x"
		renamed := val
		if p := "snap." + s.Name + "."; strings.HasPrefix(val, p) {
			renamed = "snap." + s.instance() + "." + val[len(p):]
		}
		if outLine == "Icon="+strings.ReplaceAll(val, "${SNAP}", mount) || outLine == "Icon="+strings.ReplaceAll(renamed, "${SNAP}", mount) {
			return l, true
		}
	}
	return "", false
}

func TestVerifC27(t *testing.T) {
	c := kit.New("C27", "exploration")
	defer c.Done(t)
	c.Rule("A case = (snap configuration from an enumerated pool of 108: 3 names x {no key, 2 instance keys} x 6 app sets incl. prefix chains, app==snap, no apps x 2 revisions; " +
		"installed file name; desktop file content = one of 4 valid templates, possibly without its [Desktop Entry] header or empty, with 0-9 line-wise mutations drawn from " +
		"34 line operators (Exec / key / locale / header / Icon / ${SNAP} / control-character / encoding / >64KiB-line families), LF/CRLF/CR/LFCR line ends, optional missing final newline). " +
		"Non-trivial = at least one hostile or malformed operator was applied and the sanitizer still produced output; distinct = different (operator set, instance key?, mode). " +
		"Multi-file cases: 1-3 snaps with distinct instance names in ONE EnsureSnapDesktopFiles call, the first shipping 2-5 and the others 1-5 desktop files of different lengths from the same generator plus 3 operators " +
		"that put text which would be dangerous as a line of its own (Exec=/bin/sh..., Icon=/etc/..., headers, TryExec, forged tag) inside allow-listed values at a random shift; every such call is non-trivial, " +
		"distinct = different (files-per-snap multiset, dangerous text embedded?, a later file shorter than an earlier one?, later length = offset of an embedded dangerous text?, GOMAXPROCS 1?).")
	c.Assume("Multi-file differential partner: the same real sanitizeDesktopFile called for ONE source with the installed name, result copied to a string before any other call; trusted only as 'what this source sanitizes to on its own' (that output is itself judged by the reader in the single-file phases).")
	c.Assume("Allowlist of keys/headers: the 22 keys, 4 localizable keys and 3 header forms snapd documents as allowed in wrappers/desktop.go, copied once into literal lists of the reader (plus the X-SnapInstanceName tag snapd adds).")
	c.Assume("A line is what lies between '\\n' bytes (desktop-entry spec / GKeyFile); a '\\r' or NUL inside a line is part of that line's value.")
	c.Assume("Wrapper path = <dirs.SnapBinariesDir>/<instance>[.<app>], mount dir = <dirs.SnapMountDir>/<instance>/<rev>; cross-checked once per snap against snap.Info (mismatch = inconclusive).")
	c.Assume("An Icon value equal to the mount dir itself counts as inside the snap; Icon values without '/' are icon names, not paths.")
	c.Assume("Desktop file NAMES are benign ([A-Za-z0-9._+-]); the property quantifies over contents.")

	pool, err := c27Pool()
	if err != nil {
		c.Inconclusive("cannot build snap pool: " + err.Error())
		return
	}
	nDirect := kit.Scale(30000, 150000)
	nE2E := kit.Scale(1500, 6000)
	nMulti := kit.Scale(700, 2800)
	only := kit.OnlyCase()

	checkPool := func() {
		for _, s := range pool {
			e := c27ExpectFor(s, "")
			if e.MountDir != s.info.MountDir() || e.Instance != s.info.InstanceName() {
				c.Inconclusive(fmt.Sprintf("layout model differs from snap.Info: %q vs %q", e.MountDir, s.info.MountDir()))
			}
			for i, a := range s.Apps {
				if s.info.Apps[a] == nil || s.info.Apps[a].WrapperPath() != e.Wrappers[i] {
					c.Inconclusive(fmt.Sprintf("wrapper model differs from snap.Info for %s/%s", e.Instance, a))
				}
			}
		}
	}
	mountOf := func(s *c27Snap) string { return dirs.SnapMountDir + "/" + s.instance() + "/" + s.revString() }

	samples := 0
	judge := func(cs *c27Case, mode string, e c27Expect, out string, extra map[string]interface{}) {
		c.Eval()
		fs, seen := c27Read(out, e)
		c.Count("out_lines", seen.Lines)
		c.Count("out_exec_lines", seen.Execs)
		c.Count("out_icon_paths", seen.IconPaths)
		c.Count("out_icon_names", seen.IconNames)
		c.Count("out_headers", seen.Headers)
		c.Count("out_instance_tags", seen.Tags)
		c.Count("out_localized_keys", seen.Localized)
		inLines := strings.Count(cs.Content, "\n") + 1
		c.Count("in_lines", inLines)
		if d := inLines - (seen.Lines - seen.Tags); d > 0 {
			c.Count("lines_dropped_by_sanitizer", d)
		}
		long := false
		for _, l := range strings.Split(cs.Content, "\n") {
			long = long || len(l) > 65536
		}
		if long {
			c.Count("cases_with_line_over_64KiB", 1)
		}
		if out == "" {
			c.Count("empty_outputs", 1)
		}
		hostile := false
		for _, o := range cs.Ops {
			c.Count("op:"+o, 1)
			hostile = hostile || !c27BenignOps[o]
		}
		if hostile && out != "" {
			c.Nontrivial(kit.Sig(strings.Join(cs.Ops, ","), cs.Snap.Key != "", mode))
		}
		if samples++; samples <= 4 {
			c.Sample(map[string]interface{}{"case_index": cs.Idx, "mode": mode, "snap": cs.Snap, "file": e.File, "ops": cs.Ops, "input": c27Quote(cs.Content), "output": c27Quote(out)})
		}
		reported := map[string]bool{}
		for _, f := range fs {
			sig := "C27:" + f.Clause
			w := map[string]interface{}{"case_index": cs.Idx, "mode": mode, "snap": cs.Snap, "instance": e.Instance, "mount_dir": e.MountDir, "file": e.File,
				"own_wrappers": e.Wrappers, "ops": cs.Ops, "input": c27Quote(cs.Content), "output_line_no": f.LineNo, "output_line": c27Quote(f.Line), "clause": f.Clause}
			for k, v := range extra {
				w[k] = v
			}
			if f.Clause == "icon-outside-snap" {
				if in, ok := c27GluedInput(cs.Content, f.Line, cs.Snap, e.MountDir); ok {
					sig = "C27:icon-SNAP-variable-glued-to-name"
					w["input_line"] = in
				}
			}
			if reported[sig] {
				continue
			}
			reported[sig] = true
			c.Violation(sig, w)
		}
	}

	sanitize := func(cs *c27Case, s *snap.Info, file, content string) (out string, ok bool) {
		defer func() {
			if r := recover(); r != nil {
				c.Violation("C27:sanitizer-panic", map[string]interface{}{"case_index": cs.Idx, "snap": cs.Snap, "file": file, "input": c27Quote(content), "panic": fmt.Sprint(r)})
				ok = false
			}
		}()
		return string(sanitizeDesktopFile(s, file, []byte(content))), true
	}

	// ---- phase A: the sanitizer, called as deriveDesktopFilesContent calls it -------
	dirs.SetRootDir("/")
	defer dirs.SetRootDir("/")
	checkPool()
	for idx := 0; idx < nDirect; idx++ {
		if only >= 0 && idx != only {
			continue
		}
		cs := c27GenCase(kit.CaseRand("c27", idx), pool, mountOf, idx)
		file := filepath.Join(dirs.SnapDesktopFilesDir, c27DesktopPrefix(cs.Snap)+"_"+cs.FileBase+".desktop")
		mode := "direct"
		if cs.AppStyle {
			// the form the package's own tests use; reaches the "desktop file is named
			// like an app" fallback of rewriteExecLine
			file, mode = cs.FileBase+".desktop", "direct-appfile"
		}
		out, ok := sanitize(cs, cs.Snap.info, file, cs.Content)
		if !ok {
			continue
		}
		judge(cs, mode, c27ExpectFor(cs.Snap, file), out, nil)
	}

	// ---- phase B: EnsureSnapDesktopFiles end to end on a scratch root ------------------
	if only >= 0 && only < nDirect {
		return
	}
	root := os.Getenv("VERIF_C27_SCRATCH")
	if st, err := os.Stat(root); root == "" || err != nil || !st.IsDir() {
		root = os.TempDir()
	}
	root, err = os.MkdirTemp(root, "c27-")
	if err != nil {
		c.Inconclusive("no scratch root: " + err.Error())
		return
	}
	defer os.RemoveAll(root)
	// keep a host update-desktop-database (if any) out of the picture: with an
	// empty PATH EnsureSnapDesktopFiles skips it (exec.LookPath fails)
	oldPath := os.Getenv("PATH")
	os.Setenv("PATH", filepath.Join(root, "no-such-bin"))
	defer os.Setenv("PATH", oldPath)
	dirs.SetRootDir(root)
	checkPool()
	for idx := nDirect; idx < nDirect+nE2E; idx++ {
		if only >= 0 && idx != only {
			continue
		}
		cs := c27GenCase(kit.CaseRand("c27", idx), pool, mountOf, idx)
		gui := filepath.Join(mountOf(cs.Snap), "meta", "gui")
		src := filepath.Join(gui, cs.FileBase+".desktop")
		installed := filepath.Join(dirs.SnapDesktopFilesDir, c27DesktopPrefix(cs.Snap)+"_"+cs.FileBase+".desktop")
		if err := os.MkdirAll(gui, 0755); err == nil {
			err = os.WriteFile(src, []byte(cs.Content), 0644)
		}
		if err != nil {
			c.Inconclusive("cannot ship desktop file: " + err.Error())
			return
		}
		var ensureErr error
		func() {
			defer func() {
				if r := recover(); r != nil {
					ensureErr = fmt.Errorf("panic: %v", r)
					c.Violation("C27:sanitizer-panic", map[string]interface{}{"case_index": cs.Idx, "snap": cs.Snap, "file": installed, "input": c27Quote(cs.Content), "panic": fmt.Sprint(r)})
				}
			}()
			ensureErr = EnsureSnapDesktopFiles([]*snap.Info{cs.Snap.info})
		}()
		out, rerr := os.ReadFile(installed)
		os.Remove(src)
		os.Remove(installed)
		if ensureErr != nil || rerr != nil {
			c.Count("e2e_not_installed", 1)
			if c.Violations() == 0 {
				c.Inconclusive(fmt.Sprintf("case %d: EnsureSnapDesktopFiles err=%v, installed file: %v", idx, ensureErr, rerr))
			}
			continue
		}
		c.Count("e2e_files_installed", 1)
		judge(cs, "ensure", c27ExpectFor(cs.Snap, installed), string(out), nil)
	}

	// ---- phase C: snaps shipping several desktop files, 1-3 snaps per call ------------
	// deriveDesktopFilesContent keeps the sanitized content of all files of a snap
	// until EnsureDirState has written them; every installed file must be exactly
	// what sanitizing its own source alone yields, and pass the per-file reader.
	// All cases run in this one process (so any buffer the sanitizer keeps between
	// calls is reused); the second half with GOMAXPROCS(1).
	oldProcs := runtime.GOMAXPROCS(0)
	defer runtime.GOMAXPROCS(oldProcs)
	multiSamples := 0
	for m := 0; m < nMulti; m++ {
		idx := nDirect + nE2E + m
		if only >= 0 && idx != only {
			continue
		}
		mc := c27GenMulti(kit.CaseRand("c27multi", idx), pool, mountOf, idx)
		mc.Procs1 = m >= nMulti/2
		if mc.Procs1 {
			runtime.GOMAXPROCS(1)
		}
		var infos []*snap.Info
		var shipErr error
		for _, ms := range mc.Snaps {
			infos = append(infos, ms.Snap.info)
			gui := filepath.Join(mountOf(ms.Snap), "meta", "gui")
			if err := os.MkdirAll(gui, 0755); err != nil {
				shipErr = err
			}
			for _, f := range ms.Files {
				if err := os.WriteFile(filepath.Join(gui, f.FileBase+".desktop"), []byte(f.Content), 0644); err != nil {
					shipErr = err
				}
			}
		}
		if shipErr != nil {
			c.Inconclusive("cannot ship desktop files: " + shipErr.Error())
			return
		}
		describe := func(ms *c27MultiSnap) []map[string]string {
			var fl []map[string]string
			for _, f := range ms.Files {
				fl = append(fl, map[string]string{"shipped_as": "meta/gui/" + f.FileBase + ".desktop", "ops": strings.Join(f.Ops, ","), "input": c27Quote(f.Content)})
			}
			return fl
		}
		var ensureErr error
		func() {
			defer func() {
				if r := recover(); r != nil {
					ensureErr = fmt.Errorf("panic: %v", r)
					c.Violation("C27:sanitizer-panic", map[string]interface{}{"case_index": idx, "mode": "multi", "snap": mc.Snaps[0].Snap, "files": describe(mc.Snaps[0]), "panic": fmt.Sprint(r)})
				}
			}()
			ensureErr = EnsureSnapDesktopFiles(infos)
		}()
		// read everything back before the sanitizer is called again
		installedNow := map[string]string{}
		if ents, err := os.ReadDir(dirs.SnapDesktopFilesDir); err == nil {
			for _, en := range ents {
				if b, err := os.ReadFile(filepath.Join(dirs.SnapDesktopFilesDir, en.Name())); err == nil {
					installedNow[en.Name()] = string(b)
				}
			}
		}
		os.RemoveAll(dirs.SnapDesktopFilesDir)
		for _, ms := range mc.Snaps {
			os.RemoveAll(filepath.Join(dirs.SnapMountDir, ms.Snap.instance()))
		}
		c.Count("multi_calls", 1)
		c.Count(fmt.Sprintf("multi_calls_with_%d_snaps", len(mc.Snaps)), 1)
		if mc.Procs1 {
			c.Count("multi_calls_gomaxprocs_1", 1)
		}
		if ensureErr != nil {
			c.Count("multi_not_installed", 1)
			if c.Violations() == 0 {
				c.Inconclusive(fmt.Sprintf("case %d: EnsureSnapDesktopFiles err=%v", idx, ensureErr))
			}
			continue
		}
		var shape []string
		embedded, laterShorter, spliceAtDanger := false, 0, 0
		for _, ms := range mc.Snaps {
			shape = append(shape, strconv.Itoa(len(ms.Files)))
			c.Count(fmt.Sprintf("multi_snaps_with_%d_files", len(ms.Files)), 1)
			if ms.Snap.Key != "" {
				c.Count("multi_snaps_with_instance_key", 1)
			}
			// differential partner: each source sanitized alone, in a fresh call, copied at once
			alone := make([]string, len(ms.Files))
			names := make([]string, len(ms.Files))
			okAll := true
			for i, f := range ms.Files {
				names[i] = c27DesktopPrefix(ms.Snap) + "_" + f.FileBase + ".desktop"
				var ok bool
				alone[i], ok = sanitize(f, ms.Snap.info, filepath.Join(dirs.SnapDesktopFilesDir, names[i]), f.Content)
				okAll = okAll && ok
			}
			if !okAll {
				continue
			}
			files := describe(ms)
			for i, f := range ms.Files {
				for _, o := range f.Ops {
					embedded = embedded || strings.HasPrefix(o, "value-embeds-dangerous-line")
				}
				installed := filepath.Join(dirs.SnapDesktopFilesDir, names[i])
				got, present := installedNow[names[i]]
				delete(installedNow, names[i])
				if !present {
					c.Count("multi_files_missing", 1)
					if c.Violations() == 0 {
						c.Inconclusive(fmt.Sprintf("case %d: shipped %s/meta/gui/%s.desktop was not installed as %s", idx, ms.Snap.instance(), f.FileBase, names[i]))
					}
					continue
				}
				c.Count("multi_files_installed", 1)
				extra := map[string]interface{}{"gomaxprocs_1": mc.Procs1, "snaps_in_call": len(mc.Snaps), "files_of_snap": files, "file_index_in_glob_order": i}
				judge(f, "multi", c27ExpectFor(ms.Snap, installed), got, extra)
				if got != alone[i] {
					d := 0
					for d < len(got) && d < len(alone[i]) && got[d] == alone[i][d] {
						d++
					}
					w := map[string]interface{}{"case_index": idx, "mode": "multi", "snap": ms.Snap, "instance": ms.Snap.instance(), "file": installed, "clause": "multi-file:installed-differs-from-own-sanitized-source",
						"installed": c27Quote(got), "own_source_sanitized_alone": c27Quote(alone[i]), "first_difference_at_byte": d, "input": c27Quote(f.Content)}
					for k, v := range extra {
						w[k] = v
					}
					for j := range ms.Files {
						if j != i && len(alone[j]) <= len(alone[i]) && got == alone[j]+alone[i][len(alone[j]):] {
							w["installed_equals"] = fmt.Sprintf("sanitized(%s) followed by sanitized(%s)[%d:]", ms.Files[j].FileBase+".desktop", f.FileBase+".desktop", len(alone[j]))
						} else if j != i && got == alone[j] {
							w["installed_equals"] = fmt.Sprintf("sanitized(%s)", ms.Files[j].FileBase+".desktop")
						}
					}
					c.Count(fmt.Sprintf("multi_installed_differs_gomaxprocs1_%v", mc.Procs1), 1)
					if w["installed_equals"] != nil {
						c.Count("multi_installed_differs_as_sibling_head_plus_own_tail", 1)
					}
					c.Violation("C27:multi-file:installed-differs-from-own-sanitized-source", w)
				}
				// workload power: how often would overwriting the head of an earlier file's
				// content with a later (shorter) one start a line at an embedded dangerous text
				for j := i + 1; j < len(ms.Files); j++ {
					if len(alone[j]) > 0 && len(alone[j]) < len(alone[i]) {
						laterShorter++
						if c27StartsDangerous(alone[i][len(alone[j]):]) {
							spliceAtDanger++
						}
					}
				}
			}
		}
		var extraNames []string
		for n := range installedNow {
			extraNames = append(extraNames, n)
		}
		if len(extraNames) > 0 {
			sort.Strings(extraNames)
			c.Count("multi_unexpected_installed_files", len(extraNames))
			if c.Violations() == 0 {
				c.Inconclusive(fmt.Sprintf("case %d: installed files nobody shipped: %v", idx, extraNames))
			}
		}
		c.Count("multi_pairs_later_file_shorter", laterShorter)
		c.Count("multi_pairs_later_length_is_offset_of_embedded_dangerous_text", spliceAtDanger)
		sort.Strings(shape)
		c.Nontrivial(kit.Sig("multi", strings.Join(shape, "+"), embedded, laterShorter > 0, spliceAtDanger > 0, mc.Procs1))
		if multiSamples++; multiSamples <= 2 {
			c.Sample(map[string]interface{}{"case_index": idx, "mode": "multi", "gomaxprocs_1": mc.Procs1, "snap": mc.Snaps[0].Snap, "snaps_in_call": len(mc.Snaps), "files_of_first_snap": describe(mc.Snaps[0])})
		}
	}
	runtime.GOMAXPROCS(oldProcs)
	if only < 0 {
		c.Floor("multi_files_installed", 1500)
		c.Floor("multi_pairs_later_file_shorter", 500)
		c.Floor("multi_calls_gomaxprocs_1", 100)
		c.Floor("multi_pairs_later_length_is_offset_of_embedded_dangerous_text", 8)
		c.Floor("out_exec_lines", 1000)
		c.Floor("out_icon_paths", 500)
		c.Floor("out_instance_tags", 1000)
		c.Floor("lines_dropped_by_sanitizer", 5000)
		c.Floor("cases_with_line_over_64KiB", 20)
		c.Floor("e2e_files_installed", 500)
		c.MinDistinct(500)
	}
}
