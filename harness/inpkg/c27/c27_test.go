// C27 — generated desktop files cannot launch anything but the snap's own apps.
//
// Drives the real wrappers.sanitizeDesktopFile (directly, with the installed
// file name EnsureSnapDesktopFiles would hand it) and, for a slice of the
// cases, the whole EnsureSnapDesktopFiles path on a scratch root (file shipped
// in <mount>/meta/gui, installed file read back from the desktop files dir).
// The OUTPUT is judged by the independent reader in c27_reader_test.go.
package wrappers

import (
	"fmt"
	"os"
	"path/filepath"
	"strconv"
	"strings"
	"testing"

	kit "verifkit"

	"github.com/snapcore/snapd/dirs"
	"github.com/snapcore/snapd/snap"
)

func c27Quote(s string) string {
	if len(s) > 3000 {
		return strconv.Quote(s[:1500]) + fmt.Sprintf(" ...[%d bytes elided]... ", len(s)-3000) + strconv.Quote(s[len(s)-1500:])
	}
	return strconv.Quote(s)
}

// c27ExpectFor computes what the oracle needs from plain strings and the
// directory layout (dirs.*), not from snap.Info helpers.
func c27ExpectFor(s *c27Snap, file string) c27Expect {
	e := c27Expect{Instance: s.instance(), File: file}
	e.MountDir = dirs.SnapMountDir + "/" + e.Instance + "/" + s.revString()
	for _, a := range s.Apps {
		w := e.Instance + "." + a
		if a == s.Name {
			w = e.Instance
		}
		e.Wrappers = append(e.Wrappers, dirs.SnapBinariesDir+"/"+w)
	}
	return e
}

func c27DesktopPrefix(s *c27Snap) string {
	if s.Key == "" {
		return s.Name
	}
	return s.Name + "+" + s.Key
}

// c27GluedInput reports whether the offending output line is the expansion of
// an input Icon line in which ${SNAP} occurs elsewhere than as the leading
// "${SNAP}/" (the class of the known candidate defect).
func c27GluedInput(content, outLine string, s *c27Snap, mount string) (string, bool) {
	for _, l := range strings.Split(content, "\n") {
		l = strings.TrimSuffix(l, "\r")
		if !strings.HasPrefix(l, "Icon=") {
			continue
		}
		val := l[len("Icon="):]
		if !strings.Contains(strings.TrimPrefix(val, "${SNAP}/"), "${SNAP}") {
			continue
		}
		// snapd renames icon names "snap.<name>.x" to "snap.<instance>.x"
		renamed := val
		if p := "snap." + s.Name + "."; strings.HasPrefix(val, p) {
			renamed = "snap." + s.instance() + "." + val[len(p):]
		}
		if outLine == "Icon="+strings.ReplaceAll(val, "${SNAP}", mount) || outLine == "Icon="+strings.ReplaceAll(renamed, "${SNAP}", mount) {
			return l, true
		}
	}
	return "", false
}

func TestVerifC27(t *testing.T) {
	c := kit.New("C27", "exploration")
	defer c.Done(t)
	c.Rule("A case = (snap configuration from an enumerated pool of 108: 3 names x {no key, 2 instance keys} x 6 app sets incl. prefix chains, app==snap, no apps x 2 revisions; " +
		"installed file name; desktop file content = one of 4 valid templates, possibly without its [Desktop Entry] header or empty, with 0-9 line-wise mutations drawn from " +
		"34 line operators (Exec / key / locale / header / Icon / ${SNAP} / control-character / encoding / >64KiB-line families), LF/CRLF/CR/LFCR line ends, optional missing final newline). " +
		"Non-trivial = at least one hostile or malformed operator was applied and the sanitizer still produced output; distinct = different (operator set, instance key?, mode).")
	c.Assume("Allowlist of keys/headers: the 22 keys, 4 localizable keys and 3 header forms snapd documents as allowed in wrappers/desktop.go, copied once into literal lists of the reader (plus the X-SnapInstanceName tag snapd adds).")
	c.Assume("A line is what lies between '\\n' bytes (desktop-entry spec / GKeyFile); a '\\r' or NUL inside a line is part of that line's value.")
	c.Assume("Wrapper path = <dirs.SnapBinariesDir>/<instance>[.<app>], mount dir = <dirs.SnapMountDir>/<instance>/<rev>; cross-checked once per snap against snap.Info (mismatch = inconclusive).")
	c.Assume("An Icon value equal to the mount dir itself counts as inside the snap; Icon values without '/' are icon names, not paths.")
	c.Assume("Desktop file NAMES are benign ([A-Za-z0-9._+-]); the property quantifies over contents.")

	pool, err := c27Pool()
	if err != nil {
		c.Inconclusive("cannot build snap pool: " + err.Error())
		return
	}
	nDirect := kit.Scale(30000, 150000)
	nE2E := kit.Scale(1500, 6000)
	only := kit.OnlyCase()

	checkPool := func() {
		for _, s := range pool {
			e := c27ExpectFor(s, "")
			if e.MountDir != s.info.MountDir() || e.Instance != s.info.InstanceName() {
				c.Inconclusive(fmt.Sprintf("layout model differs from snap.Info: %q vs %q", e.MountDir, s.info.MountDir()))
			}
			for i, a := range s.Apps {
				if s.info.Apps[a] == nil || s.info.Apps[a].WrapperPath() != e.Wrappers[i] {
					c.Inconclusive(fmt.Sprintf("wrapper model differs from snap.Info for %s/%s", e.Instance, a))
				}
			}
		}
	}
	mountOf := func(s *c27Snap) string { return dirs.SnapMountDir + "/" + s.instance() + "/" + s.revString() }

	samples := 0
	judge := func(cs *c27Case, mode string, e c27Expect, out string) {
		c.Eval()
		fs, seen := c27Read(out, e)
		c.Count("out_lines", seen.Lines)
		c.Count("out_exec_lines", seen.Execs)
		c.Count("out_icon_paths", seen.IconPaths)
		c.Count("out_icon_names", seen.IconNames)
		c.Count("out_headers", seen.Headers)
		c.Count("out_instance_tags", seen.Tags)
		c.Count("out_localized_keys", seen.Localized)
		inLines := strings.Count(cs.Content, "\n") + 1
		c.Count("in_lines", inLines)
		if d := inLines - (seen.Lines - seen.Tags); d > 0 {
			c.Count("lines_dropped_by_sanitizer", d)
		}
		long := false
		for _, l := range strings.Split(cs.Content, "\n") {
			long = long || len(l) > 65536
		}
		if long {
			c.Count("cases_with_line_over_64KiB", 1)
		}
		if out == "" {
			c.Count("empty_outputs", 1)
		}
		hostile := false
		for _, o := range cs.Ops {
			c.Count("op:"+o, 1)
			hostile = hostile || !c27BenignOps[o]
		}
		if hostile && out != "" {
			c.Nontrivial(kit.Sig(strings.Join(cs.Ops, ","), cs.Snap.Key != "", mode))
		}
		if samples++; samples <= 4 {
			c.Sample(map[string]interface{}{"case_index": cs.Idx, "mode": mode, "snap": cs.Snap, "file": e.File, "ops": cs.Ops, "input": c27Quote(cs.Content), "output": c27Quote(out)})
		}
		reported := map[string]bool{}
		for _, f := range fs {
			sig := "C27:" + f.Clause
			w := map[string]interface{}{"case_index": cs.Idx, "mode": mode, "snap": cs.Snap, "instance": e.Instance, "mount_dir": e.MountDir, "file": e.File,
				"own_wrappers": e.Wrappers, "ops": cs.Ops, "input": c27Quote(cs.Content), "output_line_no": f.LineNo, "output_line": c27Quote(f.Line), "clause": f.Clause}
			if f.Clause == "icon-outside-snap" {
				if in, ok := c27GluedInput(cs.Content, f.Line, cs.Snap, e.MountDir); ok {
					sig = "C27:icon-SNAP-variable-glued-to-name"
					w["input_line"] = in
				}
			}
			if reported[sig] {
				continue
			}
			reported[sig] = true
			c.Violation(sig, w)
		}
	}

	sanitize := func(cs *c27Case, s *snap.Info, file, content string) (out string, ok bool) {
		defer func() {
			if r := recover(); r != nil {
				c.Violation("C27:sanitizer-panic", map[string]interface{}{"case_index": cs.Idx, "snap": cs.Snap, "file": file, "input": c27Quote(content), "panic": fmt.Sprint(r)})
				ok = false
			}
		}()
		return string(sanitizeDesktopFile(s, file, []byte(content))), true
	}

	// ---- phase A: the sanitizer, called as deriveDesktopFilesContent calls it -------
	dirs.SetRootDir("/")
	defer dirs.SetRootDir("/")
	checkPool()
	for idx := 0; idx < nDirect; idx++ {
		if only >= 0 && idx != only {
			continue
		}
		cs := c27GenCase(kit.CaseRand("c27", idx), pool, mountOf, idx)
		file := filepath.Join(dirs.SnapDesktopFilesDir, c27DesktopPrefix(cs.Snap)+"_"+cs.FileBase+".desktop")
		mode := "direct"
		if cs.AppStyle {
			// the form the package's own tests use; reaches the "desktop file is named
			// like an app" fallback of rewriteExecLine
			file, mode = cs.FileBase+".desktop", "direct-appfile"
		}
		out, ok := sanitize(cs, cs.Snap.info, file, cs.Content)
		if !ok {
			continue
		}
		judge(cs, mode, c27ExpectFor(cs.Snap, file), out)
	}

	// ---- phase B: EnsureSnapDesktopFiles end to end on a scratch root ------------------
	if only >= 0 && only < nDirect {
		return
	}
	root := os.Getenv("VERIF_C27_SCRATCH")
	if st, err := os.Stat(root); root == "" || err != nil || !st.IsDir() {
		root = os.TempDir()
	}
	root, err = os.MkdirTemp(root, "c27-")
	if err != nil {
		c.Inconclusive("no scratch root: " + err.Error())
		return
	}
	defer os.RemoveAll(root)
	// keep a host update-desktop-database (if any) out of the picture: with an
	// empty PATH EnsureSnapDesktopFiles skips it (exec.LookPath fails)
	oldPath := os.Getenv("PATH")
	os.Setenv("PATH", filepath.Join(root, "no-such-bin"))
	defer os.Setenv("PATH", oldPath)
	dirs.SetRootDir(root)
	checkPool()
	for idx := nDirect; idx < nDirect+nE2E; idx++ {
		if only >= 0 && idx != only {
			continue
		}
		cs := c27GenCase(kit.CaseRand("c27", idx), pool, mountOf, idx)
		gui := filepath.Join(mountOf(cs.Snap), "meta", "gui")
		src := filepath.Join(gui, cs.FileBase+".desktop")
		installed := filepath.Join(dirs.SnapDesktopFilesDir, c27DesktopPrefix(cs.Snap)+"_"+cs.FileBase+".desktop")
		if err := os.MkdirAll(gui, 0755); err == nil {
			err = os.WriteFile(src, []byte(cs.Content), 0644)
		}
		if err != nil {
			c.Inconclusive("cannot ship desktop file: " + err.Error())
			return
		}
		var ensureErr error
		func() {
			defer func() {
				if r := recover(); r != nil {
					ensureErr = fmt.Errorf("panic: %v", r)
					c.Violation("C27:sanitizer-panic", map[string]interface{}{"case_index": cs.Idx, "snap": cs.Snap, "file": installed, "input": c27Quote(cs.Content), "panic": fmt.Sprint(r)})
				}
			}()
			ensureErr = EnsureSnapDesktopFiles([]*snap.Info{cs.Snap.info})
		}()
		out, rerr := os.ReadFile(installed)
		os.Remove(src)
		os.Remove(installed)
		if ensureErr != nil || rerr != nil {
			c.Count("e2e_not_installed", 1)
			if c.Violations() == 0 {
				c.Inconclusive(fmt.Sprintf("case %d: EnsureSnapDesktopFiles err=%v, installed file: %v", idx, ensureErr, rerr))
			}
			continue
		}
		c.Count("e2e_files_installed", 1)
		judge(cs, "ensure", c27ExpectFor(cs.Snap, installed), string(out))
	}
	if only < 0 {
		c.Floor("out_exec_lines", 1000)
		c.Floor("out_icon_paths", 500)
		c.Floor("out_instance_tags", 1000)
		c.Floor("lines_dropped_by_sanitizer", 5000)
		c.Floor("cases_with_line_over_64KiB", 20)
		c.Floor("e2e_files_installed", 500)
		c.MinDistinct(500)
	}
}
