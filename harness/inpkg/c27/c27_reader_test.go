// C27 — independent reader of a sanitized desktop file (the oracle). It shares
// no code and no regular expression with wrappers/desktop.go: lines are split
// on '\n' (as the desktop-entry spec and GKeyFile do), keys are cut at the
// first '=', locales and headers are scanned by hand. The two literal lists
// below were copied ONCE from the allowlist documented in desktop.go (the keys
// snapd says it lets through) and are from then on the check's own constants.
package wrappers

import (
	"path"
	"strings"
)

// keys that may appear without a [locale] postfix
var c27Keys = strings.Fields(`Type Version Name GenericName NoDisplay Comment Icon Hidden OnlyShowIn
 NotShowIn Exec Terminal Actions MimeType Categories Keywords StartupNotify StartupWMClass
 PrefersNonDefaultGPU SingleMainWindow X-Ayatana-Desktop-Shortcuts TargetEnvironment`)

// keys that may also appear as key[lang_COUNTRY.ENCODING@modifier]
var c27LocaleKeys = strings.Fields(`Name GenericName Comment Keywords`)

// c27Expect is what the harness knows about the snap, computed from plain
// strings (never from the sanitizer's helpers).
type c27Expect struct {
	Instance string   // snap instance name, e.g. foo or foo_inst
	MountDir string   // <snap mount dir>/<instance>/<revision>
	File     string   // the installed desktop file name handed to the sanitizer
	Wrappers []string // <bin dir>/<instance>[.<app>] for each of the snap's apps
}

type c27Finding struct {
	Clause string
	LineNo int
	Line   string
}

type c27Seen struct{ Lines, Execs, IconPaths, IconNames, Headers, Tags, Localized int }

func c27In(list []string, s string) bool {
	for _, x := range list {
		if x == s {
			return true
		}
	}
	return false
}

func c27All(s string, ok func(b byte) bool) bool {
	for i := 0; i < len(s); i++ {
		if !ok(s[i]) {
			return false
		}
	}
	return len(s) > 0
}

func c27Lower(b byte) bool { return b >= 'a' && b <= 'z' }
func c27Upper(b byte) bool { return b >= 'A' && b <= 'Z' }
func c27Digit(b byte) bool { return b >= '0' && b <= '9' }
func c27Ident(b byte) bool { return c27Lower(b) || c27Upper(b) || c27Digit(b) || b == '-' }
func c27Blank(b byte) bool { return b == ' ' || b == '\t' || b == '\r' || b == '\f' }

// lang[_COUNTRY][.ENCODING][@modifier]
func c27LocaleOK(l string) bool {
	mod, enc, ctry := "", "", ""
	hasMod, hasEnc, hasCtry := false, false, false
	if i := strings.IndexByte(l, '@'); i >= 0 {
		l, mod, hasMod = l[:i], l[i+1:], true
	}
	if i := strings.IndexByte(l, '.'); i >= 0 {
		l, enc, hasEnc = l[:i], l[i+1:], true
	}
	if i := strings.IndexByte(l, '_'); i >= 0 {
		l, ctry, hasCtry = l[:i], l[i+1:], true
	}
	return c27All(l, c27Lower) && (!hasCtry || c27All(ctry, c27Upper)) && (!hasMod || c27All(mod, c27Lower)) &&
		(!hasEnc || c27All(enc, func(b byte) bool { return c27Upper(b) || c27Digit(b) || b == '-' }))
}

func c27HeaderOK(h string) bool {
	if a := strings.TrimPrefix(h, "[Desktop Action "); a != h {
		return strings.HasSuffix(a, "]") && c27All(a[:len(a)-1], c27Ident)
	}
	if a := strings.TrimSuffix(h, " Shortcut Group]"); a != h {
		return c27All(a[1:], c27Ident)
	}
	return false
}

// c27Read judges one sanitizer output.
func c27Read(out string, e c27Expect) (fs []c27Finding, seen c27Seen) {
	lines := strings.Split(out, "\n")
	if lines[len(lines)-1] == "" {
		lines = lines[:len(lines)-1]
	}
	for i, ln := range lines {
		bad := func(clause string) { fs = append(fs, c27Finding{clause, i, ln}) }
		seen.Lines++
		if strings.Contains(ln, "${SNAP}") {
			bad("SNAP-variable-unexpanded")
		}
		if ln == "[Desktop Entry]" {
			seen.Headers++
			if i+1 >= len(lines) || lines[i+1] != "X-SnapInstanceName="+e.Instance {
				bad("instance-tag-missing-or-wrong")
			}
			continue
		}
		j := 0
		for j < len(ln) && c27Blank(ln[j]) {
			j++
		}
		if j == len(ln) || ln[j] == '#' {
			continue // blank or comment
		}
		if ln[0] == '[' {
			seen.Headers++
			if !c27HeaderOK(ln) {
				bad("header-not-allowlisted")
			}
			continue
		}
		eq := strings.IndexByte(ln, '=')
		if eq < 0 {
			bad("line-not-key-value")
			continue
		}
		key, val := ln[:eq], ln[eq+1:]
		if key == "X-SnapInstanceName" {
			seen.Tags++
			if i == 0 || lines[i-1] != "[Desktop Entry]" || val != e.Instance {
				bad("instance-tag-stray")
			}
			continue
		}
		base, localized := key, false
		if k := strings.IndexByte(key, '['); k >= 0 && key[len(key)-1] == ']' {
			base, localized = key[:k], true
			if !c27In(c27LocaleKeys, base) || !c27LocaleOK(key[k+1:len(key)-1]) {
				bad("key-not-allowlisted")
				continue
			}
			seen.Localized++
		} else if !c27In(c27Keys, base) {
			bad("key-not-allowlisted")
			continue
		}
		if base == "Exec" && !localized {
			seen.Execs++
			ok := false
			if rest := strings.TrimPrefix(val, "env BAMF_DESKTOP_FILE_HINT="+e.File+" "); rest != val {
				for _, w := range e.Wrappers {
					ok = ok || rest == w || strings.HasPrefix(rest, w+" ")
				}
			}
			if !ok {
				bad("exec-not-own-wrapper")
			}
		}
		if base == "Icon" && !localized {
			if !strings.Contains(val, "/") {
				seen.IconNames++
				continue
			}
			seen.IconPaths++
			if c := path.Clean(val); c != e.MountDir && !strings.HasPrefix(c, e.MountDir+"/") {
				bad("icon-outside-snap")
			}
		}
	}
	return fs, seen
}
