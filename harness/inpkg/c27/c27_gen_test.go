// C27 — generator: snaps (with/without instance key, apps whose names are
// prefixes of each other, app == snap name, no apps) and desktop files built
// from valid templates mutated line-wise with hostile lines.
package wrappers

import (
	"fmt"
	"math/rand"
	"sort"
	"strings"

	"github.com/snapcore/snapd/snap"
)

type c27Snap struct {
	Name string   `json:"name"`
	Key  string   `json:"instance_key"`
	Rev  int      `json:"revision"`
	Apps []string `json:"apps"`
	info *snap.Info
}

func (s *c27Snap) instance() string {
	if s.Key == "" {
		return s.Name
	}
	return s.Name + "_" + s.Key
}

func (s *c27Snap) revString() string {
	if s.Rev < 0 {
		return fmt.Sprintf("x%d", -s.Rev)
	}
	return fmt.Sprint(s.Rev)
}

// desktop files name a command the snap.yaml way: <snap>.<app>, or <snap>
// when the app is called like the snap (store name, never the instance name).
func (s *c27Snap) cmdOf(app string) string {
	if app == s.Name {
		return s.Name
	}
	return s.Name + "." + app
}

// c27Pool enumerates the snap configurations (not random: every run sees all).
func c27Pool() ([]*c27Snap, error) {
	restore := snap.MockSanitizePlugsSlots(func(*snap.Info) {})
	defer restore()
	var pool []*c27Snap
	for _, name := range []string{"foo", "snap", "a0b"} {
		appSets := [][]string{
			{"bar"},
			{"bar", "bar-baz", "barb"},
			{name},
			{name, name + "-x", "x"},
			{"a", "ab", "abc", "b"},
			{},
		}
		for _, key := range []string{"", "inst", "bar"} {
			for _, apps := range appSets {
				for _, rev := range []int{12, -3} {
					y := fmt.Sprintf("name: %s\nversion: 1.0\n", name)
					if len(apps) > 0 {
						y += "apps:\n"
					}
					for _, a := range apps {
						y += fmt.Sprintf(" %s:\n  command: bin/%s\n", a, a)
					}
					info, err := snap.InfoFromSnapYaml([]byte(y))
					if err != nil {
						return nil, err
					}
					info.SideInfo = snap.SideInfo{RealName: name, Revision: snap.R(rev)}
					info.InstanceKey = key
					if err := snap.Validate(info); err != nil {
						return nil, fmt.Errorf("generated snap is not valid: %v", err)
					}
					pool = append(pool, &c27Snap{Name: name, Key: key, Rev: rev, Apps: apps, info: info})
				}
			}
		}
	}
	return pool, nil
}

type c27Case struct {
	Idx      int
	Snap     *c27Snap
	FileBase string // name of the file in meta/gui (production style) or of the app (test style)
	AppStyle bool   // sanitizer is handed "<app>.desktop" (fallback path of rewriteExecLine)
	Content  string
	Ops      []string // operators used, sorted unique
}

type c27Gen struct {
	r     *rand.Rand
	s     *c27Snap
	mount string
	ops   map[string]bool
	multi bool // file of a multi-file snap: c27MultiOps are mixed in
}

func (g *c27Gen) pick(xs ...string) string { return xs[g.r.Intn(len(xs))] }
func (g *c27Gen) pct(p int) bool           { return g.r.Intn(100) < p }

func (g *c27Gen) app() string {
	if len(g.s.Apps) == 0 {
		return "ghost"
	}
	return g.s.Apps[g.r.Intn(len(g.s.Apps))]
}
func (g *c27Gen) cmd() string { return g.s.cmdOf(g.app()) }

func (g *c27Gen) args() string {
	return g.pick("%U", "%f --new-window", "--class=x %u", "-c /bin/sh", "${SNAP}/bin/helper", "; /bin/sh", "&& rm -rf /", "\"a b\"", "%%")
}

func (g *c27Gen) evilCmd() string {
	s := g.s
	return g.pick("evil.app", "evil", s.Name+"x."+g.app(), s.Name+"-evil", "/bin/sh", "/usr/bin/env", "sh -c 'id'",
		"/snap/bin/evil.app", "/snap/bin/"+g.cmd(), "../"+g.cmd(), "./"+g.cmd(), s.Name+"_other."+g.app(),
		s.instance()+"."+g.app()+"X", "snap run evil", "env "+g.cmd(), s.Name+".", "."+g.app(), s.Name+"."+g.app()+".x")
}

func (g *c27Gen) locale() string {
	return g.pick("de", "en_GB", "sr@latin", "zh_CN.UTF-8", "ca_ES.ISO-8859-15@valencia", "pt_BR", "de_DE.UTF-8@euro", "x")
}
func (g *c27Gen) badLocale() string {
	return g.pick("DE", "de_de", "", "de-DE", "de_DE.utf8", "de@", "_DE", "de.", "de_", "de@Latin", "de][x", "de_DE_AT", "d e", "1", "${SNAP}", "de@euro.UTF-8", "\xff")
}
func (g *c27Gen) locKey() string { return g.pick("Name", "GenericName", "Comment", "Keywords") }
func (g *c27Gen) plainKey() string {
	return g.pick("Type", "Version", "NoDisplay", "Hidden", "OnlyShowIn", "NotShowIn", "Terminal", "Actions", "MimeType", "Categories",
		"StartupNotify", "StartupWMClass", "PrefersNonDefaultGPU", "SingleMainWindow", "X-Ayatana-Desktop-Shortcuts", "TargetEnvironment")
}
func (g *c27Gen) word() string {
	return g.pick("Foo", "true", "Application", "Foo Bar;Baz;", "text/html;", "1.0", "GNOME;Unity;", "x=y", "=", "", " lead", "trail ", "ünï", "a${SNAP}b", "%U")
}

type c27Op struct {
	name string
	gen  func(g *c27Gen) string
}

// c27BenignOps produce lines a well-meaning snap would ship; every other
// operator is hostile or malformed.
var c27BenignOps = map[string]bool{"exec-valid": true, "exec-valid-args": true, "key-plain-valid": true, "key-locale-valid": true,
	"header-valid": true, "icon-in-snap": true, "icon-name": true, "icon-snapname": true, "comment": true, "blank": true}

var c27Ops = []c27Op{
	// ---- Exec ----------------------------------------------------------------
	{"exec-valid", func(g *c27Gen) string { return "Exec=" + g.cmd() }},
	{"exec-valid-args", func(g *c27Gen) string { return "Exec=" + g.cmd() + " " + g.args() }},
	{"exec-other-command", func(g *c27Gen) string {
		l := "Exec=" + g.evilCmd()
		if g.pct(50) {
			l += " " + g.args()
		}
		return l
	}},
	{"exec-own-prefix-extended", func(g *c27Gen) string {
		return "Exec=" + g.cmd() + g.pick("EVIL", "-evil", ".evil", "_evil", "x", "0", "-", "/../../bin/sh", "\t/bin/sh", "\x00", ";sh", "%U", "=x", "\u00a0x") + g.pick("", " %U")
	}},
	{"exec-instance-name-form", func(g *c27Gen) string { // only the store-name form is documented as valid
		a := g.app()
		return "Exec=" + g.pick(g.s.instance()+"."+a, g.s.Name+"_zz."+a, g.s.instance()) + g.pick("", " %U")
	}},
	{"exec-wrapper-path", func(g *c27Gen) string {
		return "Exec=" + g.pick("/snap/bin/", "${SNAP}/../../bin/", "/var/lib/snapd/snap/bin/", "env BAMF_DESKTOP_FILE_HINT=x /snap/bin/") + g.pick(g.cmd(), g.s.instance()+"."+g.app())
	}},
	{"exec-quoted-or-spaced", func(g *c27Gen) string {
		c := g.cmd()
		return "Exec=" + g.pick("\""+c+"\"", "'"+c+"'", " "+c, "  "+c+" x", "\t"+c, c+"\\ x", "\\"+c)
	}},
	{"exec-empty-or-odd", func(g *c27Gen) string { return g.pick("Exec=", "Exec= ", "Exec==", "Exec=="+g.cmd(), "Exec", "Exec=${SNAP}", "Exec=${SNAP}/bin/x", "Exec=${SNAP}"+g.cmd()) }},
	{"exec-key-decorated", func(g *c27Gen) string {
		v := g.pick(g.evilCmd(), g.cmd())
		return g.pick("Exec =", "Exec\t=", " Exec=", "\tExec=", "Exec["+g.locale()+"]=", "Exec[]=", "exec=", "EXEC=", "Exec\x00=", "\x00Exec=", "Exec\r=",
			"\fExec=", "\vExec=", "\u00a0Exec=", "\ufeffExec=", "Exec\xff=", "\xffExec=", "Exec${SNAP}=", "${SNAP}Exec=", "Exec:", "Exec ", "X-Exec=", "ExecStart=") + v
	}},
	{"tryexec", func(g *c27Gen) string { return g.pick("TryExec=", "TryExec[de]=", "Tryexec=") + g.pick(g.cmd(), g.evilCmd(), "/bin/true") }},
	// ---- other keys ------------------------------------------------------------
	{"key-plain-valid", func(g *c27Gen) string { return g.plainKey() + "=" + g.word() }},
	{"key-locale-valid", func(g *c27Gen) string { return g.locKey() + "[" + g.locale() + "]=" + g.word() }},
	{"key-locale-invalid", func(g *c27Gen) string { return g.locKey() + "[" + g.badLocale() + "]=" + g.word() }},
	{"key-locale-on-plain-key", func(g *c27Gen) string {
		return g.pick(g.plainKey(), "Icon", "Exec", "Type") + "[" + g.locale() + "]=" + g.pick(g.word(), "/etc/passwd", "/bin/sh")
	}},
	{"key-unknown", func(g *c27Gen) string {
		return g.pick("DBusActivatable=true", "Path=/", "URL=http://x", "Implements=org.x", "X-GNOME-Autostart-enabled=true", "X-KDE-SubstituteUID=true",
			"X-KDE-Username=root", "X-Foo=1", "StartupNotif=1", "Encoding=UTF-8", "X-Ubuntu-Gettext-Domain=x", "Dev=1", "FSType=x", "MountPoint=/", "ReadOnly=1", "UnmountIcon=/x")
	}},
	{"key-instance-tag-forged", func(g *c27Gen) string {
		return "X-SnapInstanceName" + g.pick("=", " =", "[de]=") + g.pick("evil", g.s.instance(), g.s.Name, g.s.Name+"_other", "")
	}},
	{"key-decorated", func(g *c27Gen) string {
		k := g.pick(g.plainKey(), g.locKey(), "Icon")
		return g.pick(k+" =", k+"\t=", " "+k+"=", k+"X=", k+"s=", strings.ToLower(k)+"=", k+"-x=", k+"[de]x=", k+"[de][fr]=", k+"[de =", k+"]=", k+"\x00=", k+"\xc3=", k[:len(k)-1]+"=", k+"${SNAP}=", "X-"+k+"=") + g.word()
	}},
	{"line-without-equals", func(g *c27Gen) string { return g.pick("nonsense", "Name", "Exec", "Icon", "Desktop Entry", "]", "[", "${SNAP}", "Name foo", "\x7f", "\u2028") }},
	// ---- headers ----------------------------------------------------------------
	{"header-valid", func(g *c27Gen) string {
		return g.pick("[Desktop Entry]", "[Desktop Action New]", "[Desktop Action new-window-2]", "[Desktop Action -]", "[NewWindow Shortcut Group]", "[x-1 Shortcut Group]")
	}},
	{"header-invalid", func(g *c27Gen) string {
		return g.pick("[Desktop Entry] ", " [Desktop Entry]", "[desktop entry]", "[Desktop Entry]x", "[Desktop Entry]]", "[[Desktop Entry]", "[Desktop Entry", "[Desktop  Entry]",
			"[Desktop Entry]\r\r", "[Desktop Entry]\x00", "[Desktop Entry]${SNAP}", "[Desktop Action ]", "[Desktop Action a b]", "[Desktop Action a/b]", "[Desktop Action a_b]",
			"[Desktop Action ${SNAP}]", "[Desktop Action é]", "[Desktop Action x\xff]", "[Desktop Action x]]", "[Desktop Action x] ", "[Desktop Actions x]", "[ Shortcut Group]",
			"[a b Shortcut Group]", "[x Shortcut Group] ", "[x Shortcut Groups]", "[x  Shortcut Group]", "[x.y Shortcut Group]", "[Evil]", "[X-Foo]", "[]", "[KDE Desktop Entry]",
			"[Desktop Entry][Evil]", "[Desktop Action x][Evil]")
	}},
	// ---- Icon -------------------------------------------------------------------
	{"icon-in-snap", func(g *c27Gen) string {
		return "Icon=${SNAP}/" + g.pick("meta/gui/icon.png", "x.svg", "usr/share/icons/hicolor/48x48/apps/a b.png", "..x/y", "x..", "...", "a/.b", "a\\..\\b", "%U", "x=y", "é.png", "x\x00y", "x\xff")
	}},
	{"icon-dotdot", func(g *c27Gen) string {
		return "Icon=${SNAP}/" + g.pick("../x.png", "..", "../", "a/../../x", "a/../../../../../etc/x.png", "./x", "a//b", "a/./b", "x/", "/x", "", "a/..", "../"+g.s.revString()+"x/y", "..\x00/x", "a/../b")
	}},
	{"icon-absolute-or-relative-path", func(g *c27Gen) string {
		return "Icon=" + g.pick("/usr/share/icons/x.png", "/etc/passwd", "/", "//", "/snap/other/1/x.png", g.mount+"/x.png", g.mount+"/../x.png", g.mount, "/snap/"+g.s.instance()+"/current/x.png",
			"a/b", "../x", "./x", "x/", "~/x.png", "file:///x.png", " ${SNAP}/x", "$SNAP/x", "${SNAP_DATA}/x", "${snap}/x", "${SNAP }/x", "$${SNAP}/x", "{SNAP}/x", "${SNAP_COMMON}/../x", "\\${SNAP}/x")
	}},
	{"icon-name", func(g *c27Gen) string { return "Icon=" + g.pick("firefox", "x", "", "a.b", "..", ".", "a\\b", "é", "a b", "$SNAP", "${SNAP_DATA}", "x\x00", "=", "%k") }},
	{"icon-snapname", func(g *c27Gen) string {
		return "Icon=snap." + g.pick(g.s.Name+".icon", g.s.Name+".", g.s.Name, g.s.Name+"x.icon", g.s.instance()+".icon", "other.icon", "", g.s.Name+"..", g.s.Name+".${SNAP}")
	}},
	{"icon-SNAP-glued-or-embedded", func(g *c27Gen) string {
		return "Icon=" + g.pick("${SNAP}zmeep.png", "${SNAP}", "${SNAP}x", "${SNAP}.png", "${SNAP}-evil", "x${SNAP}", "x${SNAP}y", "${SNAP}${SNAP}", "${SNA${SNAP}P}", "..${SNAP}", "${SNAP}..",
			"${SNAP}/..${SNAP}/x.png", "${SNAP}/a${SNAP}", "${SNAP}/${SNAP}", "${SNAP}/a/${SNAP}", "${SNAP}/..${SNAP}", "${SNAP}/x${SNAP}/../y", "${SNAP}/...${SNAP}")
	}},
	{"icon-key-decorated", func(g *c27Gen) string {
		return g.pick("Icon =", " Icon=", "Icon[de]=", "icon=", "Icon\x00=", "Icon\t=", "Icons=", "X-Icon=") + g.pick("/etc/x.png", "${SNAP}/../x", "x")
	}},
	// ---- control characters, encodings, sizes ---------------------------------------
	{"cr-inside-line", func(g *c27Gen) string {
		return g.pick("Name=x", "Comment[de]=y", "# c", "", "Exec="+g.cmd(), "Icon=${SNAP}/x", "[Desktop Entry]", "Bogus=1") + "\r" + g.pick("Exec=/bin/sh", "Icon=/etc/x", "[Evil]", "X-Evil=1", "TryExec=x", "")
	}},
	{"nul-inside-line", func(g *c27Gen) string {
		return g.pick("Name=x", "", "Exec="+g.cmd(), "Exec="+g.cmd()+" ", "Icon=${SNAP}/x", "#") + "\x00" + g.pick("Exec=/bin/sh", "/../../etc/x", "", " /bin/sh")
	}},
	{"invalid-utf8", func(g *c27Gen) string {
		return g.pick("Name=\xff\xfe", "\xc0\xafExec=/bin/sh", "Name[\xe9]=x", "Comment=\xed\xa0\x80", "\xef\xbb\xbf[Desktop Entry]", "Exec="+g.cmd()+"\xff", "Exec="+g.cmd()+" \xf0\x28", "Icon=${SNAP}/\xfe/../x", "\x80")
	}},
	{"unicode-space-or-separator", func(g *c27Gen) string {
		return g.pick("\u00a0", "\u2003Exec=/bin/sh", "Name=x\u2028Exec=/bin/sh", "Name=x\u0085Exec=/bin/sh", "\u3000# c", "\v", "\v#", "\f", " \t\f\r ", "\t# Exec=/bin/sh", "\x1c", "Name=x\vExec=/bin/sh", "Name=x\fExec=/bin/sh")
	}},
	{"comment", func(g *c27Gen) string { return g.pick("# comment", "#Exec=/bin/sh", "  # ${SNAP}", "#", "#[Evil]") }},
	{"blank", func(g *c27Gen) string { return g.pick("", " ", "\t", "  \t ") }},
	{"long-line", func(g *c27Gen) string {
		n := []int{65520, 65534, 65535, 65536, 65537, 70000, 131073}[g.r.Intn(7)]
		head := g.pick("Name=", "Exec="+g.cmd()+" ", "Exec=/bin/sh ", "Icon=${SNAP}/", "# ", "Bogus=", "", "Comment[de]=")
		if n < len(head) {
			n = len(head)
		}
		fill := g.pick("a", "é", " ", "${SNAP}", "/..", "\x00")
		l := head + strings.Repeat(fill, (n-len(head))/len(fill)+1)
		return l[:n]
	}},
}

// weights: long lines are expensive, keep them rare
func c27PickOp(r *rand.Rand) *c27Op {
	for {
		op := &c27Ops[r.Intn(len(c27Ops))]
		if op.name == "long-line" && r.Intn(100) >= 12 {
			continue
		}
		return op
	}
}

func (g *c27Gen) template() []string {
	c := g.cmd()
	switch g.r.Intn(4) {
	case 0:
		return []string{"[Desktop Entry]", "Name=Foo", "Exec=" + c + " %U", "Icon=${SNAP}/meta/gui/icon.png"}
	case 1:
		return []string{"[Desktop Entry]", "Version=1.0", "Type=Application", "Name=Foo", "Name[de]=Fuu", "GenericName=Thing", "Comment=A thing", "Comment[en_GB]=A thyng",
			"Icon=${SNAP}/usr/share/icons/foo.svg", "Exec=" + c, "Terminal=false", "Categories=Utility;", "Keywords=foo;bar;", "Keywords[sr@latin]=fu;", "MimeType=text/html;",
			"StartupNotify=true", "StartupWMClass=Foo", "Actions=New;Private;", "", "[Desktop Action New]", "Name=New Window", "Exec=" + g.cmd() + " --new-window %u", "",
			"[Desktop Action Private]", "Name=Private", "Exec=" + g.cmd() + " --private", "Icon=snap." + g.s.Name + ".private"}
	case 2:
		return []string{"# shipped by " + g.s.Name, "", "[Desktop Entry]", "Type=Application", "Name=Foo", "Icon=foo", "Exec=" + c + " %F", "X-Ayatana-Desktop-Shortcuts=NewWindow;",
			"", "[NewWindow Shortcut Group]", "Name=New Window", "Exec=" + g.cmd() + " -w", "TargetEnvironment=Unity"}
	}
	return []string{"[Desktop Entry]", "Type=Application", "Name=" + g.s.Name, "Exec=" + c, "NoDisplay=true", "OnlyShowIn=GNOME;", "Hidden=false", "SingleMainWindow=true", "PrefersNonDefaultGPU=false"}
}

// c27GenCase is a pure function of (seed, shard, idx).
func c27GenCase(r *rand.Rand, pool []*c27Snap, mountOf func(*c27Snap) string, idx int) *c27Case {
	s := pool[r.Intn(len(pool))]
	return c27GenFor(r, s, mountOf(s), idx, false)
}

// c27GenFor generates one desktop file for the given snap. With multi set the
// operators of c27MultiOps are mixed in (the random stream of the single-file
// phases is untouched).
func c27GenFor(r *rand.Rand, s *c27Snap, mount string, idx int, multi bool) *c27Case {
	g := &c27Gen{r: r, s: s, mount: mount, ops: map[string]bool{}, multi: multi}
	cs := &c27Case{Idx: idx, Snap: s}
	cs.FileBase = g.pick("app", "foo", g.app(), s.Name, s.instance(), "x-y.z", g.app()+"_"+g.app(), "org.example.Foo")
	if g.pct(10) {
		cs.AppStyle, cs.FileBase = true, g.app()
	}
	var lines []string
	switch k := r.Intn(100); {
	case k < 4: // nothing but hostile lines
	case k < 8:
		lines = g.template()[1:] // header missing
		g.ops["no-desktop-entry-header"] = true
	default:
		lines = g.template()
	}
	nmut := []int{0, 1, 1, 2, 2, 3, 3, 4, 5, 6, 9}[r.Intn(11)]
	if len(lines) == 0 {
		nmut += 2
	}
	if multi {
		nmut += r.Intn(3)
	}
	for m := 0; m < nmut; m++ {
		op := c27PickOp(r)
		if g.multi && g.pct(35) {
			op = &c27MultiOps[r.Intn(len(c27MultiOps))]
		}
		g.ops[op.name] = true
		l := op.gen(g)
		pos := r.Intn(len(lines) + 1)
		switch {
		case len(lines) > 0 && g.pct(25): // replace a line
			lines[r.Intn(len(lines))] = l
		case g.pct(15): // hostile line right after a (the) [Desktop Entry] header, where the tag goes
			pos = 0
			for i, x := range lines {
				if x == "[Desktop Entry]" {
					pos = i + 1
				}
			}
			fallthrough
		default:
			lines = append(lines[:pos], append([]string{l}, lines[pos:]...)...)
		}
	}
	eol := "\n"
	switch k := r.Intn(100); {
	case k < 10:
		eol = "\r\n"
		g.ops["eol-crlf"] = true
	case k < 13:
		eol = "\r"
		g.ops["eol-cr-only"] = true
	case k < 15:
		eol = "\n\r"
		g.ops["eol-lfcr"] = true
	}
	cs.Content = strings.Join(lines, eol)
	if len(lines) > 0 && g.pct(75) {
		cs.Content += eol
	} else {
		g.ops["no-final-newline"] = true
	}
	if g.pct(3) {
		cs.Content = g.pick("\xef\xbb\xbf", "\x00", "\n\n", "\r", " ") + cs.Content
		g.ops["file-prefix-garbage"] = true
	}
	for o := range g.ops {
		cs.Ops = append(cs.Ops, o)
	}
	sort.Strings(cs.Ops)
	return cs
}
