// C27 — snaps shipping SEVERAL desktop files, installed through the real
// EnsureSnapDesktopFiles (deriveDesktopFilesContent keeps the sanitized
// content of every file of a snap until all of them are written). Generator
// of the multi-file cases and the helpers of that phase.
package wrappers

import (
	"math/rand"
	"sort"
	"strings"
)

// Texts that are harmless inside an allow-listed value but would be a
// dangerous (or at least foreign) line if they ever started a line.
var c27Dangerous = []string{"Exec=/bin/sh -c evil", "Exec=evil.app %U", "Exec=/usr/bin/env sh", "Icon=/etc/passwd", "Icon=/usr/share/icons/../../../etc/x.png",
	"[Desktop Action x]", "[Evil]", "TryExec=/bin/sh", "X-KDE-SubstituteUID=true", "X-SnapInstanceName=evil", "DBusActivatable=true"}

// c27MultiOps: lines whose VALUE carries such a text, repeated and shifted by a
// random pad so that over the cases it sits at every byte offset modulo its
// period, and plain padding lines that vary the lengths of the files.
var c27MultiOps = []c27Op{
	{"value-embeds-dangerous-line", func(g *c27Gen) string {
		key := g.pick("Comment", "Name", "GenericName", "Keywords", "Comment[de]", "Name[en_GB]", "GenericName[sr@latin]", "Categories", "StartupWMClass")
		d := c27Dangerous[g.r.Intn(len(c27Dangerous))]
		sep := g.pick(" ", ";", "", "  ", "\t")
		pad := strings.Repeat(g.pick("x", " ", "é", ";"), g.r.Intn(len(d)+len(sep)+1))
		return key + "=" + pad + strings.Repeat(d+sep, 1+g.r.Intn(40))
	}},
	{"value-embeds-dangerous-line-once", func(g *c27Gen) string {
		key := g.pick("Comment", "Name", "GenericName")
		return key + "=" + strings.Repeat("x", g.r.Intn(300)) + c27Dangerous[g.r.Intn(len(c27Dangerous))]
	}},
	{"value-padding", func(g *c27Gen) string {
		return g.pick("Comment", "Name", "GenericName", "Keywords[de]") + "=" + strings.Repeat(g.pick("p", "lorem ipsum ", "é"), g.r.Intn(200))
	}},
}

type c27MultiSnap struct {
	Snap  *c27Snap
	Files []*c27Case // distinct FileBase, in the order filepath.Glob lists them (byte order)
}

type c27MultiCase struct {
	Idx    int
	Procs1 bool // run with GOMAXPROCS(1)
	Snaps  []*c27MultiSnap
}

// c27GenMulti: 1-3 snaps with distinct instance names handed to ONE
// EnsureSnapDesktopFiles call; the first ships 2-5 desktop files, the others
// 1-5. Pure function of (seed, shard, idx).
func c27GenMulti(r *rand.Rand, pool []*c27Snap, mountOf func(*c27Snap) string, idx int) *c27MultiCase {
	mc := &c27MultiCase{Idx: idx}
	nSnaps := []int{1, 1, 1, 2, 2, 3}[r.Intn(6)]
	used := map[string]bool{}
	for len(mc.Snaps) < nSnaps {
		s := pool[r.Intn(len(pool))]
		if used[s.instance()] {
			continue
		}
		used[s.instance()] = true
		k := 1 + r.Intn(5)
		if len(mc.Snaps) == 0 {
			k = 2 + r.Intn(4)
		}
		cand := append([]string{"a", "b", "m", "zz", "0", "B", "app", "foo", "x-y.z", "org.example.Foo", s.Name, s.instance(), s.Name + "-2"}, s.Apps...)
		r.Shuffle(len(cand), func(i, j int) { cand[i], cand[j] = cand[j], cand[i] })
		ms := &c27MultiSnap{Snap: s}
		seen := map[string]bool{}
		for _, b := range cand {
			if len(ms.Files) == k {
				break
			}
			if seen[b] {
				continue
			}
			seen[b] = true
			cs := c27GenFor(r, s, mountOf(s), idx, true)
			cs.FileBase, cs.AppStyle = b, false
			ms.Files = append(ms.Files, cs)
		}
		sort.Slice(ms.Files, func(i, j int) bool { return ms.Files[i].FileBase+".desktop" < ms.Files[j].FileBase+".desktop" })
		mc.Snaps = append(mc.Snaps, ms)
	}
	return mc
}

// c27StartsDangerous reports whether s begins with one of the dangerous texts.
func c27StartsDangerous(s string) bool {
	for _, d := range c27Dangerous {
		if strings.HasPrefix(s, d) {
			return true
		}
	}
	return false
}
