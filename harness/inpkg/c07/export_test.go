package overlord

// VerifEnsureTimerSetup creates the ensure timer that the production state
// backend's EnsureBefore needs, without starting the overlord loop.
func VerifEnsureTimerSetup(o *Overlord) { o.ensureTimerSetup() }
