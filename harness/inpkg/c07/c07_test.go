// C07 — serialized task kinds never run concurrently.
//
// The runner is the production-wired one (overlord.New registers the real
// blocked predicates of hookstate, ifacestate, snapstate and devicestate); only
// the handler BODIES are replaced by spies that record which handlers are open.
package overlord_test

import (
	"fmt"
	"math/rand"
	"os"
	"sort"
	"strings"
	"sync"
	"testing"
	"time"

	"gopkg.in/tomb.v2"

	kit "verifkit"

	"github.com/snapcore/snapd/dirs"
	"github.com/snapcore/snapd/overlord"
	"github.com/snapcore/snapd/overlord/hookstate"
	"github.com/snapcore/snapd/overlord/ifacestate"
	"github.com/snapcore/snapd/overlord/state"
)

// the list is part of the oracle (from the documentation of the interface
// manager at the pinned commit), NOT read from the implementation
var ifaceKinds = []string{"connect", "disconnect", "setup-profiles", "remove-profiles", "discard-conns", "auto-connect",
	"auto-disconnect", "hotplug-add-slot", "hotplug-connect", "hotplug-update-slot", "hotplug-remove-slot", "hotplug-disconnect"}

var plainKinds = []string{"verif-plain-a", "verif-plain-b"}

type c07Task struct {
	Kind  string `json:"kind"`
	Snap  string `json:"snap,omitempty"`
	Comp  string `json:"component,omitempty"` // hook of a component of Snap (still a hook of that snap)
	Waits []int  `json:"waits,omitempty"`
	Chg   int    `json:"change"`
	Fail  bool   `json:"fail,omitempty"`
	NapUs int    `json:"nap_us"`
}

func classOf(t *c07Task) string {
	switch {
	case t.Kind == "run-hook":
		return "hook:" + t.Snap
	case t.Kind == "prerequisites":
		return "prerequisites"
	case t.Kind == "update-gadget-assets":
		return "gadget"
	}
	for _, k := range ifaceKinds {
		if k == t.Kind {
			return "iface"
		}
	}
	return ""
}

type openRec struct {
	idx   int
	phase string
}

type c07Mon struct {
	mu             sync.Mutex
	tasks          []c07Task
	byID           map[string]int
	open           map[int]string
	maxOpen        int
	opens          int
	viols          []map[string]interface{}
	sameCls        int // opens that happened while another task of an exclusive class was open (allowed combos)
	tombs          map[int]*tomb.Tomb
	killedInFlight int
	failed         int
	openAtFailure  int
	besideAborted  int // handler starts that happened while an aborted (killed) handler was still running
}

func (m *c07Mon) enter(idx int, phase string, tb *tomb.Tomb) {
	m.mu.Lock()
	defer m.mu.Unlock()
	if m.tombs == nil {
		m.tombs = map[int]*tomb.Tomb{}
	}
	for o := range m.open {
		if ot := m.tombs[o]; ot != nil && !ot.Alive() {
			m.besideAborted++
			break
		}
	}
	m.tombs[idx] = tb
	if os.Getenv("VERIF_DEBUG") != "" && (m.tasks[idx].Snap == "snap-z" || m.tasks[idx].Kind == plainKinds[1]) {
		fmt.Printf("DEBUG enter %d %s/%s %s at %v\n", idx, m.tasks[idx].Kind, m.tasks[idx].Snap, phase, time.Now().Format("05.000000"))
	}
	me := &m.tasks[idx]
	myClass := classOf(me)
	for o, oph := range m.open {
		other := &m.tasks[o]
		oc := classOf(other)
		bad := ""
		switch {
		case myClass == "gadget" || oc == "gadget":
			bad = "C07:gadget-asset-update-alongside-another-task"
		case myClass != "" && myClass == oc && strings.HasPrefix(myClass, "hook:"):
			bad = "C07:two-hooks-of-same-snap"
		case myClass == "iface" && oc == "iface":
			bad = "C07:two-interface-tasks"
		case myClass == "prerequisites" && oc == "prerequisites":
			bad = "C07:two-prerequisites-tasks"
		}
		if bad != "" {
			m.viols = append(m.viols, map[string]interface{}{"sig": bad, "starting": fmt.Sprintf("%d:%s:%s/%s", idx, me.Kind, me.Snap, phase),
				"already_open": fmt.Sprintf("%d:%s:%s/%s", o, other.Kind, other.Snap, oph)})
		}
	}
	m.open[idx] = phase
	m.opens++
	if len(m.open) > m.maxOpen {
		m.maxOpen = len(m.open)
	}
}

func (m *c07Mon) leave(idx int) {
	m.mu.Lock()
	if os.Getenv("VERIF_DEBUG") != "" && m.tasks[idx].Snap == "snap-z" {
		fmt.Printf("DEBUG leave %d %s alive=%v at %v\n", idx, m.tasks[idx].Kind, m.tombs[idx].Alive(), time.Now().Format("05.000000"))
	}
	if tb := m.tombs[idx]; tb != nil && !tb.Alive() {
		m.killedInFlight++
	}
	delete(m.open, idx)
	m.mu.Unlock()
}

var curMon *c07Mon // the spies are registered once per overlord and consult the current case
var curMu sync.Mutex

func spy(phase string) state.HandlerFunc {
	return func(t *state.Task, tb *tomb.Tomb) error {
		curMu.Lock()
		m := curMon
		curMu.Unlock()
		idx, ok := m.byID[t.ID()]
		if !ok {
			return nil
		}
		m.enter(idx, phase, tb)
		time.Sleep(time.Duration(m.tasks[idx].NapUs) * time.Microsecond)
		m.leave(idx)
		if phase == "do" && m.tasks[idx].Fail {
			m.mu.Lock()
			m.failed++
			if os.Getenv("VERIF_DEBUG") != "" && m.tasks[idx].Kind == plainKinds[1] {
				fmt.Printf("DEBUG fail %d at %v open=%d\n", idx, time.Now().Format("05.000000"), len(m.open))
			}
			m.openAtFailure += len(m.open)
			m.mu.Unlock()
			return fmt.Errorf("injected failure")
		}
		return nil
	}
}

func newOverlord(t *testing.T) *overlord.Overlord {
	root, err := os.MkdirTemp("", "c07-")
	if err != nil {
		t.Fatal(err)
	}
	dirs.SetRootDir(root)
	o, err := overlord.New(nil)
	if err != nil {
		t.Fatalf("overlord.New: %v", err)
	}
	overlord.VerifEnsureTimerSetup(o)
	r := o.TaskRunner()
	all := append(append([]string{}, ifaceKinds...), plainKinds...)
	all = append(all, "run-hook", "prerequisites", "update-gadget-assets")
	for _, k := range all {
		r.AddHandler(k, spy("do"), spy("undo"))
	}
	return o
}

func genC07(rnd *rand.Rand) []c07Task {
	nchg := 3 + rnd.Intn(8)
	n := 8 + rnd.Intn(40)
	snaps := []string{"snap-a", "snap-b", "snap-c"}
	var ts []c07Task
	pEdge := []float64{0.02, 0.08, 0.2}[rnd.Intn(3)]
	for i := 0; i < n; i++ {
		t := c07Task{Chg: rnd.Intn(nchg), NapUs: rnd.Intn(3000)}
		if rnd.Intn(5) == 0 {
			// long bodies keep running (they ignore the kill) well after an abort
			t.NapUs = 5000 + rnd.Intn(6000)
		}
		switch x := rnd.Intn(20); {
		case x < 6:
			t.Kind, t.Snap = "run-hook", snaps[rnd.Intn(len(snaps))]
			if rnd.Intn(3) == 0 {
				t.Comp = []string{"comp-x", "comp-y"}[rnd.Intn(2)]
			}
		case x < 12:
			t.Kind = ifaceKinds[rnd.Intn(len(ifaceKinds))]
		case x < 15:
			t.Kind = "prerequisites"
		case x < 16:
			t.Kind = "update-gadget-assets"
		default:
			t.Kind = plainKinds[rnd.Intn(len(plainKinds))]
		}
		for j := 0; j < i; j++ {
			if ts[j].Chg == t.Chg && rnd.Float64() < pEdge {
				t.Waits = append(t.Waits, j)
			}
		}
		t.Fail = rnd.Intn(8) == 0
		ts = append(ts, t)
	}
	if rnd.Intn(2) == 0 {
		// abort-heavy shape: in every change a plain task fails quickly while
		// long-running tasks of the serialized classes are in flight (they
		// ignore the kill and keep running in Abort status), and other
		// changes have runnable tasks of the same classes waiting
		for c := 0; c < nchg; c++ {
			ts = append(ts, c07Task{Kind: plainKinds[0], Chg: c, Fail: true, NapUs: 1500 + rnd.Intn(2500)})
		}
		for i := range ts {
			if classOf(&ts[i]) != "" && !ts[i].Fail {
				ts[i].NapUs = 15000 + rnd.Intn(25000)
				ts[i].Waits = nil
			}
		}
	}
	// directed trio present in every case: a hook of snap-z keeps running (it
	// ignores the kill) after a quick failure in its change aborted it, while a
	// second hook of snap-z in another change is runnable the whole time
	base := len(ts)
	ts = append(ts,
		c07Task{Kind: "run-hook", Snap: "snap-z", Comp: []string{"", "comp-x"}[rnd.Intn(2)], Chg: nchg, NapUs: 30000 + rnd.Intn(20000)},
		c07Task{Kind: plainKinds[1], Chg: nchg, Fail: true, NapUs: 1000 + rnd.Intn(3000)},
		c07Task{Kind: "run-hook", Snap: "snap-z", Chg: nchg + 1, NapUs: 1000 + rnd.Intn(3000)},
		c07Task{Kind: "update-gadget-assets", Chg: nchg + 1, Waits: []int{base + 2}, NapUs: 500},
	)
	return ts
}

func TestVerifC07(t *testing.T) {
	c := kit.New("C07", "exploration")
	defer c.Done(t)
	c.Rule("3-10 changes created at once over 8-47 tasks of kinds {run-hook(snap in 3 snaps), the 12 interface task kinds, prerequisites, update-gadget-assets, plain kinds}, sparse random wait edges (so that many tasks of the serialized classes are runnable at the same time), seeded 0-3 ms handler bodies, a few failing tasks to trigger undo handlers; 3 goroutines race TaskRunner.Ensure() on the production-wired runner under the race detector. The spy bodies record the set of open handlers; every open is judged against the set already open. Non-trivial: the case had at least two tasks of one serialized class with no dependency path between them (the predicate, not the graph, must keep them apart) and more than one handler was open at once; distinct = case signature.")
	c.Assume("handler bodies are spies; every blocked predicate consulted by Ensure is snapd's own, registered by overlord.New")
	c.Assume("the list of interface-manipulating task kinds is the documented one (hotplug-seq-wait deliberately excluded)")
	c.Floor("handler_opens", 600)
	c.Floor("unordered_same_class_pairs", 300)
	// the situation the aborted-handler clause needs: handlers really are aborted
	// in flight (steady: 50+ per quick run, 220+ per thorough shard) and other
	// handlers start beside them (schedule-dependent: 10-32 per quick run, but only
	// 1-32 per thorough shard when 16 shard processes share the cores, so the
	// per-process floor on it is kept for the quick tier only)
	c.Floor("handlers_killed_in_flight", int64(kit.Scale(20, 100)))
	if kit.Quick() {
		c.Floor("handler_starts_beside_an_aborted_running_handler", 3)
	}
	defer dirs.SetRootDir("/")
	restore := ifacestate.MockSecurityBackends(nil)
	defer restore()
	n := kit.Scale(60, 400)
	only := kit.OnlyCase()
	var o *overlord.Overlord
	for i := 0; i < n; i++ {
		if only >= 0 && i != only {
			continue
		}
		if true {
			if o != nil {
				o.TaskRunner().Stop()
				os.RemoveAll(dirs.GlobalRootDir)
			}
			o = newOverlord(t)
		}
		rnd := kit.CaseRand("c07", i)
		tasks := genC07(rnd)
		mon := &c07Mon{tasks: tasks, byID: map[string]int{}, open: map[int]string{}}
		curMu.Lock()
		curMon = mon
		curMu.Unlock()
		st := o.State()
		st.Lock()
		chgs := map[int]*state.Change{}
		sts := make([]*state.Task, len(tasks))
		for k := range tasks {
			tk := st.NewTask(tasks[k].Kind, fmt.Sprintf("t%d", k))
			if tasks[k].Kind == "run-hook" {
				tk.Set("hook-setup", &hookstate.HookSetup{Snap: tasks[k].Snap, Component: tasks[k].Comp, Hook: "configure", Optional: true})
			}
			for _, w := range tasks[k].Waits {
				tk.WaitFor(sts[w])
			}
			sts[k] = tk
			mon.byID[tk.ID()] = k
			if chgs[tasks[k].Chg] == nil {
				chgs[tasks[k].Chg] = st.NewChange("verif", fmt.Sprintf("case %d change %d", i, tasks[k].Chg))
			}
			chgs[tasks[k].Chg].AddTask(tk)
		}
		st.Unlock()
		// unordered same-class pairs (static)
		reach := make([]map[int]bool, len(tasks))
		for k := range tasks {
			reach[k] = map[int]bool{}
			for _, w := range tasks[k].Waits {
				reach[k][w] = true
				for x := range reach[w] {
					reach[k][x] = true
				}
			}
		}
		pairs := 0
		for a := range tasks {
			for b := 0; b < a; b++ {
				ca, cb := classOf(&tasks[a]), classOf(&tasks[b])
				if ca == "" || cb == "" || reach[a][b] {
					continue
				}
				if ca == cb || ca == "gadget" || cb == "gadget" {
					pairs++
				}
			}
		}
		// drive: racing Ensure passes until every change is ready
		var wg sync.WaitGroup
		stop := make(chan struct{})
		for g := 0; g < 2; g++ {
			wg.Add(1)
			go func() {
				defer wg.Done()
				for {
					select {
					case <-stop:
						return
					default:
					}
					o.TaskRunner().Ensure()
					time.Sleep(1500 * time.Microsecond)
				}
			}()
		}
		watchdog := false
		for iter := 0; ; iter++ {
			time.Sleep(500 * time.Microsecond)
			st.Lock()
			ready := true
			for _, ch := range chgs {
				if !ch.IsReady() {
					ready = false
				}
			}
			st.Unlock()
			if ready {
				break
			}
			if iter > 120000 { // ~1 min, watchdog only
				watchdog = true
				break
			}
		}
		close(stop)
		wg.Wait()
		o.TaskRunner().Wait()
		if watchdog {
			c.Inconclusive(fmt.Sprintf("case %d: changes did not become ready (watchdog)", i))
			continue
		}
		c.Eval()
		mon.mu.Lock()
		c.Count("handler_opens", mon.opens)
		c.Count("unordered_same_class_pairs", pairs)
		c.Count("handler_starts_beside_an_aborted_running_handler", mon.besideAborted)
		c.Count("handlers_killed_in_flight", mon.killedInFlight)
		c.Count("failed_handlers", mon.failed)
		c.Count("handlers_open_when_a_handler_failed", mon.openAtFailure)
		c.Max("max_handlers_open_at_once", mon.maxOpen)
		for _, v := range mon.viols {
			sig := v["sig"].(string)
			c.Violation(sig, map[string]interface{}{"case_index": i, "tasks": tasks, "detail": v})
		}
		if pairs > 0 && mon.maxOpen > 1 {
			var kinds []string
			for k := range tasks {
				kinds = append(kinds, fmt.Sprintf("%s/%s/%v/%d", tasks[k].Kind, tasks[k].Snap, tasks[k].Waits, tasks[k].Chg))
			}
			sort.Strings(kinds)
			c.Nontrivial(kit.Sig(strings.Join(kinds, ";")))
			c.Sample(map[string]interface{}{"case_index": i, "tasks": tasks, "max_open": mon.maxOpen, "unordered_same_class_pairs": pairs})
		}
		mon.mu.Unlock()
	}
	if o != nil {
		o.TaskRunner().Stop()
		os.RemoveAll(dirs.GlobalRootDir)
	}
}
