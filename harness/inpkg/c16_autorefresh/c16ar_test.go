// C16, second unit — the caller of the scheduler: autoRefresh.Ensure
// (overlord/snapstate/autorefresh.go).
//
// The real autoRefresh object of a real state.State (fixture of the package's
// own autoRefreshTestSuite: one installed snap, a fake store with nothing to
// refresh) is driven through generated sequences of steps: Ensure, change
// refresh.timer (valid timers from a small pool, plus unset / invalid /
// "managed" / legacy refresh.schedule), create an unready change of kind
// "auto-refresh" and later complete it, set last-refresh. After every Ensure
// that leaves no auto-refresh change in flight and has a timer in effect the
// planned instant NextRefresh() must be zero, inside a window of the timer
// that is in effect NOW (windows rebuilt here from an independent
// timeutil.ParseSchedule of the configured string), the maximum-postponement
// instant last+95d, or "now" when that limit has already passed.
//
// Time: Ensure reads time.Now() directly, it cannot be replaced from a test
// (only launchAutoRefresh and timeutil have hooks). So there is no virtual
// clock here: a scenario runs within milliseconds of real time and everything
// that would need a clock jump is expressed relative to the instant the
// scenario starts (timers whose windows open 2 h / 5 h / 10 h from now, are
// open now, or closed 2 h ago; last-refresh 0 s .. 100 d back). Instants that
// snapd picks itself are known to the oracle as [before call, after call]
// intervals; the duration of the call is the only tolerance. The verdict for a
// planned instant does not depend on the clock reading at all except for the
// "overdue, so now" clause.
package snapstate_test

import (
	"fmt"
	"strings"
	"time"

	. "gopkg.in/check.v1"

	kit "verifkit"

	"github.com/snapcore/snapd/overlord/configstate/config"
	"github.com/snapcore/snapd/overlord/snapstate"
	"github.com/snapcore/snapd/overlord/state"
	"github.com/snapcore/snapd/timeutil"
)

// by value, from the statement ("maximum postponement") and the anchor
// ("caller with 95-day bound")
const c16arMaxPostponement = 95 * 24 * time.Hour

// what applies when refresh.timer is unset or unusable
const c16arDefaultTimer = "00:00~24:00/4"

type verifC16ARSuite struct {
	autoRefreshTestSuite
}

var _ = Suite(&verifC16ARSuite{})

// fixed part of the timer pool; the grammar is the business of the first unit
var c16arFixedTimers = []string{
	"00:00-24:00/4",
	"mon,10:00-12:00",
	"23:38-00:08",
	"fri5,01:00~02:00",
	"sat,sun,03:00-04:00",
	"12:15",
	"06:00-07:00,18:00-19:00",
	"tue2,14:00~15:30",
	"mon-wed,20:00-21:00",
	"00:00~24:00/4",
}

// (start, end, spread) offsets in minutes from the start of the scenario
var c16arRelTimers = []struct {
	from, to int
	spread   bool
}{
	{120, 120, false},   // single event 2 h from now
	{300, 330, false},   // 30 min window 5 h from now
	{-30, 30, false},    // open now
	{60, 180, true},     // spread window 1 h .. 3 h from now
	{-180, -120, false}, // closed 2 h ago
	{600, 660, false},   // 10 h from now
	{-20, 40, true},     // open now, spread
}

func c16arClock(t time.Time) string { return fmt.Sprintf("%02d:%02d", t.Hour(), t.Minute()) }

func c16arTimer(now0 time.Time, i int) string {
	if i < len(c16arFixedTimers) {
		return c16arFixedTimers[i]
	}
	rt := c16arRelTimers[i-len(c16arFixedTimers)]
	a := now0.Add(time.Duration(rt.from) * time.Minute)
	if rt.from == rt.to {
		return c16arClock(a)
	}
	b := now0.Add(time.Duration(rt.to) * time.Minute)
	sep := "-"
	if rt.spread {
		sep = "~"
	}
	return c16arClock(a) + sep + c16arClock(b)
}

var c16arLastOffsets = []time.Duration{
	0, time.Minute, time.Hour, 5 * time.Hour, 24 * time.Hour, 3 * 24 * time.Hour, 30 * 24 * time.Hour,
	94*24*time.Hour + 20*time.Hour, c16arMaxPostponement - 2*time.Minute, c16arMaxPostponement - time.Hour,
	c16arMaxPostponement + 2*time.Minute, 100 * 24 * time.Hour,
}

// c16arInWindow: t lies in [Start, End+slack] of a window of the timer, built
// from the parsed timer's week spans and (unsplit) clock spans on the day of t
// and the day before (windows may cross midnight). A single clock time is the
// minute it names. '/N' sub-windows lie inside their span, any instant of a
// '~' window counts.
func c16arInWindow(sched []*timeutil.Schedule, t time.Time, slack time.Duration) bool {
	for _, s := range sched {
		spans := s.ClockSpans
		if len(spans) == 0 {
			spans = []timeutil.ClockSpan{{}}
		}
		for _, day := range []time.Time{t, t.Add(-24 * time.Hour)} {
			if len(s.WeekSpans) > 0 {
				match := false
				for _, ws := range s.WeekSpans {
					if ws.Match(day) {
						match = true
						break
					}
				}
				if !match {
					continue
				}
			}
			for _, span := range spans {
				w := span.Window(day)
				end := w.End
				if end.Equal(w.Start) {
					end = end.Add(time.Minute)
				}
				if !t.Before(w.Start) && !t.After(end.Add(slack)) {
					return true
				}
			}
		}
	}
	return false
}

type c16arStep struct {
	Op    string `json:"op"`
	Arg   string `json:"arg,omitempty"`
	Plan  string `json:"planned,omitempty"`
	Judge string `json:"verdict,omitempty"`
}

type c16arRun struct {
	s   *verifC16ARSuite
	c   *C
	chk *kit.Check
	idx int
	af  interface {
		Ensure() error
		NextRefresh() time.Time
		RefreshSchedule() (string, bool, error)
	}

	now0 time.Time

	// what the harness configured
	timer  interface{} // string or nil
	legacy interface{}

	task *state.Task // the task of the harness's in-flight auto-refresh change

	timerChangedSinceEnsure bool

	// the last planned instant that was judged acceptable, and for which timer
	judgedT     time.Time
	judgedTimer string

	steps  []c16arStep
	shape  []string
	sawKey bool
}

func (r *c16arRun) setConf(key string, v interface{}) {
	tr := config.NewTransaction(r.s.state)
	tr.Set("core", key, v)
	tr.Commit()
}

// effective returns the timer string that is in effect according to the
// configuration the harness wrote: kind is "timer", "managed" or "legacy".
func (r *c16arRun) effective() (kind, timer string) {
	ts, _ := r.timer.(string)
	if ts == "" {
		if ls, _ := r.legacy.(string); ls != "" {
			if ls == "managed" {
				return "managed", ""
			}
			return "legacy", ls
		}
		return "timer", c16arDefaultTimer
	}
	if ts == "managed" {
		return "managed", ""
	}
	if _, err := timeutil.ParseSchedule(ts); err != nil {
		return "timer", c16arDefaultTimer
	}
	return "timer", ts
}

// conf applies a configuration step and records whether the timer in effect
// changed by it.
func (r *c16arRun) conf(f func()) (changed bool) {
	k0, t0 := r.effective()
	f()
	k1, t1 := r.effective()
	if k0 != k1 || t0 != t1 {
		r.timerChangedSinceEnsure = true
		r.chk.Count("ar_timer_changes", 1)
		if r.inFlight() {
			r.chk.Count("ar_timer_changes_while_auto_refresh_in_flight", 1)
		}
		return true
	}
	return false
}

func (r *c16arRun) inFlight() bool {
	for _, chg := range r.s.state.Changes() {
		if chg.Kind() == "auto-refresh" && !chg.IsReady() {
			return true
		}
	}
	return false
}

func (r *c16arRun) note(op, arg string) *c16arStep {
	r.steps = append(r.steps, c16arStep{Op: op, Arg: arg})
	return &r.steps[len(r.steps)-1]
}

func (r *c16arRun) witness(extra map[string]interface{}) map[string]interface{} {
	w := map[string]interface{}{
		"unit": "autorefresh", "case_index": r.idx, "scenario_start": r.now0.Format(time.RFC3339),
		"steps": r.steps,
	}
	for k, v := range extra {
		w[k] = v
	}
	return w
}

// state lock held on entry and on return
func (r *c16arRun) ensure() {
	st := r.s.state
	chk := r.chk
	step := r.note("ensure", "")

	var last time.Time
	st.Get("last-refresh", &last)
	wasInFlight := r.inFlight()
	tBefore := r.af.NextRefresh()

	st.Unlock()
	before := time.Now()
	err := r.af.Ensure()
	after := time.Now()
	st.Lock()

	chk.Eval()
	chk.Count("ar_ensure_calls", 1)
	changedSince := r.timerChangedSinceEnsure
	r.timerChangedSinceEnsure = false
	if changedSince && wasInFlight {
		chk.Count("ar_timer_changes_first_seen_while_auto_refresh_in_flight", 1)
		r.shape = append(r.shape, "E!")
		r.sawKey = true
	} else {
		r.shape = append(r.shape, "E")
	}
	t := r.af.NextRefresh()
	if !t.IsZero() {
		step.Plan = t.Format(time.RFC3339Nano)
	}
	if err != nil {
		chk.Count("ar_ensure_errors_unjudged", 1)
		step.Judge = "error: " + err.Error()
		r.judgedT = time.Time{}
		return
	}
	if r.inFlight() {
		chk.Count("ar_ensure_unjudged_auto_refresh_in_flight", 1)
		step.Judge = "unjudged: in flight"
		return
	}
	kind, eff := r.effective()
	// the model of "which timer is in effect" against what snapd reports
	got, gotLegacy, serr := r.af.RefreshSchedule()
	want := eff
	if kind == "managed" {
		want = "managed"
	}
	if serr != nil || got != want || gotLegacy != (kind == "legacy") {
		// the harness's reading of the configuration is part of the oracle:
		// never judge with a timer snapd does not report as the one in effect
		chk.Count("ar_effective_timer_not_modelled_unjudged", 1)
		chk.Inconclusive(fmt.Sprintf("autorefresh unit: snapd reports timer %q (legacy %v, err %v), the harness expected %q from the configuration it wrote (case %d)", got, gotLegacy, serr, want, r.idx))
		step.Judge = fmt.Sprintf("unjudged: effective timer %q/%v, model %q", got, gotLegacy, want)
		r.judgedT = time.Time{}
		return
	}
	switch kind {
	case "managed":
		chk.Count("ar_ensure_unjudged_managed", 1)
		step.Judge = "unjudged: managed"
		r.judgedT = time.Time{}
		return
	case "legacy":
		chk.Count("ar_ensure_unjudged_legacy_schedule", 1)
		step.Judge = "unjudged: legacy"
		r.judgedT = time.Time{}
		return
	}

	chk.Count("ar_ensure_judged", 1)
	if changedSince {
		chk.Count("ar_ensure_judged_after_timer_change", 1)
	}
	if t.IsZero() {
		chk.Count("ar_planned_nothing", 1)
		step.Judge = "nothing planned"
		r.judgedT = time.Time{}
		return
	}
	if !r.judgedT.IsZero() && t.Equal(r.judgedT) && eff == r.judgedTimer {
		chk.Count("ar_plan_carried_over_same_timer", 1)
		step.Judge = "carried over"
		return
	}
	fresh := !t.Equal(tBefore)
	if fresh {
		chk.Count("ar_plan_fresh", 1)
	} else {
		chk.Count("ar_plan_kept_across_timer_change", 1)
	}
	sched, perr := timeutil.ParseSchedule(eff)
	if perr != nil {
		chk.Inconclusive(fmt.Sprintf("autorefresh unit: effective timer %q does not parse: %v", eff, perr))
		return
	}
	slack := after.Sub(before)
	chk.Max("max_ar_ensure_call_us", int(slack/time.Microsecond))
	limit := last.Add(c16arMaxPostponement)
	verdict := ""
	switch {
	case c16arInWindow(sched, t, slack):
		verdict = "in window"
		chk.Count("ar_plan_in_window_of_current_timer", 1)
		if t.After(after) {
			chk.Count("ar_plan_in_window_ahead", 1)
		}
	case !last.IsZero() && limit.After(before) && !t.Before(limit) && !t.After(limit.Add(slack)):
		verdict = "at limit"
		chk.Count("ar_plan_at_limit", 1)
	case fresh && !last.IsZero() && !limit.After(after) && !t.Before(before) && !t.After(after):
		verdict = "overdue: now"
		chk.Count("ar_plan_now_overdue", 1)
	case fresh && last.IsZero() && !t.Before(before) && !t.After(after):
		verdict = "no last refresh: now"
		chk.Count("ar_plan_now_no_last_refresh", 1)
	}
	if verdict == "" {
		step.Judge = "VIOLATION"
		chk.Violation("C16:autorefresh:planned-outside-current-timer-windows", r.witness(map[string]interface{}{
			"timer_in_effect": eff, "planned": t.Format(time.RFC3339Nano), "last_refresh": last.Format(time.RFC3339Nano),
			"limit": limit.Format(time.RFC3339Nano), "ensure_between": []string{before.Format(time.RFC3339Nano), after.Format(time.RFC3339Nano)},
			"planned_in_this_call": fresh, "timer_of_last_accepted_plan": r.judgedTimer,
			"expected": "zero, or inside a window of the timer in effect, or last-refresh+95d, or now when overdue",
		}))
		r.judgedT = time.Time{}
		return
	}
	step.Judge = verdict
	r.judgedT = t
	r.judgedTimer = eff
}

func (s *verifC16ARSuite) c16arScenario(c *C, chk *kit.Check, idx int) {
	rnd := kit.CaseRand("c16autorefresh", idx)
	st := s.state
	st.Lock()
	defer st.Unlock()

	r := &c16arRun{s: s, c: c, chk: chk, idx: idx}
	r.now0 = time.Now()
	r.af = snapstate.NewAutoRefresh(st)

	if rnd.Intn(2) == 0 {
		restore := snapstate.MockRefreshRetryDelay(0)
		defer restore()
		r.note("retry-delay", "0")
	}

	npool := len(c16arFixedTimers) + len(c16arRelTimers)
	setTimer := func(i int) {
		tm := c16arTimer(r.now0, i)
		r.conf(func() {
			r.setConf("refresh.timer", tm)
			r.timer = tm
		})
		r.note("timer", tm)
		r.shape = append(r.shape, fmt.Sprintf("T%d", i))
	}
	setLast := func(i int) {
		off := c16arLastOffsets[i]
		st.Set("last-refresh", time.Now().Add(-off))
		r.note("last-refresh", "now-"+off.String())
		r.shape = append(r.shape, fmt.Sprintf("L%d", i))
	}

	// start: a last refresh and (mostly) a timer
	setLast(rnd.Intn(len(c16arLastOffsets)))
	if rnd.Intn(8) != 0 {
		setTimer(rnd.Intn(npool))
	}

	nsteps := 20 + rnd.Intn(41)
	for k := 0; k < nsteps && chk.Violations() < 20; k++ {
		p := rnd.Intn(100)
		switch {
		case p < 36:
			r.ensure()
		case p < 58:
			setTimer(rnd.Intn(npool))
		case p < 64:
			switch rnd.Intn(4) {
			case 0:
				r.conf(func() {
					r.setConf("refresh.timer", nil)
					r.timer = nil
				})
				r.note("timer", "(unset)")
				r.shape = append(r.shape, "Tu")
			case 1:
				r.conf(func() {
					r.setConf("refresh.timer", "invalid-99:99")
					r.timer = "invalid-99:99"
				})
				r.note("timer", "invalid-99:99")
				r.shape = append(r.shape, "Ti")
			case 2:
				r.conf(func() {
					r.setConf("refresh.timer", "managed")
					r.timer = "managed"
				})
				r.note("timer", "managed")
				r.shape = append(r.shape, "Tm")
			case 3:
				var v interface{}
				if r.legacy == nil {
					v = "00:00-24:00"
				}
				r.conf(func() {
					r.setConf("refresh.schedule", v)
					r.legacy = v
				})
				r.note("legacy-schedule", fmt.Sprint(v))
				r.shape = append(r.shape, "S")
			}
			chk.Count("ar_special_timer_steps", 1)
		case p < 74:
			setLast(rnd.Intn(len(c16arLastOffsets)))
		case p < 87:
			if r.task == nil {
				chg := st.NewChange("auto-refresh", `Auto-refresh snap "some-snap"`)
				r.task = st.NewTask("fake-refresh", "...")
				chg.AddTask(r.task)
				chk.Count("ar_in_flight_changes_started", 1)
				r.note("auto-refresh-change", "started")
				r.shape = append(r.shape, "C+")
			} else {
				r.ensure()
			}
		default:
			if r.task != nil {
				r.task.SetStatus(state.DoneStatus)
				r.task = nil
				r.note("auto-refresh-change", "done")
				r.shape = append(r.shape, "C-")
				// the change's completion is followed by an Ensure pass
				r.ensure()
			} else {
				r.ensure()
			}
		}
	}
	// always end on a settled, judged state
	if r.task != nil {
		r.task.SetStatus(state.DoneStatus)
		r.task = nil
		r.note("auto-refresh-change", "done")
		r.shape = append(r.shape, "C-")
	}
	r.ensure()
	r.ensure()

	chk.Count("ar_scenarios", 1)
	chk.Count("ar_store_refresh_queries", len(s.store.ops))
	if r.sawKey {
		chk.Nontrivial(kit.Sig("autorefresh", strings.Join(r.shape, " ")))
	}
	chk.Sample(map[string]interface{}{"unit": "autorefresh", "case_index": idx, "steps": r.steps})
}

func (s *verifC16ARSuite) TestVerifC16AutoRefresh(c *C) {
	chk := kit.New("C16", "exploration")
	defer chk.Done(c)
	chk.Rule("[unit autorefresh] A case is a generated sequence of 20-60 steps on the real autoRefresh of a real state: Ensure; set refresh.timer to one of 17 valid timers (10 fixed, 7 placed relative to the start of the scenario: open now, 1-10 h ahead, closed 2 h ago, single minute, spread); unset / invalid / managed timer, legacy refresh.schedule; set last-refresh 0 s .. 100 d back (around the 95-day limit); start an unready change of kind auto-refresh; complete it. Non-trivial: a refresh.timer change was first seen by Ensure while an auto-refresh change was in flight. Distinct by the sequence of step shapes (step kind, timer index, last-refresh index).")
	chk.Assume("[unit autorefresh] Ensure reads time.Now() directly: no virtual clock, a scenario runs within milliseconds of real time and clock jumps are expressed by timers / last-refresh placed relative to the scenario start; instants picked by snapd are known as [before call, after call] intervals and the duration of the call is the only tolerance")
	chk.Assume("[unit autorefresh] no refresh.hold, no metered connection, store online with nothing to refresh; Ensure calls in managed mode, with a legacy refresh.schedule in effect, with an auto-refresh change in flight afterwards or returning an error are counted and not judged; a planned instant that was accepted earlier for the same timer string is accepted while it is kept (cached plan, last-refresh may have moved since)")
	time.Local = time.UTC
	if only := kit.OnlyCase(); only >= 0 {
		chk.MinDistinct(0)
		s.c16arScenario(c, chk, only)
		return
	}
	n := kit.Scale(400, 1500)
	chk.Floor("ar_ensure_judged", int64(n)*5)
	chk.Floor("ar_timer_changes", int64(n)*3)
	chk.Floor("ar_timer_changes_while_auto_refresh_in_flight", int64(n)/2)
	chk.Floor("ar_timer_changes_first_seen_while_auto_refresh_in_flight", int64(n)/4)
	chk.Floor("ar_plan_in_window_ahead", int64(n))
	chk.Floor("ar_ensure_judged_after_timer_change", int64(n))
	chk.MinDistinct(n / 8)
	for idx := 0; idx < n; idx++ {
		if idx > 0 {
			s.TearDownTest(c)
			s.SetUpTest(c)
		}
		s.c16arScenario(c, chk, idx)
		if chk.Violations() >= 20 {
			break
		}
	}
}
