package snapstate_test

import (
	"fmt"
	"math/rand"
)

// The script of a history is a pure function of the case PRNG: nothing in it
// depends on what snapd answered. The generator keeps its own rough guess of
// which snaps are present / recently targeted only to bias the choice of the
// next request towards interesting ones.

var c14Snaps = []string{"some-snap", "some-other-snap", "services-snap"}

var c14ExclusiveKinds = []string{"remodel", "create-recovery-system", "remove-recovery-system", "transition-ubuntu-core", "transition-to-snapd-snap"}

type c14Req struct {
	Op    string   `json:"op"`
	Snaps []string `json:"snaps,omitempty"`
}

type c14Event struct {
	Kind   string `json:"kind"` // release | excl | exempt
	Arg    string `json:"arg,omitempty"`
	Snap   string `json:"snap,omitempty"`
	Settle bool   `json:"settle_first,omitempty"`
}

type c14Step struct {
	Pre      []c14Event `json:"pre,omitempty"`
	Req      c14Req     `json:"req"`
	Progress string     `json:"progress"`
}

type c14Script struct {
	Seeded map[string]string `json:"seeded"`
	Steps  []c14Step         `json:"steps"`
}

type c14Weighted struct {
	op string
	w  int
}

func c14Pick(r *rand.Rand, ws []c14Weighted) string {
	total := 0
	for _, w := range ws {
		total += w.w
	}
	x := r.Intn(total)
	for _, w := range ws {
		if x < w.w {
			return w.op
		}
		x -= w.w
	}
	return ws[0].op
}

var c14PresentOps = []c14Weighted{
	{"update", 5}, {"update-channel", 1}, {"revert", 3}, {"remove", 3}, {"remove-rev", 1}, {"disable", 3}, {"enable", 2},
	{"switch", 3}, {"alias", 2}, {"unalias", 1}, {"disable-aliases", 1}, {"prefer", 1}, {"connect", 1}, {"disconnect", 3},
	{"update-many", 2}, {"refresh-all", 1}, {"remove-many", 1}, {"install", 1}, {"install-many", 1},
}

var c14AbsentOps = []c14Weighted{
	{"install", 12}, {"install-many", 3}, {"update", 1}, {"remove", 1}, {"enable", 1}, {"switch", 1}, {"alias", 1},
	{"disconnect", 1}, {"update-many", 1}, {"remove-many", 1}, {"refresh-all", 1},
}

var c14SnapdOps = []c14Weighted{{"revert", 5}, {"update", 4}, {"switch", 1}, {"refresh-all", 1}}

func c14Gen(r *rand.Rand, nSteps int) c14Script {
	sc := c14Script{Seeded: map[string]string{}}
	present := map[string]bool{}
	for _, n := range c14Snaps {
		switch x := r.Intn(10); {
		case x < 3:
			sc.Seeded[n] = "absent"
		case x < 6:
			sc.Seeded[n] = "one"
			present[n] = true
		case x < 9:
			sc.Seeded[n] = "two"
			present[n] = true
		default:
			sc.Seeded[n] = "two-disabled"
			present[n] = true
		}
	}
	withSnapd := r.Intn(2) == 0
	if withSnapd {
		sc.Seeded["snapd"] = "three"
	}

	var hot []string // targeted since the last settle: probably busy
	held := 0
	for i := 0; i < nSteps; i++ {
		var step c14Step
		if held > 0 && r.Intn(3) == 0 {
			step.Pre = append(step.Pre, c14Event{Kind: "release"})
			held--
		}
		if r.Intn(7) == 0 {
			step.Pre = append(step.Pre, c14Event{Kind: "excl", Arg: c14ExclusiveKinds[r.Intn(len(c14ExclusiveKinds))], Settle: r.Intn(10) < 4})
			held++
		}
		if r.Intn(8) == 0 {
			kind := "pre-download"
			if r.Intn(2) == 0 {
				kind = "become-operational"
			}
			step.Pre = append(step.Pre, c14Event{Kind: "exempt", Arg: kind, Snap: c14Snaps[r.Intn(len(c14Snaps))]})
			held++
		}

		// target
		var name string
		switch {
		case withSnapd && r.Intn(5) == 0:
			name = "snapd"
		case len(hot) > 0 && r.Intn(100) < 55:
			name = hot[r.Intn(len(hot))]
		default:
			name = c14Snaps[r.Intn(len(c14Snaps))]
		}
		var op string
		switch {
		case name == "snapd":
			op = c14Pick(r, c14SnapdOps)
		case present[name]:
			op = c14Pick(r, c14PresentOps)
		default:
			op = c14Pick(r, c14AbsentOps)
		}
		req := c14Req{Op: op, Snaps: []string{name}}
		switch op {
		case "connect", "disconnect", "install-many", "update-many", "remove-many":
			other := name
			for other == name {
				other = c14Snaps[r.Intn(len(c14Snaps))]
			}
			if r.Intn(2) == 0 {
				req.Snaps = []string{name, other}
			} else {
				req.Snaps = []string{other, name}
			}
		case "refresh-all":
			req.Snaps = nil
		}
		step.Req = req
		switch op {
		case "install", "install-many":
			for _, n := range req.Snaps {
				present[n] = true
			}
		case "remove", "remove-many":
			for _, n := range req.Snaps {
				present[n] = false
			}
		}

		switch x := r.Intn(100); {
		case x < 35:
			step.Progress = "none"
		case x < 74:
			step.Progress = fmt.Sprintf("passes:%d", 1+r.Intn(4))
		case x < 94:
			step.Progress = "settle"
		default:
			step.Progress = "abort"
		}
		if step.Progress == "settle" {
			hot = nil
		} else {
			hot = append(hot, req.Snaps...)
		}
		sc.Steps = append(sc.Steps, step)
	}
	return sc
}
