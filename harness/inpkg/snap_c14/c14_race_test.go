package snapstate_test

import (
	"context"
	"encoding/json"
	"fmt"
	"sort"
	"strings"
	"time"

	. "gopkg.in/check.v1"

	kit "verifkit"

	"github.com/snapcore/snapd/overlord/snapstate"
	"github.com/snapcore/snapd/overlord/state"
	"github.com/snapcore/snapd/snap"
)

// Part (b): the record-changed race.
//
// Install/Update release the state lock while they talk to the store. A
// mutator goroutine uses exactly those windows (the c14Store wrapper sleeps a
// seeded 0-2 ms before and after the fake round trip, lock not held) to
//   - bump a version stamp in the SnapState of X (cohort key "v<n>"),
//   - make Y appear / disappear (as a competing install / remove would),
//   - start or retire a real change on X (snapstate.Switch + NewChange).
//
// The requester (one goroutine: the fake store is not meant for concurrent
// round trips) reads X's / Y's record under the lock, calls Update(X) or
// Install(Y) and, still under the lock when the call returns, re-reads it.
// Nothing can touch the state between the call's final internal check and its
// return (the lock is not released again), so:
//   - accepted although the record differs from what the caller read -> violation
//   - accepted although an unready change created meanwhile names X  -> violation
//   - accepted with a snap-setup carrying another stamp than the
//     record now has                                                 -> violation
// One in six calls is an Update(X, other channel) for which the store has no
// newer revision, i.e. the path that only switches the tracked channel.
// No wall-clock enters the verdict; sleeps only shape the schedule.

const c14RaceBase = 100000

type c14RaceShared struct {
	// all fields are guarded by the state lock
	mutations int
	sneak     *state.Change
}

// state must be locked
func c14RawSnap(st *state.State, name string) string {
	var all map[string]*json.RawMessage
	if err := st.Get("snaps", &all); err != nil || all[name] == nil {
		return ""
	}
	return string(*all[name])
}

func (s *verifC14Suite) c14RaceRound(c *C, k *kit.Check, idx int, nCalls int) {
	const X, Y = "some-snap", "some-other-snap"
	dr := kit.CaseRand("c14-race-delay", idx)
	s.c14Fixture(c, func() { time.Sleep(time.Duration(dr.Intn(2000)) * time.Microsecond) })
	st := s.state
	sh := &c14RaceShared{}

	st.Lock()
	s.c14SeedSnap(c, X, "one")
	var xs snapstate.SnapState
	c.Assert(snapstate.Get(st, X, &xs), IsNil)
	xs.CohortKey = "v0"
	snapstate.Set(st, X, &xs)
	st.Unlock()

	stop := make(chan struct{})
	done := make(chan struct{})
	go func() {
		defer close(done)
		mr := kit.CaseRand("c14-race-mutator", idx)
		n := 0
		for {
			select {
			case <-stop:
				return
			default:
			}
			time.Sleep(time.Duration(mr.Intn(5000)) * time.Microsecond)
			st.Lock()
			n++
			switch x := mr.Intn(10); {
			case x < 5:
				var snapst snapstate.SnapState
				if err := snapstate.Get(st, X, &snapst); err == nil {
					snapst.CohortKey = fmt.Sprintf("v%d", n)
					snapstate.Set(st, X, &snapst)
					sh.mutations++
				}
			case x < 8:
				if c14RawSnap(st, Y) == "" {
					s.c14SeedSnap(c, Y, "one")
					var ys snapstate.SnapState
					if err := snapstate.Get(st, Y, &ys); err == nil {
						ys.CohortKey = fmt.Sprintf("y%d", n)
						snapstate.Set(st, Y, &ys)
					}
				} else {
					snapstate.Set(st, Y, nil)
				}
				sh.mutations++
			default:
				if sh.sneak == nil {
					ts, err := snapstate.Switch(st, X, &snapstate.RevisionOptions{Channel: fmt.Sprintf("ch%d/stable", n)})
					if err == nil {
						chg := st.NewChange("switch-snap", "competing change")
						chg.AddAll(ts)
						sh.sneak = chg
						sh.mutations++
					}
				} else {
					// never ran: aborting puts its tasks on hold, the change is ready
					sh.sneak.Abort()
					sh.sneak = nil
					sh.mutations++
				}
			}
			st.Unlock()
		}
	}()

	rr := kit.CaseRand("c14-race-requester", idx)
	kinds := map[string]bool{}
	overlapped := 0
	for i := 0; i < nCalls; i++ {
		op, name := "update", X
		switch rr.Intn(6) {
		case 0, 1:
			op, name = "install", Y
		case 2:
			// the store has nothing newer than the installed revision: the
			// update only switches the tracked channel
			op = "update-metadata-only"
		}
		st.Lock()
		mut0 := sh.mutations
		rec0 := c14RawSnap(st, name)
		var ts *state.TaskSet
		var err error
		switch op {
		case "update":
			s.fakeStore.refreshRevnos = nil // the store offers revision 11
			ts, err = snapstate.Update(st, name, nil, s.user.ID, snapstate.Flags{})
		case "update-metadata-only":
			s.fakeStore.refreshRevnos = map[string]snap.Revision{c14SideInfo(X, 1).SnapID: snap.R(1)}
			ts, err = snapstate.Update(st, name, &snapstate.RevisionOptions{Channel: "other-channel/stable"}, s.user.ID, snapstate.Flags{})
		default:
			ts, err = snapstate.Install(context.Background(), st, name, &snapstate.RevisionOptions{Channel: "some-channel"}, s.user.ID, snapstate.Flags{})
		}
		// still under the lock taken before the call's final internal check
		mut1 := sh.mutations
		rec1 := c14RawSnap(st, name)
		sneakNow := name == X && sh.sneak != nil && !sh.sneak.Status().Ready()
		sneakID := ""
		if sneakNow {
			sneakID = sh.sneak.ID()
		}
		stampNow := ""
		if name == X {
			var snapst snapstate.SnapState
			if e := snapstate.Get(st, X, &snapst); e == nil {
				stampNow = snapst.CohortKey
			}
		}
		setupStamp := ""
		if err == nil && ts != nil && len(ts.Tasks()) > 0 {
			if snapsup, e := snapstate.TaskSnapSetup(ts.Tasks()[0]); e == nil && snapsup != nil {
				setupStamp = snapsup.CohortKey
			}
		}
		// the task sets of accepted calls are never linked to a change: drop
		// them (and retired competing changes) the way pruning would
		st.Prune(time.Time{}, 0, 10000*time.Hour, 0)
		st.Unlock()

		k.Count("race_calls", 1)
		k.Count("race_calls_"+op, 1)
		if mut1 != mut0 {
			overlapped++
			k.Count("race_calls_overlapping_a_mutation", 1)
			k.Max("max_race_mutations_inside_one_call", mut1-mut0)
		}
		if rec1 != rec0 {
			k.Count("race_calls_record_changed_meanwhile", 1)
		}
		wit := func() map[string]interface{} {
			return map[string]interface{}{
				"case_index": idx, "call": i, "op": op, "snap": name,
				"record_read_by_caller": rec0, "record_at_return": rec1,
				"mutations_during_call": mut1 - mut0, "competing_unready_change": sneakID,
				"snap_setup_cohort": setupStamp,
			}
		}
		if err == nil {
			k.Count("race_accepted", 1)
			k.Count("race_accepted_"+op, 1)
			kind := "accepted-clean"
			if mut1 != mut0 {
				kind = "accepted-unrelated-mutation"
				k.Count("race_accepted_with_unrelated_mutation_meanwhile", 1)
			}
			if rec1 != rec0 {
				kind = "VIOLATION-record-changed"
				k.Violation("C14:record-changed-accepted:"+op, wit())
			}
			if sneakNow {
				kind = "VIOLATION-competing-change"
				k.Violation("C14:busy-accepted:race-"+op+":while-switch-snap", wit())
			}
			if op != "install" && rec1 == rec0 && setupStamp != "" {
				k.Count("race_snap_setup_stamp_checks", 1)
				if setupStamp != stampNow {
					kind = "VIOLATION-stale-setup"
					k.Violation("C14:record-changed-accepted:stale-snap-setup", wit())
				}
			}
			kinds[kind] = true
		} else {
			class, isConflict, _ := c14ErrClass(err)
			switch {
			case isConflict && rec1 != rec0:
				k.Count("race_rejected_conflict_record_changed", 1)
				kinds["conflict-record-changed"] = true
			case isConflict && sneakNow:
				k.Count("race_rejected_conflict_competing_change", 1)
				kinds["conflict-competing-change"] = true
			case isConflict:
				// e.g. Y appeared and vanished again, or the competing change
				// came and went inside the window: spurious, not a violation
				k.Count("race_rejected_conflict_cause_gone", 1)
				kinds["conflict-cause-gone"] = true
			default:
				k.Count("race_rejected_"+class, 1)
				kinds["rejected-"+class] = true
			}
		}
	}
	close(stop)
	<-done

	st.Lock()
	k.Count("race_mutations", sh.mutations)
	st.Unlock()
	k.Count("race_rounds", 1)
	k.Eval()
	if overlapped > 0 {
		ks := make([]string, 0, len(kinds))
		for kd := range kinds {
			ks = append(ks, kd)
		}
		sort.Strings(ks)
		k.Nontrivial(kit.Sig("race", strings.Join(ks, ",")))
	}
}
