// C14 — no two in-progress changes ever operate on the same snap.
//
// The harness is compiled into overlord/snapstate (package snapstate_test) so
// that it can reuse snapmgrBaseTest: the real SnapManager, the real request
// entry points (Install/Update/Revert/Remove/Enable/Disable/Switch/Alias...,
// ifacestate.Connect/Disconnect), the real task graphs and handlers, with the
// package's fakeSnappyBackend/fakeStore as the system side.
//
// Part (a), sequential histories: a seed-determined script of ~12 requests over
// three snaps (+ snapd) is issued the way the daemon does it (request -> task
// sets -> NewChange(kind) + AddAll), interleaved with *partial* progress of the
// earlier changes (nothing / k ensure passes / settle / abort), with held
// changes of the exclusive kinds (remodel, create-/remove-recovery-system,
// transition-ubuntu-core, transition-to-snapd-snap), a real snapd downgrade
// (revert of snapd to a lower version) and held changes of the exempt kinds
// (pre-download, become-operational).
//
// The MODEL never looks at tasks and never calls SnapsAffectedByTask: for each
// accepted request it remembers the snap names the request named (for the
// *Many calls: the names the call reported as affected, which is what the
// daemon records) and the change the harness created; the names are freed when
// that change's status is ready.
//
// Oracle (one direction only, spurious conflicts are not violations):
//   - request accepted for a snap the model says is busy          -> violation
//   - request accepted while an exclusive change is unready       -> violation
//   - busy/exclusive and rejected, but neither with a
//     *ChangeConflictError nor with one of the precondition errors
//     that the entry points return before they reach the conflict
//     check (not installed, already enabled, ...)                 -> violation
//   - rejected request changed the number of changes, the number of
//     change-linked tasks or the "snaps" JSON                     -> violation
//
// Part (b), record-changed race: see c14_race_test.go.
package snapstate_test

import (
	"context"
	"encoding/json"
	"errors"
	"fmt"
	"os"
	"path/filepath"
	"regexp"
	"sort"
	"strings"
	"time"

	. "gopkg.in/check.v1"
	"gopkg.in/tomb.v2"

	kit "verifkit"

	"github.com/snapcore/snapd/dirs"
	"github.com/snapcore/snapd/interfaces"
	"github.com/snapcore/snapd/overlord/auth"
	"github.com/snapcore/snapd/overlord/ifacestate"
	"github.com/snapcore/snapd/overlord/snapstate"
	"github.com/snapcore/snapd/overlord/snapstate/snapstatetest"
	"github.com/snapcore/snapd/overlord/state"
	"github.com/snapcore/snapd/snap"
	"github.com/snapcore/snapd/store"
)

type verifC14Suite struct {
	snapmgrBaseTest
}

var _ = Suite(&verifC14Suite{})

// ---------------------------------------------------------------------------
// store wrapper: the seam for delays inside the store round trip (the state
// lock is NOT held there) and for giving snapd meaningful versions.

type c14Store struct {
	*fakeStore
	// delay is called before and after the real fake round trip, i.e. while
	// the request has released the state lock.
	delay func()
}

func (w *c14Store) SnapAction(ctx context.Context, cur []*store.CurrentSnap, actions []*store.SnapAction, aq store.AssertionQuery, user *auth.UserState, opts *store.RefreshOptions) ([]store.SnapActionResult, []store.AssertionResult, error) {
	if w.delay != nil {
		w.delay()
	}
	res, ares, err := w.fakeStore.SnapAction(ctx, cur, actions, aq, user, opts)
	for i := range res {
		if res[i].Info != nil && res[i].Info.SnapName() == "snapd" {
			res[i].Info.Version = c14SnapdVersion(res[i].Info.Revision)
		}
	}
	if w.delay != nil {
		w.delay()
	}
	return res, ares, err
}

func c14SnapdVersion(rev snap.Revision) string { return fmt.Sprintf("2.%d", rev.N) }

// ---------------------------------------------------------------------------
// fixture additions on top of snapmgrBaseTest.SetUpTest

var c14IfaceRegistered bool

// c14RegisterIfaceAffected makes the real ifacestate registration of
// connect/disconnect tasks with the conflict machinery happen (it is done by
// ifacestate.Manager, once per process) without keeping the check-snap
// callback and link participant that come with it (they need an assertion
// database this fixture does not have).
func c14RegisterIfaceAffected() error {
	if c14IfaceRegistered {
		return nil
	}
	restoreCB := snapstate.MockCheckSnapCallbacks(nil)
	restoreLP := snapstate.MockLinkSnapParticipants(nil)
	defer restoreCB()
	defer restoreLP()
	tmp := state.New(nil)
	if _, err := ifacestate.Manager(tmp, nil, state.NewTaskRunner(tmp), nil, nil); err != nil {
		return err
	}
	c14IfaceRegistered = true
	return nil
}

func (s *verifC14Suite) c14Fixture(c *C, delay func()) *c14Store {
	runner := s.o.TaskRunner()
	// a task that never finishes by itself: the harness completes it.
	runner.AddHandler("verif-hold", func(t *state.Task, _ *tomb.Tomb) error {
		return &state.Retry{After: 24 * time.Hour}
	}, nil)
	nop := func(t *state.Task, _ *tomb.Tomb) error { return nil }
	// the interface manager is not part of this fixture
	runner.AddHandler("disconnect", nop, nop)
	runner.AddHandler("connect", nop, nop)

	// snapd revisions get distinct, ordered versions so that a revert of
	// snapd is a real downgrade.
	s.AddCleanup(snapstate.MockSnapReadInfo(func(name string, si *snap.SideInfo) (*snap.Info, error) {
		info, err := s.fakeBackend.ReadInfo(name, si)
		if err == nil && info.SnapName() == "snapd" {
			info.Version = c14SnapdVersion(si.Revision)
		}
		return info, err
	}))

	w := &c14Store{fakeStore: s.fakeStore, delay: delay}
	s.state.Lock()
	snapstate.ReplaceStore(s.state, w)
	s.state.Unlock()
	return w
}

func c14SideInfo(name string, rev int) *snap.SideInfo {
	id := name + "-id"
	if name == "snapd" {
		id = "snapd-snap-id" // the id the fake store knows for refreshes
	}
	return &snap.SideInfo{RealName: name, SnapID: id, Revision: snap.R(rev), Channel: "latest/stable"}
}

// state must be locked
func (s *verifC14Suite) c14SeedSnap(c *C, name, how string) {
	var revs []int
	active := true
	typ := "app"
	switch how {
	case "absent":
		return
	case "one":
		revs = []int{1}
	case "two":
		revs = []int{1, 2}
	case "two-disabled":
		revs = []int{1, 2}
		active = false
	case "three":
		revs = []int{1, 2, 3}
	}
	if name == "snapd" {
		typ = "snapd"
		for rev := 1; rev <= 80; rev++ {
			infoFile := filepath.Join(dirs.SnapMountDir, name, fmt.Sprint(rev), dirs.CoreLibExecDir, "info")
			if err := os.MkdirAll(filepath.Dir(infoFile), 0755); err != nil {
				c.Fatal(err)
			}
			if err := os.WriteFile(infoFile, []byte("VERSION="+c14SnapdVersion(snap.R(rev))+"\nSNAPD_APPARMOR_REEXEC=1\n"), 0644); err != nil {
				c.Fatal(err)
			}
		}
	}
	var sis []*snap.SideInfo
	for _, r := range revs {
		sis = append(sis, c14SideInfo(name, r))
	}
	snapst := &snapstate.SnapState{
		Active:          active,
		Sequence:        snapstatetest.NewSequenceFromSnapSideInfos(sis),
		Current:         snap.R(revs[len(revs)-1]),
		SnapType:        typ,
		TrackingChannel: "latest/stable",
	}
	if name != "snapd" {
		// a manual alias to remove ("unalias" requests)
		snapst.Aliases = map[string]*snapstate.AliasTarget{"al-" + name: {Manual: "cmd1"}}
	}
	snapstate.Set(s.state, name, snapst)
}

// ---------------------------------------------------------------------------
// the model

type c14Claim struct {
	chg       *state.Change
	op        string
	snaps     []string
	exclusive string // non-empty: kind of exclusivity
	exempt    bool
	held      bool // completed by the harness, not by the runner
	// snapd downgrade only: the revision being reverted to
	downgradeTo snap.Revision
}

type c14Model struct {
	claims []*c14Claim
}

func (m *c14Model) busy(name string) *c14Claim {
	for _, cl := range m.claims {
		if cl.exempt || cl.chg.Status().Ready() {
			continue
		}
		for _, n := range cl.snaps {
			if n == name {
				return cl
			}
		}
	}
	return nil
}

func (m *c14Model) exclusive() *c14Claim {
	for _, cl := range m.claims {
		if cl.exclusive != "" && !cl.chg.Status().Ready() {
			return cl
		}
	}
	return nil
}

func (m *c14Model) exemptOn(name string) *c14Claim {
	for _, cl := range m.claims {
		if !cl.exempt || cl.chg.Status().Ready() {
			continue
		}
		for _, n := range cl.snaps {
			if n == name {
				return cl
			}
		}
	}
	return nil
}

func (m *c14Model) unready() int {
	n := 0
	for _, cl := range m.claims {
		if !cl.chg.Status().Ready() {
			n++
		}
	}
	return n
}

// ---------------------------------------------------------------------------
// issuing a request the way the daemon does

type c14Outcome struct {
	tss      []*state.TaskSet
	affected []string
	kind     string
	err      error
}

func c14Conn(plugSnap, slotSnap string) *interfaces.Connection {
	pinfo := &snap.Info{SuggestedName: plugSnap, SideInfo: snap.SideInfo{RealName: plugSnap}}
	plug := &snap.PlugInfo{Snap: pinfo, Name: "plug", Interface: "content"}
	pinfo.Plugs = map[string]*snap.PlugInfo{"plug": plug}
	sinfo := &snap.Info{SuggestedName: slotSnap, SideInfo: snap.SideInfo{RealName: slotSnap}}
	slot := &snap.SlotInfo{Snap: sinfo, Name: "slot", Interface: "content"}
	sinfo.Slots = map[string]*snap.SlotInfo{"slot": slot}
	pset, err := interfaces.NewSnapAppSet(pinfo, nil)
	if err != nil {
		panic(err)
	}
	sset, err := interfaces.NewSnapAppSet(sinfo, nil)
	if err != nil {
		panic(err)
	}
	return &interfaces.Connection{
		Plug: interfaces.NewConnectedPlug(plug, pset, nil, nil),
		Slot: interfaces.NewConnectedSlot(slot, sset, nil, nil),
	}
}

func c14One(ts *state.TaskSet, err error) ([]*state.TaskSet, error) {
	if err != nil || ts == nil {
		return nil, err
	}
	return []*state.TaskSet{ts}, nil
}

// state must be locked. stamp makes the store offer a fresh revision.
func (s *verifC14Suite) c14Issue(req c14Req, stamp int) (out c14Outcome) {
	st := s.state
	uid := s.user.ID
	name := ""
	if len(req.Snaps) > 0 {
		name = req.Snaps[0]
	}
	out.affected = append([]string(nil), req.Snaps...)
	fresh := snap.R(20 + stamp%60)
	s.fakeStore.refreshRevnos = map[string]snap.Revision{}
	for _, n := range append([]string{"snapd"}, c14Snaps...) {
		s.fakeStore.refreshRevnos[c14SideInfo(n, 1).SnapID] = fresh
	}
	ctx := context.Background()
	switch req.Op {
	case "install":
		out.kind = "install-snap"
		out.tss, out.err = c14One(snapstate.Install(ctx, st, name, &snapstate.RevisionOptions{Channel: "some-channel"}, uid, snapstate.Flags{}))
	case "update":
		out.kind = "refresh-snap"
		out.tss, out.err = c14One(snapstate.Update(st, name, nil, uid, snapstate.Flags{}))
	case "update-channel":
		out.kind = "refresh-snap"
		out.tss, out.err = c14One(snapstate.Update(st, name, &snapstate.RevisionOptions{Channel: "some-channel"}, uid, snapstate.Flags{}))
	case "revert":
		out.kind = "revert-snap"
		out.tss, out.err = c14One(snapstate.Revert(st, name, snapstate.Flags{}, ""))
	case "remove":
		out.kind = "remove-snap"
		out.tss, out.err = c14One(snapstate.Remove(st, name, snap.R(0), nil))
	case "remove-rev":
		out.kind = "remove-snap"
		out.tss, out.err = c14One(snapstate.Remove(st, name, snap.R(1), nil))
	case "enable":
		out.kind = "enable-snap"
		out.tss, out.err = c14One(snapstate.Enable(st, name))
	case "disable":
		out.kind = "disable-snap"
		out.tss, out.err = c14One(snapstate.Disable(st, name))
	case "switch":
		out.kind = "switch-snap"
		out.tss, out.err = c14One(snapstate.Switch(st, name, &snapstate.RevisionOptions{Channel: "edge"}))
	case "alias":
		out.kind = "alias"
		out.tss, out.err = c14One(snapstate.Alias(st, name, "cmd1", "al-"+name))
	case "unalias":
		out.kind = "unalias"
		ts, snapName, err := snapstate.RemoveManualAlias(st, "al-"+name)
		out.tss, out.err = c14One(ts, err)
		if err == nil {
			out.affected = []string{snapName}
		}
	case "disable-aliases":
		out.kind = "unalias"
		out.tss, out.err = c14One(snapstate.DisableAllAliases(st, name))
	case "prefer":
		out.kind = "prefer"
		out.tss, out.err = c14One(snapstate.Prefer(st, name))
	case "connect":
		out.kind = "connect-snap"
		out.tss, out.err = c14One(ifacestate.Connect(st, req.Snaps[0], "plug", req.Snaps[1], "slot"))
	case "disconnect":
		out.kind = "disconnect-snap"
		out.tss, out.err = c14One(ifacestate.Disconnect(st, c14Conn(req.Snaps[0], req.Snaps[1])))
	case "install-many":
		out.kind = "install-snap"
		out.affected, out.tss, out.err = snapstate.InstallMany(st, req.Snaps, nil, uid, &snapstate.Flags{})
	case "update-many":
		out.kind = "refresh-snap"
		out.affected, out.tss, out.err = snapstate.UpdateMany(ctx, st, req.Snaps, nil, uid, &snapstate.Flags{})
	case "refresh-all":
		out.kind = "refresh-snap"
		out.affected, out.tss, out.err = snapstate.UpdateMany(ctx, st, nil, nil, uid, &snapstate.Flags{})
	case "remove-many":
		out.kind = "remove-snap"
		out.affected, out.tss, out.err = snapstate.RemoveMany(st, req.Snaps, nil)
	default:
		panic("unknown op " + req.Op)
	}
	if out.err != nil {
		out.tss, out.affected = nil, nil
	}
	return out
}

// ---------------------------------------------------------------------------
// error classes

var c14PreconditionRx = []struct {
	class string
	rx    *regexp.Regexp
}{
	// every one of these is returned by the entry point *before* it reaches
	// its conflict check (read off snapstate.go / aliasesv2.go / target.go)
	{"already-enabled", regexp.MustCompile(`^snap "[^"]+" already enabled$`)},
	{"already-disabled", regexp.MustCompile(`^snap "[^"]+" already disabled$`)},
	{"no-revert-revision", regexp.MustCompile(`^no revision to revert to$`)},
	{"already-on-revision", regexp.MustCompile(`^already on requested revision$`)},
	{"revert-inactive", regexp.MustCompile(`^cannot revert inactive snaps$`)},
	{"update-disabled", regexp.MustCompile(`^cannot update disabled snap "[^"]+"$`)},
	{"refresh-disabled", regexp.MustCompile(`^refreshing disabled snap "[^"]+" not supported$`)},
	{"no-manual-alias", regexp.MustCompile(`^cannot find manual alias "[^"]+" in any snap$`)},
}

var c14DigitsRx = regexp.MustCompile(`[0-9]+`)
var c14QuotedRx = regexp.MustCompile(`"[^"]*"`)

// c14ErrClass returns (class, isConflict, isPrecondition).
func c14ErrClass(err error) (string, bool, bool) {
	var cce *snapstate.ChangeConflictError
	if errors.As(err, &cce) {
		return "conflict", true, false
	}
	var nie *snap.NotInstalledError
	var nieV snap.NotInstalledError
	if errors.As(err, &nie) || errors.As(err, &nieV) {
		return "not-installed", false, true
	}
	var aie *snap.AlreadyInstalledError
	var aieV snap.AlreadyInstalledError
	if errors.As(err, &aie) || errors.As(err, &aieV) {
		return "already-installed", false, true
	}
	if errors.Is(err, store.ErrNoUpdateAvailable) {
		return "no-update-available", false, true
	}
	// whatever the store answers is known before the conflict check runs
	// (doInstall comes after the round trip)
	var sae *store.SnapActionError
	if errors.As(err, &sae) {
		return "store-action-error", false, true
	}
	msg := err.Error()
	for _, p := range c14PreconditionRx {
		if p.rx.MatchString(msg) {
			return p.class, false, true
		}
	}
	cls := c14QuotedRx.ReplaceAllString(msg, `"_"`)
	cls = c14DigitsRx.ReplaceAllString(cls, "N")
	if len(cls) > 60 {
		cls = cls[:60]
	}
	return "other:" + cls, false, false
}

// ---------------------------------------------------------------------------
// observation of "what exists"

type c14Footprint struct {
	changes int
	tasks   int
	snaps   string
}

// state must be locked
func (s *verifC14Suite) c14Footprint() c14Footprint {
	var raw *json.RawMessage
	snaps := ""
	if err := s.state.Get("snaps", &raw); err == nil && raw != nil {
		snaps = string(*raw)
	}
	return c14Footprint{changes: len(s.state.Changes()), tasks: len(s.state.Tasks()), snaps: snaps}
}

// ---------------------------------------------------------------------------
// progress

// c14Passes runs k passes of the task runner (state must NOT be locked): every
// task that can start is started and its handler waited for.
func (s *verifC14Suite) c14Passes(k int) {
	runner := s.o.TaskRunner()
	for i := 0; i < k; i++ {
		runner.Ensure()
		runner.Wait()
	}
}

// state must NOT be locked
func (s *verifC14Suite) c14StatusVector() string {
	s.state.Lock()
	defer s.state.Unlock()
	var b strings.Builder
	tasks := s.state.Tasks()
	sort.Slice(tasks, func(i, j int) bool { return tasks[i].ID() < tasks[j].ID() })
	for _, t := range tasks {
		fmt.Fprintf(&b, "%s:%d,", t.ID(), t.Status())
	}
	return b.String()
}

// c14Settle runs the whole state engine once and then the task runner until no
// task changed status in three consecutive passes (logical quiescence: what is
// left is held by the harness, waiting for a restart, or retrying without
// effect) or the pass bound is hit. overlord.Settle is not used: it spins
// until its wall-clock timeout while a check-rerefresh task of a blocked
// change keeps retrying. State must NOT be locked. Returns the passes used.
func (s *verifC14Suite) c14Settle() int {
	runner := s.o.TaskRunner()
	s.se.Ensure()
	s.se.Wait()
	prev := s.c14StatusVector()
	idle, passes := 0, 1
	for passes < 60 && idle < 3 {
		runner.Ensure()
		runner.Wait()
		passes++
		cur := s.c14StatusVector()
		if cur == prev {
			idle++
			// let due retries (5 ms in this fixture) come up; this only
			// shapes progress, no verdict depends on it
			time.Sleep(6 * time.Millisecond)
		} else {
			idle = 0
		}
		prev = cur
	}
	// a change waiting for a system restart: the machine reboots
	s.state.Lock()
	for _, chg := range s.state.Changes() {
		if chg.Status() != state.WaitStatus {
			continue
		}
		for _, t := range chg.Tasks() {
			if t.Status() == state.WaitStatus {
				t.SetStatus(t.WaitedStatus())
				t.Set("wait-for-system-restart-from-boot-id", nil)
			}
		}
		chg.Set("wait-for-system-restart", nil)
		chg.Set("pending-system-restart", nil)
	}
	s.state.Unlock()
	return passes
}

// state must be locked
func c14Complete(cl *c14Claim) {
	for _, t := range cl.chg.Tasks() {
		if !t.Status().Ready() {
			t.SetStatus(state.DoneStatus)
		}
	}
}

func c14Timing(what string, t0 time.Time) {
	if os.Getenv("VERIF_C14_TIMING") != "" {
		fmt.Printf("TIMING %-28s %v\n", what, time.Since(t0))
	}
}

// ---------------------------------------------------------------------------
// one sequential history

type c14Trace struct {
	Op       string `json:"op"`
	Snaps    string `json:"snaps"`
	Busy     bool   `json:"busy"`
	Excl     string `json:"excl,omitempty"`
	Outcome  string `json:"outcome"`
	Progress string `json:"progress"`
}

func (s *verifC14Suite) c14History(c *C, k *kit.Check, idx int, sc c14Script) {
	s.c14Fixture(c, nil)
	st := s.state
	m := &c14Model{}
	var heldQ []*c14Claim
	var trace []c14Trace
	sawBusy, sawAccepted := false, false

	st.Lock()
	defer st.Unlock()
	names := make([]string, 0, len(sc.Seeded))
	for n := range sc.Seeded {
		names = append(names, n)
	}
	sort.Strings(names)
	for _, n := range names {
		s.c14SeedSnap(c, n, sc.Seeded[n])
	}

	witness := func(step int, extra map[string]interface{}) map[string]interface{} {
		w := map[string]interface{}{"case_index": idx, "step": step, "script": sc, "trace": trace}
		for k, v := range extra {
			w[k] = v
		}
		return w
	}

	newHeld := func(kind, summary string, snapName string, withPreDownload bool) *state.Change {
		chg := st.NewChange(kind, summary)
		hold := st.NewTask("verif-hold", "held by the harness")
		chg.AddTask(hold)
		if snapName != "" {
			snapsup := &snapstate.SnapSetup{SideInfo: &snap.SideInfo{RealName: snapName, Revision: snap.R(77)}}
			if withPreDownload {
				// the task of a real pre-download change; it never
				// runs (it waits for the held task).
				pd := st.NewTask("pre-download-snap", "pre-download "+snapName)
				pd.Set("snap-setup", snapsup)
				pd.WaitFor(hold)
				chg.AddTask(pd)
			} else {
				hold.Set("snap-setup", snapsup)
			}
		}
		return chg
	}

	for i, step := range sc.Steps {
		// ---- events before the request ---------------------------------
		for _, ev := range step.Pre {
			switch ev.Kind {
			case "release":
				if len(heldQ) > 0 {
					c14Complete(heldQ[0])
					heldQ = heldQ[1:]
					k.Count("held_changes_released", 1)
				}
			case "excl":
				if ev.Settle {
					st.Unlock()
					k.Count("ensure_passes", s.c14Settle())
					st.Lock()
				}
				protocol := ev.Arg == "remodel" || ev.Arg == "create-recovery-system" || ev.Arg == "remove-recovery-system"
				if protocol {
					// devicestate asks before creating these
					if err := snapstate.CheckChangeConflictRunExclusively(st, ev.Arg); err != nil {
						k.Count("exclusive_refused_others_in_progress", 1)
						continue
					}
					// reverse direction (an exclusive change may start although
					// other changes are in progress): not part of the statement,
					// only counted, by kind of the change in progress
					for _, cl := range m.claims {
						if !cl.chg.Status().Ready() {
							k.Count("exclusive_allowed_while_unready_"+cl.chg.Kind(), 1)
						}
					}
				}
				chg := newHeld(ev.Arg, "exclusive change held by the harness", "", false)
				cl := &c14Claim{chg: chg, op: "excl:" + ev.Arg, exclusive: ev.Arg, held: true}
				m.claims = append(m.claims, cl)
				heldQ = append(heldQ, cl)
				k.Count("exclusive_changes_started", 1)
				k.Count("exclusive_started_"+ev.Arg, 1)
			case "exempt":
				chg := newHeld(ev.Arg, "exempt change held by the harness", ev.Snap, ev.Arg == "pre-download")
				cl := &c14Claim{chg: chg, op: "exempt:" + ev.Arg, snaps: []string{ev.Snap}, exempt: true, held: true}
				m.claims = append(m.claims, cl)
				heldQ = append(heldQ, cl)
				k.Count("exempt_changes_started_"+ev.Arg, 1)
			}
		}

		// ---- the request --------------------------------------------------
		req := step.Req
		var blocking *c14Claim
		for _, n := range req.Snaps {
			if cl := m.busy(n); cl != nil {
				blocking = cl
				break
			}
		}
		excl := m.exclusive()
		exemptTouch := false
		for _, n := range req.Snaps {
			if m.exemptOn(n) != nil {
				exemptTouch = true
			}
		}
		// is an accepted revert of snapd a downgrade? (input of the model:
		// the versions the harness gave the revisions)
		snapdDowngrade := false
		var downgradeTo snap.Revision
		if req.Op == "revert" && len(req.Snaps) == 1 && req.Snaps[0] == "snapd" {
			var snapst snapstate.SnapState
			if err := snapstate.Get(st, "snapd", &snapst); err == nil {
				if pi := snapstate.PreviousSideInfo(&snapst); pi != nil && pi.Revision.N < snapst.Current.N {
					snapdDowngrade = true
					downgradeTo = pi.Revision
				}
			}
		}
		// exclKind is what the signatures and counters carry. For a snapd
		// downgrade it tells the phase: has the downgrade change already
		// made the lower revision the current one?
		exclKind := ""
		if excl != nil {
			exclKind = excl.exclusive
			if exclKind == "snapd-downgrade" {
				var snapst snapstate.SnapState
				if err := snapstate.Get(st, "snapd", &snapst); err == nil && snapst.Current == excl.downgradeTo {
					exclKind = "snapd-downgrade-after-link"
				}
			}
		}

		before := s.c14Footprint()
		t0 := time.Now()
		out := s.c14Issue(req, idx*100+i)
		c14Timing("issue "+req.Op, t0)
		after := s.c14Footprint()
		t0 = time.Now()

		tr := c14Trace{Op: req.Op, Snaps: strings.Join(req.Snaps, ","), Busy: blocking != nil, Progress: step.Progress}
		if excl != nil {
			tr.Excl = exclKind
		}
		if blocking != nil {
			k.Count("busy_at_request", 1)
			k.Count("busy_blocking_change_status_"+blocking.chg.Status().String(), 1)
			sawBusy = true
		}
		if excl != nil {
			k.Count("exclusive_probes", 1)
			k.Count("exclusive_probes_under_"+exclKind, 1)
			sawBusy = true
		}

		if out.err == nil {
			// ---------------- accepted --------------------------------
			tr.Outcome = "accepted"
			if len(out.tss) == 0 {
				tr.Outcome = "accepted-nothing-to-do"
				k.Count("req_"+req.Op+"_nothing_to_do", 1)
			} else {
				k.Count("req_"+req.Op+"_accepted", 1)
				k.Count("requests_accepted", 1)
				sawAccepted = true
			}
			if exemptTouch && len(out.tss) > 0 {
				k.Count("accepted_on_snap_with_unready_exempt_change", 1)
			}
			if len(out.tss) > 0 {
				chg := st.NewChange(out.kind, fmt.Sprintf("%s %v", req.Op, out.affected))
				for _, ts := range out.tss {
					chg.AddAll(ts)
				}
				k.Count("changes_created", 1)
				trace = append(trace, tr)
				if excl != nil {
					k.Violation("C14:exclusive-ignored:"+exclKind+":"+req.Op, witness(i, map[string]interface{}{
						"request": req, "exclusive_change": excl.chg.ID(), "exclusive_kind": exclKind,
						"exclusive_change_status": excl.chg.Status().String(), "outcome": "accepted",
						"created_change": chg.ID(), "expected": "rejected with *ChangeConflictError while the exclusive change is unready",
					}))
				}
				for _, n := range out.affected {
					if cl := m.busy(n); cl != nil {
						k.Violation("C14:busy-accepted:"+req.Op+":while-"+cl.chg.Kind(), witness(i, map[string]interface{}{
							"request": req, "snap": n, "unready_change": cl.chg.ID(), "unready_change_kind": cl.chg.Kind(),
							"unready_change_status": cl.chg.Status().String(), "unready_change_request": cl.op,
							"created_change": chg.ID(), "expected": "rejected with *ChangeConflictError",
						}))
						break
					}
				}
				cl := &c14Claim{chg: chg, op: req.Op, snaps: out.affected}
				if snapdDowngrade {
					cl.exclusive = "snapd-downgrade"
					cl.downgradeTo = downgradeTo
					k.Count("exclusive_changes_started", 1)
					k.Count("exclusive_started_snapd-downgrade", 1)
				}
				m.claims = append(m.claims, cl)
			} else {
				trace = append(trace, tr)
			}
		} else {
			// ---------------- rejected --------------------------------
			class, isConflict, isPre := c14ErrClass(out.err)
			tr.Outcome = class
			trace = append(trace, tr)
			if isConflict {
				k.Count("req_"+req.Op+"_conflict", 1)
				k.Count("requests_conflict_rejected", 1)
			} else {
				k.Count("req_"+req.Op+"_rejected_other", 1)
				k.Count("requests_otherwise_rejected", 1)
			}
			if blocking != nil || excl != nil {
				switch {
				case isConflict:
					if blocking != nil {
						k.Count("busy_rejected_with_conflict_error", 1)
					}
					if excl != nil {
						k.Count("exclusive_probes_rejected_with_conflict_error", 1)
					}
				case isPre:
					k.Count("busy_or_exclusive_rejected_by_precondition", 1)
					k.Count("precondition_"+class, 1)
				case req.Op == "refresh-all":
					// names no snap
				case excl != nil:
					// the request got past the conflict check although an
					// exclusive change is unready (it failed later for
					// another reason)
					k.Violation("C14:exclusive-ignored:"+exclKind+":"+req.Op, witness(i, map[string]interface{}{
						"request": req, "exclusive_change": excl.chg.ID(), "exclusive_kind": exclKind,
						"exclusive_change_status": excl.chg.Status().String(),
						"outcome":                 "rejected, but not by the conflict check", "error": out.err.Error(), "error_type": fmt.Sprintf("%T", out.err),
						"expected": "*ChangeConflictError (or a precondition error returned before the conflict check)",
					}))
				default:
					k.Violation("C14:not-a-conflict-error:busy:"+req.Op, witness(i, map[string]interface{}{
						"request": req, "error": out.err.Error(), "error_type": fmt.Sprintf("%T", out.err),
						"unready_change": blocking.chg.ID(), "unready_change_kind": blocking.chg.Kind(),
						"expected": "*ChangeConflictError (or a precondition error returned before the conflict check)",
					}))
				}
			}
			if before != after {
				k.Violation("C14:rejected-request-created-something:"+req.Op, witness(i, map[string]interface{}{
					"request": req, "error": out.err.Error(),
					"changes_before": before.changes, "changes_after": after.changes,
					"linked_tasks_before": before.tasks, "linked_tasks_after": after.tasks,
					"snaps_before": before.snaps, "snaps_after": after.snaps,
				}))
			}
			k.Count("rejected_footprint_checks", 1)
		}

		// ---- progress of the changes in flight -----------------------------
		switch {
		case step.Progress == "none":
		case strings.HasPrefix(step.Progress, "passes:"):
			n := int(step.Progress[len("passes:")] - '0')
			st.Unlock()
			s.c14Passes(n)
			st.Lock()
			k.Count("ensure_passes", n)
		case step.Progress == "settle":
			st.Unlock()
			n := s.c14Settle()
			st.Lock()
			k.Count("settles", 1)
			k.Count("ensure_passes", n)
			if n >= 60 {
				k.Count("settle_hit_pass_bound", 1)
			}
			// what the overlord's pruning does in the long run: finished
			// changes and unlinked scratch tasks leave the state. The
			// model forgets the claims of finished changes first.
			live := m.claims[:0]
			for _, cl := range m.claims {
				if cl.chg.Status().Ready() {
					k.Count("changes_finished_"+cl.chg.Status().String(), 1)
					continue
				}
				live = append(live, cl)
			}
			m.claims = live
			st.Prune(time.Time{}, 0, 10000*time.Hour, 0)
		case step.Progress == "abort":
			for _, cl := range m.claims {
				if !cl.held && !cl.chg.Status().Ready() {
					cl.chg.Abort()
					st.EnsureBefore(0)
					k.Count("aborts", 1)
					break
				}
			}
			st.Unlock()
			s.c14Passes(1)
			st.Lock()
		}
		c14Timing("progress "+step.Progress, t0)
		k.Max("max_unready_claims", m.unready())
	}

	for _, cl := range m.claims {
		if cl.chg.Status().Ready() {
			k.Count("changes_finished_"+cl.chg.Status().String(), 1)
		} else {
			k.Count("changes_unready_at_end_of_history", 1)
		}
	}
	if os.Getenv("VERIF_C14_TIMING") != "" {
		b, _ := json.Marshal(st)
		fmt.Printf("TIMING state json size %d, tasks %d, changes %d\n", len(b), len(st.Tasks()), len(st.Changes()))
	}
	k.Eval()
	k.Count("histories", 1)
	k.Count("requests", len(sc.Steps))
	if sawBusy && sawAccepted {
		sig := make([]string, 0, len(trace))
		for _, t := range trace {
			sig = append(sig, fmt.Sprintf("%s/%v/%s/%s/%s", t.Op, t.Busy, t.Excl, t.Outcome, t.Progress))
		}
		k.Nontrivial(kit.Sig(strings.Join(sig, ";")))
	}
	k.Sample(map[string]interface{}{"case_index": idx, "seeded": sc.Seeded, "trace": trace})
}

// ---------------------------------------------------------------------------

func (s *verifC14Suite) TestVerifC14(c *C) {
	k := kit.New("C14", "exploration")
	defer k.Done(c)
	k.Rule("part (a): a case is one history = seeded snap states + a seed-determined script of 12 requests (install, update, revert, remove, enable, disable, switch, alias/unalias/prefer, connect/disconnect, install-/update-/remove-many, refresh-all; over some-snap, some-other-snap, services-snap and snapd) with partial progress (nothing / 1-4 ensure passes / settle / abort) after each and held exclusive or exempt changes started/released in between. Non-trivial: at least one request was issued while the model said busy or exclusive AND at least one request was accepted; the signature is the sequence of (op, busy, exclusive kind, outcome class, progress). part (b): rounds of a requester racing a state mutator, counted by monitor counters only.")
	k.Assume("the system side is overlord/snapstate's own fakeSnappyBackend/fakeStore (no real mounts, services, store); the interface manager is not running: connect/disconnect tasks get no-op handlers, but their registration with the conflict machinery is the real ifacestate one")
	k.Assume("the model frees a snap when the change created for the request reports a ready status (state.Change.Status().Ready()); the state engine itself (C01-C04) is trusted for that")
	k.Assume("a busy/exclusive request rejected with a precondition error that the entry point returns before its conflict check (not installed, already installed, already enabled/disabled, nothing to revert to, no update available, disabled snap, unknown alias) counts as rejected")

	if err := c14RegisterIfaceAffected(); err != nil {
		c.Fatal(err)
	}

	nHist := kit.Scale(10, 50)
	nRounds := kit.Scale(1, 3)
	only := kit.OnlyCase()
	for idx := 0; idx < nHist; idx++ {
		if only >= 0 && only != idx {
			continue
		}
		sc := c14Gen(kit.CaseRand("c14-seq", idx), 12)
		s.c14History(c, k, idx, sc)
		s.TearDownTest(c)
		s.SetUpTest(c)
	}
	for round := 0; round < nRounds; round++ {
		idx := c14RaceBase + round
		if only >= 0 && only != idx {
			continue
		}
		s.c14RaceRound(c, k, idx, kit.Scale(100, 200))
		s.TearDownTest(c)
		s.SetUpTest(c)
	}

	if only < 0 {
		// per process (quick runs 4 shards of 10 histories + 1 race round);
		// a normal shard sees 3-10x these numbers
		k.Floor("busy_at_request", 5)
		k.Floor("busy_rejected_with_conflict_error", 2)
		k.Floor("exclusive_probes", 5)
		k.Floor("requests_accepted", 12)
		k.Floor("rejected_footprint_checks", 25)
		k.Floor("race_calls_overlapping_a_mutation", 5)
		k.Floor("race_calls_record_changed_meanwhile", 3)
		k.Floor("race_accepted", 3)
	} else {
		k.MinDistinct(0)
	}
}
