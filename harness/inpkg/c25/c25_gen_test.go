// C25 -- argument vector generators.
//
// A case is an argv plus (a) the structural shape used for the distinctness
// signature and (b), for vectors that are well-formed *by construction*, the
// command they must reach when the caller is root. Well-formed by construction
// means: the command path, then the command's own options spelled in a form
// go-flags documents as valid (with values that are not option-looking unless
// joined to the option), at least the required number of positional arguments,
// and optionally a `--` after which only positional arguments follow. No help
// flag outside a joined option value or the part after `--`.
package ctlcmd

import (
	"math/rand"
	"strings"
)

type c25Case struct {
	Argv   []string
	Shape  []string
	Family string
	WF     *c25Cmd // non-nil: well-formed by construction for this command
	For    *c25Cmd // the command the vector was built around (counters only, never the oracle)
}

func (k *c25Case) add(tok, class string) {
	k.Argv = append(k.Argv, tok)
	k.Shape = append(k.Shape, class)
}

func (k *c25Case) clone() *c25Case {
	return &c25Case{Argv: append([]string(nil), k.Argv...), Shape: append([]string(nil), k.Shape...), Family: k.Family, WF: k.WF, For: k.For}
}

func (k *c25Case) insert(pos int, tok, class string) {
	k.Argv = append(k.Argv[:pos], append([]string{tok}, k.Argv[pos:]...)...)
	k.Shape = append(k.Shape[:pos], append([]string{class}, k.Shape[pos:]...)...)
}

var (
	// positional / separate option values that go-flags never takes for an option
	c25Plain = []string{"a", "foo", "key=value", ":plug", "snap+comp", "", "-", "---", "---h", "x -h", "a b", "=", "k=-h",
		"h", "help", "0", "café", "name!", "/dev/sda1", "a,b", "all", "x--help", "\"q"}
	// free arguments that look like options (only positional after `--`)
	c25OptLike = []string{"-h", "--help", "-x", "--nope", "--type=x", "-t", "--view", "-d", "--halt", "--", "-hx", "--help=1"}
	// values that can only be given joined to the option
	c25JoinedVals = []string{"-h", "--help", "--", "-x", "", "v", "--type", "-", "x y"}
	c25Unknown    = []string{"frobnicate", "Get", "GET", "get ", " get", "gets", "ge", "set-", "sethealth", "set_health", "model\x00", "is_connected",
		"system-mod", "service", "get=1", "help", "snapctl", "get,set"}
	c25HelpLike = []string{"-h", "--help", "-?", "-H", "--h", "--hel", "--help=", "--help=true", "-h=1", "-hh", "-hx", "-xh", "--Help", "---help", "-help", "- h", "-h ", " -h", "--help "}
)

func c25ValClass(v string) string {
	switch {
	case v == "":
		return "empty"
	case v == "-h" || v == "--help":
		return "help"
	case v == "--":
		return "ddash"
	case strings.HasPrefix(v, "-") && len(v) > 1:
		return "optlike"
	}
	return "plain"
}

func c25Pick(r *rand.Rand, xs []string) string { return xs[r.Intn(len(xs))] }

// c25SepValue: a value for a value-taking option given as a separate argument.
func c25SepValue(r *rand.Rand, o c25Opt) string {
	if len(o.Choices) > 0 {
		return c25Pick(r, o.Choices)
	}
	if o.Kind != "string" {
		if strings.HasPrefix(o.Kind, "uint") {
			return []string{"0", "7", "42"}[r.Intn(3)]
		}
		return []string{"0", "42", "-7", "1"}[r.Intn(4)]
	}
	for {
		v := c25Pick(r, c25Plain)
		if !strings.HasPrefix(v, "\"") {
			return v
		}
	}
}

func c25JoinedValue(r *rand.Rand, o c25Opt) string {
	if len(o.Choices) > 0 || o.Kind != "string" || r.Intn(3) == 0 {
		return c25SepValue(r, o)
	}
	return c25Pick(r, c25JoinedVals)
}

// spellings of one option; form selects one. Returns the tokens and classes.
const (
	c25FormLong = iota
	c25FormShort
	c25FormLongSep
	c25FormLongEq
	c25FormShortSep
	c25FormShortJoined
	c25FormShortEq
)

func c25Forms(o c25Opt) []int {
	var fs []int
	if !o.TakesValue {
		if o.Long != "" {
			fs = append(fs, c25FormLong)
		}
		if o.Short != "" {
			fs = append(fs, c25FormShort)
		}
		return fs
	}
	if o.Long != "" {
		fs = append(fs, c25FormLongEq)
		if !o.Optional {
			fs = append(fs, c25FormLongSep)
		}
	}
	if o.Short != "" {
		fs = append(fs, c25FormShortJoined, c25FormShortEq)
		if !o.Optional {
			fs = append(fs, c25FormShortSep)
		}
	}
	return fs
}

func c25Spell(k *c25Case, o c25Opt, form int, val string) {
	switch form {
	case c25FormLong:
		k.add("--"+o.Long, "opt:--"+o.Long)
	case c25FormShort:
		k.add("-"+o.Short, "opt:-"+o.Short)
	case c25FormLongSep:
		k.add("--"+o.Long, "opt:--"+o.Long+"_")
		k.add(val, "val:"+c25ValClass(val))
	case c25FormLongEq:
		k.add("--"+o.Long+"="+val, "opt:--"+o.Long+"=<"+c25ValClass(val)+">")
	case c25FormShortSep:
		k.add("-"+o.Short, "opt:-"+o.Short+"_")
		k.add(val, "val:"+c25ValClass(val))
	case c25FormShortJoined:
		if val == "" || val[0] == '=' {
			val = "v" + val // "-t" + "" would be the separate form, "-t=" the '=' form
		}
		k.add("-"+o.Short+val, "opt:-"+o.Short+"<"+c25ValClass(val)+">")
	case c25FormShortEq:
		k.add("-"+o.Short+"="+val, "opt:-"+o.Short+"=<"+c25ValClass(val)+">")
	}
}

func c25Modelled(cmd *c25Cmd) []c25Opt {
	var out []c25Opt
	for _, o := range cmd.Opts {
		if o.modelled && (o.Long != "" || o.Short != "") {
			out = append(out, o)
		}
	}
	return out
}

// c25WellFormed builds an invocation of cmd that is well-formed by
// construction. richness 0 = bare (required positionals only).
func c25WellFormed(r *rand.Rand, cmd *c25Cmd, richness int, family string) *c25Case {
	k := &c25Case{Family: family, WF: cmd, For: cmd}
	for _, n := range cmd.Path {
		k.add(n, "cmd:"+n)
	}
	type item struct{ toks, classes []string }
	var items []item
	mk := func(f func(k *c25Case)) {
		tmp := &c25Case{}
		f(tmp)
		items = append(items, item{tmp.Argv, tmp.Shape})
	}
	opts := c25Modelled(cmd)
	for _, o := range opts {
		if o.Required {
			o := o
			mk(func(t *c25Case) { fs := c25Forms(o); c25Spell(t, o, fs[r.Intn(len(fs))], c25SepValue(r, o)) })
		}
	}
	if richness > 0 && len(opts) > 0 {
		n := r.Intn(richness + 1)
		for i := 0; i < n; i++ {
			o := opts[r.Intn(len(opts))]
			fs := c25Forms(o)
			form := fs[r.Intn(len(fs))]
			mk(func(t *c25Case) {
				switch form {
				case c25FormLongEq, c25FormShortJoined, c25FormShortEq:
					c25Spell(t, o, form, c25JoinedValue(r, o))
				default:
					c25Spell(t, o, form, c25SepValue(r, o))
				}
			})
		}
		// a cluster of boolean shorts, optionally ending in a value-taking short
		var bs, vs []c25Opt
		for _, o := range opts {
			if o.Short != "" && !o.TakesValue {
				bs = append(bs, o)
			} else if o.Short != "" && !o.Optional {
				vs = append(vs, o)
			}
		}
		if len(bs) >= 2 && r.Intn(3) == 0 {
			mk(func(t *c25Case) {
				tok := "-"
				for i, n := 0, 2+r.Intn(2); i < n; i++ {
					tok += bs[r.Intn(len(bs))].Short
				}
				if len(vs) > 0 && r.Intn(2) == 0 {
					v := vs[r.Intn(len(vs))]
					val := c25SepValue(r, v)
					t.add(tok+v.Short, "cluster+val")
					t.add(val, "val:"+c25ValClass(val))
				} else {
					t.add(tok, "cluster")
				}
			})
		}
	}
	npos := cmd.minPos()
	if richness > 0 {
		extra := r.Intn(3)
		if max := cmd.maxPos(); max >= 0 && npos+extra > max {
			extra = max - npos
		}
		npos += extra
	}
	after := 0 // positionals placed after `--`
	ddash := richness > 0 && r.Intn(4) == 0
	if ddash && npos > 0 {
		after = r.Intn(npos + 1)
	}
	for i := 0; i < npos-after; i++ {
		mk(func(t *c25Case) { v := c25Pick(r, c25Plain); t.add(v, "pos:"+c25ValClass(v)) })
	}
	r.Shuffle(len(items), func(i, j int) { items[i], items[j] = items[j], items[i] })
	for _, it := range items {
		for i := range it.toks {
			k.add(it.toks[i], it.classes[i])
		}
	}
	if ddash {
		k.add("--", "ddash")
		for i := 0; i < after; i++ {
			v := c25Pick(r, c25OptLike)
			if r.Intn(3) == 0 {
				v = c25Pick(r, c25Plain)
			}
			k.add(v, "free:"+v)
		}
		if max := cmd.maxPos(); max < 0 && r.Intn(2) == 0 {
			v := c25Pick(r, c25OptLike)
			k.add(v, "free:"+v)
		}
	}
	return k
}

// c25Hostile returns one token from the hostile pools, with its class.
func c25Hostile(r *rand.Rand, sf *c25Surface) (string, string) {
	switch n := r.Intn(100); {
	case n < 22:
		name := sf.Names[r.Intn(len(sf.Names))]
		return name, "cmd:" + name
	case n < 26:
		l := sf.Leaves[r.Intn(len(sf.Leaves))]
		name := l.Path[len(l.Path)-1]
		return name, "cmd:" + name
	case n < 34:
		v := c25Pick(r, c25Unknown)
		return v, "unknown:" + v
	case n < 44:
		return "-h", "help:-h"
	case n < 52:
		return "--help", "help:--help"
	case n < 60:
		v := c25Pick(r, c25HelpLike)
		return v, "helplike:" + v
	case n < 70:
		return "--", "ddash"
	case n < 74:
		return "", "empty"
	case n < 88:
		// a real option token of a random command
		l := sf.Leaves[r.Intn(len(sf.Leaves))]
		opts := c25Named(l) // incl. options with custom value types
		if len(opts) == 0 {
			return "-x", "free:-x"
		}
		o := opts[r.Intn(len(opts))]
		fs := c25Forms(o)
		t := &c25Case{}
		form := fs[r.Intn(len(fs))]
		c25Spell(t, o, form, c25Pick(r, c25JoinedVals))
		// only the option token itself: a separate value, if any, is whatever comes next
		return t.Argv[0], t.Shape[0]
	case n < 94:
		v := c25Pick(r, c25OptLike)
		return v, "free:" + v
	}
	v := c25Pick(r, c25Plain)
	return v, "plain:" + c25ValClass(v)
}

func c25Mutate(r *rand.Rand, sf *c25Surface, k *c25Case) *c25Case {
	m := k.clone()
	m.WF = nil
	m.Family = "mutated"
	for i, n := 0, 1+r.Intn(3); i < n; i++ {
		op := r.Intn(12)
		if op >= 10 {
			// an option-looking token (mostly a help flag) in place of the separate
			// value of an option: the rest of the vector, in particular the
			// positional arguments, stays complete
			var vals []int
			for p, cl := range m.Shape {
				if strings.HasPrefix(cl, "val:") {
					vals = append(vals, p)
				}
			}
			if len(vals) > 0 {
				p := vals[r.Intn(len(vals))]
				v := c25OptlikeValue(r, m.For)
				m.Argv[p], m.Shape[p] = v, "val:"+c25ValClass(v)
				continue
			}
			op = 0
		}
		switch {
		case op < 6 || len(m.Argv) == 0:
			tok, cl := c25Hostile(r, sf)
			m.insert(r.Intn(len(m.Argv)+1), tok, cl)
		case op < 8:
			p := r.Intn(len(m.Argv))
			tok, cl := c25Hostile(r, sf)
			m.Argv[p], m.Shape[p] = tok, cl
		case op < 9:
			p := r.Intn(len(m.Argv))
			m.Argv = append(m.Argv[:p], m.Argv[p+1:]...)
			m.Shape = append(m.Shape[:p], m.Shape[p+1:]...)
		default:
			p, q := r.Intn(len(m.Argv)), r.Intn(len(m.Argv))
			m.Argv[p], m.Argv[q] = m.Argv[q], m.Argv[p]
			m.Shape[p], m.Shape[q] = m.Shape[q], m.Shape[p]
		}
	}
	return m
}

func c25Soup(r *rand.Rand, sf *c25Surface) *c25Case {
	k := &c25Case{Family: "soup"}
	for i, n := 0, 1+r.Intn(6); i < n; i++ {
		tok, cl := c25Hostile(r, sf)
		k.add(tok, cl)
	}
	return k
}

// c25Random is the random family mix for case number idx.
func c25Random(r *rand.Rand, sf *c25Surface) *c25Case {
	leaf := sf.Leaves[r.Intn(len(sf.Leaves))]
	switch n := r.Intn(100); {
	case n < 35 && leaf.Unmodelled == "":
		return c25WellFormed(r, leaf, 3, "wellformed")
	case n < 72 && leaf.Unmodelled == "":
		return c25Mutate(r, sf, c25WellFormed(r, leaf, 3, "wellformed"))
	case n < 82:
		if k := c25RandomOptlikeValues(r, sf); k != nil {
			return k
		}
	}
	return c25Soup(r, sf)
}

// ---- systematic families --------------------------------------------------------

// c25RichBase: one deterministic, rich, well-formed invocation per command:
// every option once in its first spelling (separate value where possible) and
// min+1 positionals (within the maximum).
func c25RichBase(cmd *c25Cmd) (*c25Case, []bool) {
	k := &c25Case{Family: "base", WF: cmd, For: cmd}
	var glued []bool // glued[i]: token i is the separate value of token i-1
	for _, n := range cmd.Path {
		k.add(n, "cmd:"+n)
		glued = append(glued, false)
	}
	for _, o := range c25Modelled(cmd) {
		fs := c25Forms(o)
		form := fs[0]
		for _, f := range fs {
			if f == c25FormLongSep || f == c25FormShortSep {
				form = f
				break
			}
		}
		before := len(k.Argv)
		val := "v"
		if len(o.Choices) > 0 {
			val = o.Choices[0]
		} else if o.Kind != "string" {
			val = "1"
		}
		c25Spell(k, o, form, val)
		for i := before; i < len(k.Argv); i++ {
			glued = append(glued, i > before)
		}
	}
	npos := cmd.minPos() + 1
	if max := cmd.maxPos(); max >= 0 && npos > max {
		npos = max
	}
	for i := 0; i < npos; i++ {
		k.add("p", "pos:plain")
		glued = append(glued, false)
	}
	return k, glued
}

func c25Systematic(sf *c25Surface, allowed map[string]bool) []*c25Case {
	var out []*c25Case
	r := rand.New(rand.NewSource(25)) // only picks benign filler values; the families are enumerations
	emit := func(k *c25Case) { out = append(out, k) }

	// F0: degenerate vectors
	for _, v := range [][]string{{}, {""}, {"-"}, {"--"}, {"---"}, {"-h"}, {"--help"}, {"", ""}, {"--", "--"}, {"-h", "--"}, {"--", "-h"}, {"--", "--help"}, {"", "-h"}} {
		k := &c25Case{Family: "degenerate"}
		for _, t := range v {
			k.add(t, "tok:"+t)
		}
		emit(k)
	}

	for _, leaf := range sf.Leaves {
		if leaf.Unmodelled != "" {
			continue
		}
		// F1: bare invocation
		emit(c25WellFormed(r, leaf, 0, "bare"))

		// F2: every option in every spelling
		for _, o := range c25Modelled(leaf) {
			for _, form := range c25Forms(o) {
				for _, where := range []string{"before", "after"} {
					k := &c25Case{Family: "option-spelling", WF: leaf}
					for _, n := range leaf.Path {
						k.add(n, "cmd:"+n)
					}
					if where == "after" {
						for i := 0; i < leaf.minPos(); i++ {
							k.add("p", "pos:plain")
						}
					}
					c25Spell(k, o, form, c25SepValue(r, o))
					if where == "before" {
						for i := 0; i < leaf.minPos(); i++ {
							k.add("p", "pos:plain")
						}
					}
					emit(k)
				}
			}
		}

		base, glued := c25RichBase(leaf)
		// F3: help in every position (inserted, and replacing each token)
		for _, h := range []string{"-h", "--help"} {
			for p := 0; p <= len(base.Argv); p++ {
				k := base.clone()
				k.WF, k.Family = nil, "help-inserted"
				k.insert(p, h, "help:"+h)
				emit(k)
			}
			for p := 0; p < len(base.Argv); p++ {
				k := base.clone()
				k.WF, k.Family = nil, "help-replacing"
				k.Argv[p], k.Shape[p] = h, "help:"+h
				emit(k)
			}
		}
		// F4: `--` in every position (alone, and followed by a help flag at the end)
		for p := 0; p <= len(base.Argv); p++ {
			for _, tail := range []string{"", "-h", "--help"} {
				k := base.clone()
				k.Family = "ddash-inserted"
				k.insert(p, "--", "ddash")
				if tail != "" {
					k.add(tail, "help:"+tail)
				}
				// still well-formed when the terminator comes after the command path,
				// does not separate an option from its value, and the command takes
				// any number of positionals
				splits := p < len(glued) && glued[p]
				required := false
				for _, o := range leaf.Opts {
					required = required || o.Required
				}
				if p < len(leaf.Path) || splits || leaf.maxPos() >= 0 || required {
					k.WF = nil
				}
				emit(k)
			}
		}
		// F4b: help before the terminator, terminator then help, both orders around the command
		for _, h := range []string{"-h", "--help"} {
			k := base.clone()
			k.WF, k.Family = nil, "help-then-ddash"
			k.add(h, "help:"+h)
			k.add("--", "ddash")
			emit(k)
		}

		// F5: help / terminator as the value of every value-taking option (also
		// those with a custom value type, which are never claimed well-formed)
		for _, o := range c25Named(leaf) {
			if !o.TakesValue {
				continue
			}
			for _, form := range c25Forms(o) {
				for _, val := range []string{"-h", "--help", "--", "-hx", "-x"} {
					for _, where := range []string{"before", "after"} {
						k := &c25Case{Family: "help-as-option-value"}
						for _, n := range leaf.Path {
							k.add(n, "cmd:"+n)
						}
						if where == "after" {
							for i := 0; i < leaf.minPos(); i++ {
								k.add("p", "pos:plain")
							}
						}
						c25Spell(k, o, form, val)
						if where == "before" {
							for i := 0; i < leaf.minPos(); i++ {
								k.add("p", "pos:plain")
							}
						}
						joined := form == c25FormLongEq || form == c25FormShortJoined || form == c25FormShortEq
						if joined && o.modelled && o.Kind == "string" && len(o.Choices) == 0 {
							k.WF = leaf // the value is just a string
						}
						emit(k)
					}
				}
			}
		}
		// F5b: clusters of shorts with h inside
		var shorts []string
		for _, o := range c25Modelled(leaf) {
			if o.Short != "" && !o.TakesValue {
				shorts = append(shorts, o.Short)
			}
		}
		if len(shorts) > 0 {
			s := strings.Join(shorts, "")
			for _, tok := range []string{"-h" + s, "-" + s + "h", "-" + s[:1] + "h" + s[1:]} {
				k := &c25Case{Family: "help-in-cluster"}
				for _, n := range leaf.Path {
					k.add(n, "cmd:"+n)
				}
				k.add(tok, "cluster+h")
				for i := 0; i < leaf.minPos(); i++ {
					k.add("p", "pos:plain")
				}
				emit(k)
			}
		}
	}

	// F6: command names in non-first positions
	minimal := func(k *c25Case, name string) {
		for _, l := range sf.Leaves {
			if l.Path[0] == name {
				for _, n := range l.Path[1:] {
					k.add(n, "cmd:"+n)
				}
				for i := 0; i < l.minPos(); i++ {
					k.add("p", "pos:plain")
				}
				return
			}
		}
	}
	prefixes := [][2]string{{"frobnicate", "unknown:frobnicate"}, {"", "empty"}, {"--", "ddash"}, {"-x", "free:-x"}, {"-", "plain:-"}, {"---", "plain:---"}}
	for _, x := range sf.Names {
		for _, p := range prefixes {
			k := &c25Case{Family: "name-not-first"}
			k.add(p[0], p[1])
			k.add(x, "cmd:"+x)
			minimal(k, x)
			emit(k)
		}
		for _, y := range sf.Names {
			if allowed[x] == allowed[y] && x != y && !(allowed[x] && allowed[y]) {
				continue // denied,denied pairs add nothing; keep allowed/denied mixes and allowed pairs
			}
			// x first, then y with y's minimal arguments; and with a trailing help / terminator variants
			for _, variant := range []string{"", "ddash-between", "help-last", "ddash-help-last"} {
				k := &c25Case{Family: "name-pair"}
				k.add(x, "cmd:"+x)
				if variant == "ddash-between" {
					k.add("--", "ddash")
				}
				k.add(y, "cmd:"+y)
				minimal(k, y)
				switch variant {
				case "help-last":
					k.add("-h", "help:-h")
				case "ddash-help-last":
					k.add("--", "ddash")
					k.add("--help", "help:--help")
				}
				emit(k)
			}
		}
	}

	// F7: near-miss spellings of names and of the help flags, first and second
	for _, u := range c25Unknown {
		k := &c25Case{Family: "near-miss-name"}
		k.add(u, "unknown:"+u)
		emit(k)
		for _, d := range sf.Names {
			k := &c25Case{Family: "near-miss-name"}
			k.add(u, "unknown:"+u)
			k.add(d, "cmd:"+d)
			minimal(k, d)
			emit(k)
		}
	}
	for _, h := range c25HelpLike {
		for _, d := range sf.Names {
			for _, first := range []bool{true, false} {
				k := &c25Case{Family: "near-miss-help"}
				if first {
					k.add(h, "helplike:"+h)
				}
				k.add(d, "cmd:"+d)
				minimal(k, d)
				if !first {
					k.add(h, "helplike:"+h)
				}
				emit(k)
			}
		}
	}
	out = append(out, c25OptlikeValueFamilies(sf)...)
	return out
}
