// C25 -- non-root callers can only run snapctl's read-only commands.
//
// The harness is compiled into package overlord/hookstate/ctlcmd (build tag
// verif) and drives the real Run(context, argv, uid) with generated argument
// vectors for root and several non-root uids. What it observes is hook H1: with
// a recorder installed (verifCommandRecorder, ctlcmd_verif.go) Run hands the
// command selected by the real go-flags parser -- after the real permission
// gate -- to the recorder instead of calling its Execute. The oracle:
//
//   - uid != 0: the recorder is never told about a command outside
//     {get, services, set-health, is-connected, system-mode, model} (the set is
//     taken from the property statement, NOT from nonRootAllowed); an invocation
//     that executes nothing must return an error (help is an error value of type
//     flags.ErrHelp);
//   - uid == 0: Run never answers ForbiddenCommandError, and every vector that is
//     well-formed by construction (c25_gen_test.go) reaches the recorder with
//     exactly the command it names;
//   - the Go type of the command value handed to the recorder must be the type
//     registered under the name the parser reports (identity of "the command").
//
// If the hook call is missing from Run (recorder never called although Run
// returns success) the run is reported BROKEN / inconclusive, never "held".
package ctlcmd

import (
	"errors"
	"fmt"
	"os"
	"reflect"
	"runtime/debug"
	"sort"
	"strings"
	"testing"

	"github.com/jessevdk/go-flags"

	kit "verifkit"
)

// the property statement's list
var c25Allowed = map[string]bool{"get": true, "services": true, "set-health": true, "is-connected": true, "system-mode": true, "model": true}

type c25Event struct {
	Names []string
	Type  reflect.Type
	Args  []string
}

type c25Outcome struct {
	Events   []c25Event
	ErrClass string // none | forbidden | help | flags:<type> | other | panic
	ErrMsg   string
}

var c25Events []c25Event

func c25Record(names []string, cmd flags.Commander, args []string) {
	ev := c25Event{Names: append([]string(nil), names...), Args: append([]string(nil), args...)}
	if cmd != nil {
		ev.Type = reflect.TypeOf(cmd)
	}
	c25Events = append(c25Events, ev)
}

func c25Run(argv []string, uid uint32) (out c25Outcome) {
	c25Events = nil
	in := append([]string(nil), argv...)
	var err error
	func() {
		defer func() {
			if p := recover(); p != nil {
				out.ErrClass, out.ErrMsg = "panic", fmt.Sprint(p)
			}
		}()
		_, _, err = Run(nil, in, uid)
	}()
	out.Events = c25Events
	c25Events = nil
	if out.ErrClass == "panic" {
		return out
	}
	var forb *ForbiddenCommandError
	var ferr *flags.Error
	switch {
	case err == nil:
		out.ErrClass = "none"
	case errors.As(err, &forb):
		out.ErrClass, out.ErrMsg = "forbidden", err.Error()
	case errors.As(err, &ferr):
		if ferr.Type == flags.ErrHelp {
			out.ErrClass = "help"
		} else {
			out.ErrClass, out.ErrMsg = "flags:"+ferr.Type.String(), ferr.Message
		}
	default:
		out.ErrClass, out.ErrMsg = "other", err.Error()
	}
	if len(out.ErrMsg) > 300 {
		out.ErrMsg = out.ErrMsg[:300]
	}
	return out
}

// c25ArgvClass: how the vector relates to what the gate looks at; the subclass
// of a "non-root executed" violation signature.
func c25ArgvClass(argv []string) string {
	ddash := -1
	for i, a := range argv {
		if a == "--" {
			ddash = i
			break
		}
	}
	helpBefore, helpAfter, helpInside := false, false, false
	for i, a := range argv {
		if a == "-h" || a == "--help" {
			if ddash >= 0 && i > ddash {
				helpAfter = true
			} else {
				helpBefore = true
			}
		} else if strings.Contains(a, "-h") {
			helpInside = true
		}
	}
	allowedElsewhere := false
	for i, a := range argv {
		if i > 0 && c25Allowed[a] {
			allowedElsewhere = true
		}
	}
	switch {
	case helpBefore:
		return "help-flag-present"
	case helpAfter:
		return "help-flag-after-terminator"
	case len(argv) > 0 && c25Allowed[argv[0]]:
		return "allowed-name-first"
	case allowedElsewhere:
		return "allowed-name-not-first"
	case helpInside:
		return "help-inside-another-argument"
	}
	return "plain"
}

var c25NonRootUids = []uint32{1000, 1, 1001, 65534, 2147483647, 2147483648, 4294967294, 4294967295, 100000, 999}

func TestVerifC25(t *testing.T) {
	c := kit.New("C25", "exploration")
	defer c.Done(t)
	c.Rule("cases = (argv, uid). argv families: exhaustive-by-construction enumerations over the registered commands discovered at run time " +
		"(bare invocation; every option in every spelling short/long/--opt=value/-ovalue/-o=value before and after the positionals; -h and --help " +
		"inserted at and replacing every position of a rich invocation; `--` at every position, alone and followed by a help flag; -h/--help/--/option-looking " +
		"strings as the value of every value-taking option in every spelling; h inside clusters of shorts; for every command and every value-taking option found on " +
		"the command structs (custom value types and optional values included) option-looking tokens (-h, --help, -x, --help=1, own option spellings...) as the SEPARATE " +
		"value (`--opt -h`, `-o --help`, `-bo -h`) together with the complete required positionals (and one more), before/between/after them, bare and with all other " +
		"options at valid values, also followed by `--`; the same for two options at once, chains and all value-taking options at once; every registered name after an unknown name, an empty " +
		"string, `--`, an unknown option; pairs of names allowed/denied in both orders with `--` and help variants; near-miss names and near-miss help flags) plus " +
		"seeded random vectors: well-formed invocations (random options, clustered shorts, positionals incl. empty strings, `--` followed by option-looking free " +
		"arguments), 1-3 random mutations of those (insert/replace/delete/swap with hostile tokens, option-looking token in place of a separate option value), well-formed " +
		"invocations with option-looking separate values replaced/inserted before any `--`, and token soups. Each argv runs as uid 0 and as 1-2 non-root uids. " +
		"Non-trivial = the vector names at least one registered command; distinct = distinct (uid class, family, token-class sequence)")
	c.Assume("'executed' = the real go-flags parser, configured by the real Run after the real gate, selects a command and is about to call its Execute; hook H1 " +
		"hands that command to the recorder instead (no command body runs, so reboot / fde-setup-result / mount have no effect)")
	c.Assume("'well-formed' for the root clause = well-formed by construction from the command's own go-flags surface (options, required positionals, subcommands); " +
		"for every other vector the root clause only demands that the gate (ForbiddenCommandError) never stops uid 0")
	c.Assume("the hook context is nil: Run only stores it in the command structs, nothing reads it before Execute")

	os.Unsetenv("GO_FLAGS_COMPLETION")                // go-flags would os.Exit(0) in completion mode
	defer debug.SetGCPercent(debug.SetGCPercent(400)) // Run rebuilds its parser per call: allocation-bound

	sf, err := c25Discover()
	if err != nil {
		fmt.Printf("BROKEN property=C25 command discovery failed: %v\n", err)
		c.Inconclusive("command discovery failed: " + err.Error())
		return
	}
	var surface []string
	nOpts, nUnmodelled, nCustom := 0, 0, 0
	for _, l := range sf.Leaves {
		var os_ []string
		for _, o := range l.Opts {
			s := ""
			if o.Short != "" {
				s += "-" + o.Short
			}
			if o.Long != "" {
				if s != "" {
					s += "|"
				}
				s += "--" + o.Long
			}
			if o.TakesValue {
				s += "=<" + o.Kind + ">"
			}
			if o.Custom != "" {
				s += "{custom:" + o.Custom + "}"
				nCustom++
			}
			if !o.modelled {
				s += "{unmodelled}"
			}
			os_ = append(os_, s)
			nOpts++
		}
		h := ""
		if l.Hidden {
			h = " (hidden)"
		}
		un := ""
		if l.Unmodelled != "" {
			un = " UNMODELLED: " + l.Unmodelled
			nUnmodelled++
		}
		surface = append(surface, fmt.Sprintf("%s%s [%s] positionals>=%d max=%d%s", l.name(), h, strings.Join(os_, " "), l.minPos(), l.maxPos(), un))
	}
	c.Note("discovered_surface", surface)
	c.Max("max_commands_registered", len(sf.Names))
	c.Max("max_executable_commands_incl_subcommands", len(sf.Leaves))
	c.Max("max_options_discovered", nOpts)
	c.Max("max_options_with_custom_value_type", nCustom)
	c.Max("max_commands_unmodelled_by_wellformed_generator", nUnmodelled)
	for a := range c25Allowed {
		if _, ok := commands[a]; !ok {
			c.Count("allowed_names_not_registered", 1)
		}
	}

	verifCommandRecorder = c25Record
	defer func() { verifCommandRecorder = nil }()

	// ---- is hook H1 wired into Run? ----------------------------------------------
	// The read-only commands run bare as root: with the hook in place each of them
	// reaches the recorder. If none does and none of the answers is a gate
	// refusal, Run parsed (and really executed them, harmlessly: no hook context)
	// without consulting the hook.
	probeRec, probeForbidden := 0, 0
	for _, l := range sf.Leaves {
		if l.Unmodelled != "" || !c25Allowed[l.top()] {
			continue
		}
		k := c25WellFormed(kit.NewRand("c25-probe"), l, 0, "probe")
		o := c25Run(k.Argv, 0)
		probeRec += len(o.Events)
		if o.ErrClass == "forbidden" {
			probeForbidden++
		}
	}
	c.Count("hook_probe_recorder_calls", probeRec)
	if probeRec == 0 && probeForbidden == 0 {
		fmt.Printf("BROKEN property=C25 hook H1 is not active: Run never called the recorder (verifInstrumentParser missing from Run, or built without -tags verif)\n")
		c.Inconclusive("hook H1 absent: the recorder was never called, nothing can be observed")
		return
	}

	shard, nshard := kit.Shard()
	only := kit.OnlyCase()
	executedByRoot := map[string]bool{}
	executedByNonRoot := map[string]bool{}
	families := map[string]int{}
	sampled := map[string]int{}

	judge := func(idx int, k *c25Case, uid uint32, o c25Outcome) {
		c.Eval()
		root := uid == 0
		who := "nonroot"
		if root {
			who = "root"
		}
		c.Count("runs_"+who, 1)
		c.Count("recorder_calls", len(o.Events))
		named := false
		for _, a := range k.Argv {
			if _, ok := commands[a]; ok {
				named = true
			}
		}
		if named {
			c.Nontrivial(kit.Sig(who, k.Family, strings.Join(k.Shape, "\x01")))
		}
		wit := func(extra map[string]interface{}) map[string]interface{} {
			w := map[string]interface{}{"case_index": idx, "argv": k.Argv, "uid": uid, "family": k.Family,
				"error_class": o.ErrClass, "error": o.ErrMsg}
			var evs []string
			for _, e := range o.Events {
				evs = append(evs, fmt.Sprintf("%s (%v) args=%q", strings.Join(e.Names, " "), e.Type, e.Args))
			}
			w["recorded_executions"] = evs
			for k2, v := range extra {
				w[k2] = v
			}
			return w
		}
		if o.ErrClass == "panic" {
			c.Violation("C25:panic-in-run:"+who, wit(nil))
			return
		}
		if len(o.Events) > 1 {
			c.Violation("C25:more-than-one-command-executed", wit(nil))
		}
		for _, e := range o.Events {
			top := ""
			if len(e.Names) > 0 {
				top = e.Names[0]
			}
			byType, known := sf.TypeName[e.Type]
			if !known || (byType != "" && byType != top) {
				c.Violation("C25:dispatch-identity-mismatch", wit(map[string]interface{}{"name_reported_by_parser": top, "name_registered_for_type": byType}))
			}
			if root {
				executedByRoot[strings.Join(e.Names, " ")] = true
				continue
			}
			if !c25Allowed[top] || (byType != "" && !c25Allowed[byType]) {
				c.Violation("C25:nonroot-executed:"+c25ArgvClass(k.Argv), wit(map[string]interface{}{"executed": top}))
			} else {
				executedByNonRoot[top] = true
				c.Count("nonroot_executed_allowed_command", 1)
				if len(k.Argv) > 0 && k.Argv[0] != top {
					c.Count("nonroot_executed_allowed_command_not_first_arg", 1)
				}
			}
		}
		if len(o.Events) == 0 && o.ErrClass == "none" {
			c.Violation("C25:neither-executed-nor-failed:"+who, wit(nil))
		}
		if len(o.Events) > 0 && o.ErrClass != "none" {
			c.Count("executed_and_error", 1)
		}
		switch {
		case len(o.Events) > 0:
			c.Count(who+"_executed", 1)
		case o.ErrClass == "forbidden":
			c.Count(who+"_stopped_by_gate", 1)
		case o.ErrClass == "help":
			c.Count(who+"_help_printed", 1)
			if !root && !(len(k.Argv) > 0 && c25Allowed[k.Argv[0]]) {
				c.Count("nonroot_help_for_denied_or_no_command", 1)
			}
		default:
			c.Count(who+"_parse_failure", 1)
		}
		if root {
			if o.ErrClass == "forbidden" {
				c.Violation("C25:root-denied", wit(nil))
			}
			if k.WF != nil {
				c.Count("root_wellformed_cases", 1)
				ok := len(o.Events) == 1 && reflect.DeepEqual(o.Events[0].Names, k.WF.Path)
				if !ok && o.ErrClass != "forbidden" {
					c.Violation("C25:root-wellformed-not-executed:"+strings.SplitN(o.ErrClass, " ", 2)[0], wit(map[string]interface{}{"expected_command": k.WF.name()}))
				}
			}
		}
	}

	feat := func(k *c25Case) {
		families[k.Family]++
		hasHelp, hasDD := false, false
		for i, a := range k.Argv {
			if a == "-h" || a == "--help" {
				hasHelp = true
				if i > 0 && strings.HasSuffix(k.Shape[i-1], "_") {
					c.Count("argv_help_flag_in_option_value_position", 1)
				}
			}
			if a == "--" {
				hasDD = true
			}
			if a == "" {
				c.Count("argv_tokens_empty_string", 1)
			}
		}
		if hasHelp {
			c.Count("argv_with_help_flag", 1)
		}
		if hasDD {
			c.Count("argv_with_terminator", 1)
		}
		if hasHelp && hasDD {
			c.Count("argv_with_help_flag_and_terminator", 1)
		}
		c.Max("max_argv_len", len(k.Argv))
	}

	// helpInValue: the vector starts with the path of the command it was built
	// around, carries -h/--help directly after a separately spelled value-taking
	// option before any `--`, and at least the required number of positionals
	// before the `--`: if the parser swallowed the help flag as the option's
	// value, nothing else would stop the dispatch.
	helpValPerCmd := map[string]int{}
	helpValOutcome := map[string]int{}
	helpInValue := func(k *c25Case) bool {
		if k.For == nil || len(k.Argv) < len(k.For.Path) {
			return false
		}
		for i, n := range k.For.Path {
			if k.Argv[i] != n {
				return false
			}
		}
		npos, inVal := 0, false
		for i, a := range k.Argv {
			if a == "--" {
				break
			}
			if strings.HasPrefix(k.Shape[i], "pos:") {
				npos++
			}
			if i > 0 && (a == "-h" || a == "--help") && (strings.HasSuffix(k.Shape[i-1], "_") || k.Shape[i-1] == "cluster+val") {
				inVal = true
			}
		}
		return inVal && npos >= k.For.minPos()
	}

	idx := 0
	runCase := func(k *c25Case, nNonRoot int, r interface{ Intn(int) int }) {
		defer func() { idx++ }()
		if only >= 0 && idx != only {
			return
		}
		feat(k)
		hv := helpInValue(k)
		if hv {
			c.Count("argv_help_in_separate_value_position_with_complete_positionals", 1)
			helpValPerCmd[k.For.name()]++
			if !c25Allowed[k.For.top()] {
				c.Count("argv_help_in_separate_value_position_with_complete_positionals_root_only_command", 1)
			}
		}
		ro := c25Run(k.Argv, 0)
		judge(idx, k, 0, ro)
		if hv {
			helpValOutcome["root:"+outcomeClass(ro)]++
		}
		var lastNR c25Outcome
		for j := 0; j < nNonRoot; j++ {
			uid := c25NonRootUids[(idx+j*3)%len(c25NonRootUids)]
			if r != nil && r.Intn(4) == 0 {
				uid = uint32(1 + r.Intn(1<<31-2))
			}
			o := c25Run(k.Argv, uid)
			judge(idx, k, uid, o)
			lastNR = o
			if hv {
				w := "nonroot-denied-command:"
				if c25Allowed[k.For.top()] {
					w = "nonroot-allowed-command:"
				}
				helpValOutcome[w+outcomeClass(o)]++
				if o.ErrClass != "forbidden" {
					c.Count("nonroot_help_in_value_position_vectors_past_the_gate", 1)
				}
			}
			// monitor sanity, not a clause: for an allowed first argument the gate is
			// transparent, root and non-root must see the same outcome
			if len(k.Argv) > 0 && c25Allowed[k.Argv[0]] {
				c.Count("nonroot_allowed_first_arg_runs", 1)
				if len(o.Events) != len(ro.Events) || o.ErrClass != ro.ErrClass {
					c.Count("nonroot_allowed_first_arg_outcome_differs_from_root", 1)
				}
			}
		}
		if sampled[k.Family] < 1 && (k.Family == "help-as-option-value" || k.Family == "wellformed" || k.Family == "mutated" || k.Family == "ddash-inserted") && len(k.Argv) >= 4 {
			sampled[k.Family]++
			c.Sample(map[string]interface{}{"case_index": idx, "family": k.Family, "argv": k.Argv, "as_root": ro.ErrClass + fmt.Sprint(evNames(ro)),
				"as_last_nonroot_uid": lastNR.ErrClass + fmt.Sprint(evNames(lastNR)), "wellformed_for": wfName(k)})
		}
	}

	// systematic families: enumerations, split over the shards
	sys := c25Systematic(sf, c25Allowed)
	c.Count("systematic_cases_total", 0)
	for i, k := range sys {
		if i%nshard != shard {
			idx++
			continue
		}
		c.Count("systematic_cases_total", 1)
		runCase(k, 2, nil)
	}
	// random families
	n := kit.Scale(36000, 120000)
	base := idx
	for i := 0; i < n; i++ {
		if only >= 0 && base+i != only {
			idx++
			continue
		}
		r := kit.CaseRand("c25", i)
		runCase(c25Random(r, sf), 1+r.Intn(2), r)
	}

	var fams []string
	for f, n := range families {
		fams = append(fams, fmt.Sprintf("%s=%d", f, n))
	}
	sort.Strings(fams)
	c.Note("cases_per_family", fams)
	var rootExec, nonRootExec []string
	for n := range executedByRoot {
		rootExec = append(rootExec, n)
	}
	for n := range executedByNonRoot {
		nonRootExec = append(nonRootExec, n)
	}
	sort.Strings(rootExec)
	sort.Strings(nonRootExec)
	c.Note("help_in_separate_value_position_with_complete_positionals_per_command", sortedCounts(helpValPerCmd))
	c.Note("help_in_separate_value_position_outcomes", sortedCounts(helpValOutcome))
	c.Note("commands_seen_executing_as_root", rootExec)
	c.Note("commands_seen_executing_as_nonroot", nonRootExec)
	c.Max("max_distinct_commands_executed_by_root", len(rootExec))
	c.Max("max_distinct_commands_executed_by_nonroot", len(nonRootExec))

	if only < 0 {
		// "Root may run every command": every executable command must have been seen
		// executing for root (its bare invocation is in the systematic families of
		// some shard; the random families hit every command in every shard)
		var missing []string
		for _, l := range sf.Leaves {
			if l.Unmodelled == "" && !executedByRoot[l.name()] {
				missing = append(missing, l.name())
			}
		}
		if len(missing) > 0 && c.Violations() == 0 {
			c.Inconclusive("commands never seen executing as root: " + strings.Join(missing, ", "))
		}
		c.Floor("recorder_calls", 2000)
		c.Floor("nonroot_stopped_by_gate", 2000)
		c.Floor("nonroot_executed_allowed_command", 500)
		c.Floor("nonroot_help_for_denied_or_no_command", 200)
		c.Floor("root_wellformed_cases", 2000)
		c.Floor("argv_with_help_flag_and_terminator", 100)
		c.Floor("argv_help_flag_in_option_value_position", 20)
		// every command with a value-taking option must have been attacked with a
		// help flag in that option's value position and complete positionals
		var unattacked []string
		for _, l := range sf.Leaves {
			if len(c25ValueOpts(l)) > 0 && helpValPerCmd[l.name()] == 0 {
				unattacked = append(unattacked, l.name())
			}
		}
		if len(unattacked) > 0 && nshard == 1 && c.Violations() == 0 {
			c.Inconclusive("commands with value-taking options never given a help flag as a separate option value with complete positionals: " + strings.Join(unattacked, ", "))
		}
		c.Floor("argv_help_in_separate_value_position_with_complete_positionals", 300)
		c.Floor("nonroot_help_in_value_position_vectors_past_the_gate", 300)
		c.MinDistinct(2000)
	} else {
		c.MinDistinct(0)
	}
}

func outcomeClass(o c25Outcome) string {
	if len(o.Events) > 0 {
		return "executed"
	}
	return o.ErrClass
}

func sortedCounts(m map[string]int) []string {
	var out []string
	for k, n := range m {
		out = append(out, fmt.Sprintf("%s=%d", k, n))
	}
	sort.Strings(out)
	return out
}

func evNames(o c25Outcome) []string {
	var out []string
	for _, e := range o.Events {
		out = append(out, "executed:"+strings.Join(e.Names, " "))
	}
	return out
}

func wfName(k *c25Case) string {
	if k.WF == nil {
		return ""
	}
	return k.WF.name()
}
