// C25 -- discovery of snapctl's real command line surface.
//
// Nothing here copies snapd logic: the registered commands are taken from the
// package's own registry (the `commands` map filled by the init functions), the
// structs returned by their generators are handed to go-flags exactly as Run
// does (flags.Parser.AddCommand), and the option / positional / subcommand
// surface is read back from go-flags' own introspection API plus the struct
// tags. The result only steers the argv generator; the oracle never consults it
// except for "well-formed by construction" (see c25_gen_test.go).
package ctlcmd

import (
	"fmt"
	"reflect"
	"sort"
	"strings"

	"github.com/jessevdk/go-flags"
)

type c25Opt struct {
	Short      string `json:"short,omitempty"`
	Long       string `json:"long,omitempty"`
	TakesValue bool   `json:"takes_value"`
	Kind       string `json:"kind"`
	Optional   bool   `json:"optional_argument,omitempty"`
	Required   bool   `json:"required,omitempty"`
	Choices    []string
	// Custom: the option's Go type brings its own value handling (flags.Unmarshaler
	// and/or flags.ValueValidator). Such an option is never used by the
	// well-formed generator (modelled=false: the harness does not know which
	// values the type accepts), but it IS part of the hostile families: what the
	// parser does with a token in its value position is exactly what is monitored.
	Custom   string `json:"custom_value_type,omitempty"`
	modelled bool
}

type c25Pos struct {
	Name      string
	Remaining bool
	Kind      reflect.Kind
	Required  int
	ReqMax    int
}

type c25Cmd struct {
	Path         []string
	Hidden       bool
	Opts         []c25Opt
	Pos          []c25Pos
	ArgsRequired bool
	Subs         []*c25Cmd
	SubsOptional bool
	Type         reflect.Type // concrete type whose Execute go-flags would call
	Unmodelled   string       // why the well-formed generator cannot build an invocation ("" = it can)
}

func (c *c25Cmd) top() string  { return c.Path[0] }
func (c *c25Cmd) name() string { return strings.Join(c.Path, " ") }

// minPos / maxPos: how many positional arguments an invocation must / may
// carry, by go-flags' documented rules for `required` on positional args.
func (c *c25Cmd) minPos() int {
	min := 0
	for i, p := range c.Pos {
		if p.Remaining {
			if p.Required > 0 && i+p.Required > min {
				min = i + p.Required
			}
			continue
		}
		if c.ArgsRequired || p.Required != -1 || p.ReqMax != -1 {
			min = i + 1
		}
	}
	return min
}

func (c *c25Cmd) maxPos() int {
	for i, p := range c.Pos {
		if p.Remaining && p.ReqMax != -1 {
			return i + p.ReqMax
		}
	}
	return -1 // unbounded (extras become the args of Execute)
}

func c25DerefKind(t reflect.Type) (reflect.Kind, reflect.Type) {
	for t.Kind() == reflect.Slice || t.Kind() == reflect.Ptr {
		t = t.Elem()
	}
	return t.Kind(), t
}

var c25UnmarshalerType = reflect.TypeOf((*flags.Unmarshaler)(nil)).Elem()
var c25ValidatorType = reflect.TypeOf((*flags.ValueValidator)(nil)).Elem()

func c25Options(g *flags.Group, out *[]c25Opt) {
	for _, o := range g.Options() {
		ft := o.Field().Type
		kind, base := c25DerefKind(ft)
		op := c25Opt{Long: o.LongName, Kind: kind.String(), Optional: o.OptionalArgument, Required: o.Required, Choices: o.Choices, modelled: true}
		if o.ShortName != 0 {
			op.Short = string(o.ShortName)
		}
		// like go-flags, look for the interfaces on the field type and on what it
		// points to / is a slice of
		unm, val := false, false
		for t := ft; ; t = t.Elem() {
			unm = unm || t.Implements(c25UnmarshalerType) || reflect.PtrTo(t).Implements(c25UnmarshalerType)
			val = val || t.Implements(c25ValidatorType) || reflect.PtrTo(t).Implements(c25ValidatorType)
			if t.Kind() != reflect.Slice && t.Kind() != reflect.Ptr {
				break
			}
		}
		switch {
		case unm:
			op.Custom = "unmarshaler"
			if val {
				op.Custom += "+validator"
			}
			op.TakesValue = true
			op.modelled = false
		case val:
			// a validator alone does not change whether the option takes a value
			op.Custom = "validator"
			op.TakesValue = !(kind == reflect.Bool || (kind == reflect.Func && base.NumIn() == 0))
			op.modelled = false
		case kind == reflect.Bool:
			op.TakesValue = false
		case kind == reflect.Func && base.NumIn() == 0:
			op.TakesValue = false
		case kind == reflect.String, kind >= reflect.Int && kind <= reflect.Int64, kind >= reflect.Uint && kind <= reflect.Uint64:
			op.TakesValue = true
		default:
			op.TakesValue = true
			op.modelled = false
		}
		*out = append(*out, op)
	}
	for _, sg := range g.Groups() {
		c25Options(sg, out)
	}
}

// c25FindTagged walks the (possibly embedded) struct fields of t looking for
// fields carrying the given go-flags struct tag.
func c25FindTagged(t reflect.Type, tag string, f func(sf reflect.StructField)) {
	for t.Kind() == reflect.Ptr {
		t = t.Elem()
	}
	if t.Kind() != reflect.Struct {
		return
	}
	for i := 0; i < t.NumField(); i++ {
		sf := t.Field(i)
		if _, ok := sf.Tag.Lookup(tag); ok {
			f(sf)
			continue
		}
		if sf.Anonymous {
			c25FindTagged(sf.Type, tag, f)
		}
	}
}

func c25Walk(fc *flags.Command, t reflect.Type, path []string) *c25Cmd {
	spec := &c25Cmd{Path: append([]string(nil), path...), Hidden: fc.Hidden, ArgsRequired: fc.ArgsRequired,
		SubsOptional: fc.SubcommandsOptional, Type: t}
	c25Options(fc.Group, &spec.Opts)

	// positional slots: go-flags' Args() (names, required ranges) paired by
	// index with the fields of the struct tagged positional-args
	var posFields []reflect.StructField
	c25FindTagged(t, "positional-args", func(sf reflect.StructField) {
		st := sf.Type
		for st.Kind() == reflect.Ptr {
			st = st.Elem()
		}
		for i := 0; i < st.NumField(); i++ {
			posFields = append(posFields, st.Field(i))
		}
	})
	args := fc.Args()
	if len(args) != len(posFields) {
		spec.Unmodelled = fmt.Sprintf("positional slots: go-flags reports %d, struct tags show %d", len(args), len(posFields))
	}
	for i, a := range args {
		p := c25Pos{Name: a.Name, Required: a.Required, ReqMax: a.RequiredMaximum, Kind: reflect.String}
		if i < len(posFields) {
			ft := posFields[i].Type
			p.Remaining = ft.Kind() == reflect.Slice
			p.Kind, _ = c25DerefKind(ft)
			if p.Kind != reflect.String {
				spec.Unmodelled = "positional argument of kind " + p.Kind.String()
			}
		}
		spec.Pos = append(spec.Pos, p)
	}
	for _, o := range spec.Opts {
		if o.Required && !o.modelled {
			spec.Unmodelled = "required option with a custom value type"
		}
	}

	// subcommands
	subTypes := map[string]reflect.Type{}
	c25FindTagged(t, "command", func(sf reflect.StructField) {
		ft := sf.Type
		if ft.Kind() != reflect.Ptr {
			ft = reflect.PtrTo(ft)
		}
		subTypes[sf.Tag.Get("command")] = ft
	})
	for _, sc := range fc.Commands() {
		st, ok := subTypes[sc.Name]
		if !ok {
			spec.Unmodelled = "subcommand " + sc.Name + " without a tagged struct field"
			continue
		}
		spec.Subs = append(spec.Subs, c25Walk(sc, st, append(path, sc.Name)))
	}
	return spec
}

type c25Surface struct {
	Top      []*c25Cmd               // registered top-level commands, sorted by name
	Leaves   []*c25Cmd               // every command whose Execute can be reached (subcommands flattened)
	TypeName map[reflect.Type]string // concrete Commander type -> registered top-level name
	Names    []string
}

func c25Discover() (*c25Surface, error) {
	p := flags.NewNamedParser("snapctl", flags.PassDoubleDash|flags.HelpFlag)
	var names []string
	for n := range commands {
		names = append(names, n)
	}
	sort.Strings(names)
	sf := &c25Surface{TypeName: map[reflect.Type]string{}, Names: names}
	for _, n := range names {
		data := commands[n].generator()
		fc, err := p.AddCommand(n, "", "", data)
		if err != nil {
			return nil, fmt.Errorf("cannot add %q to the discovery parser: %v", n, err)
		}
		fc.Hidden = commands[n].hidden
		spec := c25Walk(fc, reflect.TypeOf(data), []string{n})
		sf.Top = append(sf.Top, spec)
		var flat func(s *c25Cmd)
		flat = func(s *c25Cmd) {
			if prev, dup := sf.TypeName[s.Type]; dup && prev != n {
				// two registered names sharing one Go type: identity by type is ambiguous
				sf.TypeName[s.Type] = ""
			} else {
				sf.TypeName[s.Type] = n
			}
			if len(s.Subs) == 0 || s.SubsOptional {
				sf.Leaves = append(sf.Leaves, s)
			}
			for _, sub := range s.Subs {
				flat(sub)
			}
		}
		flat(spec)
	}
	return sf, nil
}
