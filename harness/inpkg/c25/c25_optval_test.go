// C25 -- option-looking tokens in the *value position* of value-taking options.
//
// The permission gate treats every literal -h / --help before a `--` as a help
// request and lets the vector through to the option parser, trusting the parser
// to honour it. The parser only does so if it never consumes such a token as
// the separate value of a preceding option (`-t -h`, `--type --help`). Whether
// it does depends on the option's Go type (go-flags skips its "expected
// argument, got option" refusal for types with their own value validation), so
// these families are generated for EVERY registered command and EVERY
// value-taking option found on the real command structs -- including options
// whose type brings its own value handling (c25Opt.Custom), which the
// well-formed generator deliberately leaves alone -- and always together with
// the complete set of positional arguments the command requires and otherwise
// valid option values: if the parser swallows the token, nothing else stops
// the command from being dispatched. None of these vectors is "well-formed by
// construction" (WF stays nil): the oracle for them is the non-root allow-list,
// the never-forbidden clause for root and executes-or-fails.
package ctlcmd

import (
	"math/rand"
	"strings"
)

// c25Named: every option of cmd that can be spelled, modelled or not.
func c25Named(cmd *c25Cmd) []c25Opt {
	var out []c25Opt
	for _, o := range cmd.Opts {
		if o.Long != "" || o.Short != "" {
			out = append(out, o)
		}
	}
	return out
}

// c25ValueOpts: every spellable option of cmd that takes a value (optional
// values and custom value types included).
func c25ValueOpts(cmd *c25Cmd) []c25Opt {
	var out []c25Opt
	for _, o := range c25Named(cmd) {
		if o.TakesValue {
			out = append(out, o)
		}
	}
	return out
}

func c25OptKey(o c25Opt) string { return o.Long + "/" + o.Short }

// c25SepForms: the separated spellings (`--opt value`, `-o value`). For an
// option with an optional value go-flags documents that the next argument is
// not consumed; the vectors are generated all the same.
func c25SepForms(o c25Opt) []int {
	var fs []int
	if o.Long != "" {
		fs = append(fs, c25FormLongSep)
	}
	if o.Short != "" {
		fs = append(fs, c25FormShortSep)
	}
	return fs
}

// c25ValidValue: an unremarkable value for o.
func c25ValidValue(o c25Opt) string {
	switch {
	case len(o.Choices) > 0:
		return o.Choices[0]
	case o.Kind != "string":
		return "1"
	}
	return "v"
}

// c25PosFiller: an unremarkable value for positional slot i of cmd.
func c25PosFiller(cmd *c25Cmd, i int) string {
	if len(cmd.Pos) == 0 {
		return "p"
	}
	if i >= len(cmd.Pos) {
		i = len(cmd.Pos) - 1
	}
	if k := cmd.Pos[i].Kind.String(); strings.HasPrefix(k, "int") || strings.HasPrefix(k, "uint") || strings.HasPrefix(k, "float") {
		return "1"
	}
	return "p"
}

// c25OwnTokens: the bare spellings of cmd's own options (`--persistent`, `-o`).
func c25OwnTokens(cmd *c25Cmd) []string {
	var out []string
	for _, o := range c25Named(cmd) {
		if o.Long != "" {
			out = append(out, "--"+o.Long)
		}
		if o.Short != "" {
			out = append(out, "-"+o.Short)
		}
	}
	return out
}

// option-looking tokens other than the two help flags
var c25OptlikeVals = []string{"-x", "--nope", "-hx", "--help=1", "-7", "-?"}

// c25OptlikeValue: a random option-looking token, mostly a help flag.
func c25OptlikeValue(r *rand.Rand, cmd *c25Cmd) string {
	switch n := r.Intn(100); {
	case n < 30:
		return "-h"
	case n < 58:
		return "--help"
	case n < 75 && cmd != nil:
		if own := c25OwnTokens(cmd); len(own) > 0 {
			return c25Pick(r, own)
		}
	case n < 80:
		return c25Pick(r, c25OptLike) // incl. `--`
	}
	return c25Pick(r, c25OptlikeVals)
}

// c25CtxOpts: the other options accompanying the attacked ones: "bare" = only
// the required ones, "rich" = every modelled option once. exclude = options
// that the caller spells itself.
func c25CtxOpts(cmd *c25Cmd, rich bool, exclude map[string]bool) []c25Opt {
	var out []c25Opt
	for _, o := range c25Named(cmd) {
		if exclude[c25OptKey(o)] {
			continue
		}
		if o.Required || (rich && o.modelled) {
			out = append(out, o)
		}
	}
	return out
}

func c25SpellValid(k *c25Case, o c25Opt) {
	fs := c25Forms(o)
	form := fs[0]
	for _, f := range fs {
		if f == c25FormLongSep || f == c25FormShortSep {
			form = f
			break
		}
	}
	c25Spell(k, o, form, c25ValidValue(o))
}

// c25Layout: command path, the context options with valid values, then `count`
// positionals with `first` emitted before positional number at[0] and (if
// given) `second` before positional number at[1] (count = after the last one).
func c25Layout(leaf *c25Cmd, family string, ctx []c25Opt, count int, at [2]int, first, second func(k *c25Case)) *c25Case {
	k := &c25Case{Family: family, For: leaf}
	for _, n := range leaf.Path {
		k.add(n, "cmd:"+n)
	}
	for _, o := range ctx {
		c25SpellValid(k, o)
	}
	for i := 0; i <= count; i++ {
		if i == at[0] {
			first(k)
		}
		if second != nil && i == at[1] {
			second(k)
		}
		if i < count {
			v := c25PosFiller(leaf, i)
			k.add(v, "pos:"+c25ValClass(v))
		}
	}
	return k
}

func c25PosCounts(leaf *c25Cmd) []int {
	min := leaf.minPos()
	counts := []int{min}
	if max := leaf.maxPos(); max < 0 || min+1 <= max {
		counts = append(counts, min+1)
	}
	return counts
}

func c25IsHelp(v string) bool { return v == "-h" || v == "--help" }

// c25OptlikeValueFamilies: the systematic part (enumerations over the
// discovered surface, no randomness).
func c25OptlikeValueFamilies(sf *c25Surface) []*c25Case {
	var out []*c25Case
	for _, leaf := range sf.Leaves { // every command, also those the well-formed generator cannot model
		vopts := c25ValueOpts(leaf)
		if len(vopts) == 0 {
			continue
		}
		own := c25OwnTokens(leaf)
		var boolShorts string
		for _, o := range c25Named(leaf) {
			if o.Short != "" && !o.TakesValue && o.Short != "h" {
				boolShorts += o.Short
			}
		}

		// F8: one option, an option-looking token as its separate value, complete
		// positionals. Values: the help flags, other option-looking strings, the
		// command's own option spellings.
		vals := append([]string{"-h", "--help"}, c25OptlikeVals...)
		vals = append(vals, own...)
		for _, o := range vopts {
			excl := map[string]bool{c25OptKey(o): true}
			type spelling struct {
				name string
				emit func(k *c25Case, val string)
			}
			var spellings []spelling
			for _, form := range c25SepForms(o) {
				form := form
				spellings = append(spellings, spelling{"sep", func(k *c25Case, val string) { c25Spell(k, o, form, val) }})
			}
			if o.Short != "" && boolShorts != "" {
				spellings = append(spellings, spelling{"cluster", func(k *c25Case, val string) {
					k.add("-"+boolShorts+o.Short, "cluster+val")
					k.add(val, "val:"+c25ValClass(val))
				}})
			}
			for _, sp := range spellings {
				for _, val := range vals {
					for _, count := range c25PosCounts(leaf) {
						places := []int{0} // before the positionals, after them, between them
						if count > 0 {
							places = append(places, count)
						}
						if count >= 2 {
							places = append(places, 1)
						}
						for _, place := range places {
							for _, rich := range []bool{false, true} {
								ctx := c25CtxOpts(leaf, rich, excl)
								if rich && len(ctx) == len(c25CtxOpts(leaf, false, excl)) {
									continue // no other options: same vector as the bare one
								}
								sp, val := sp, val
								k := c25Layout(leaf, "optlike-sep-value", ctx, count, [2]int{place, -1}, func(k *c25Case) { sp.emit(k, val) }, nil)
								out = append(out, k)
								if c25IsHelp(val) && !rich {
									// the same before a terminator with free arguments after it
									for _, tail := range []string{"q", "-h"} {
										t := k.clone()
										t.Family = "optlike-sep-value-then-ddash"
										t.add("--", "ddash")
										t.add(tail, "free:"+tail)
										out = append(out, t)
									}
								}
							}
						}
					}
				}
			}
		}

		// F9: option-looking values for several options at once.
		count := leaf.minPos()
		pairVals := [][2]string{}
		for _, a := range []string{"-h", "--help", "-x"} {
			for _, b := range []string{"-h", "--help", "-x"} {
				pairVals = append(pairVals, [2]string{a, b})
			}
		}
		for _, o1 := range vopts {
			for _, o2 := range vopts { // o1 == o2: the same option twice
				excl := map[string]bool{c25OptKey(o1): true, c25OptKey(o2): true}
				ctx := c25CtxOpts(leaf, false, excl)
				for _, f1 := range c25SepForms(o1) {
					for _, f2 := range c25SepForms(o2) {
						o1, o2, f1, f2 := o1, o2, f1, f2
						pv := append([][2]string{}, pairVals...)
						pv = append(pv, [2]string{c25ValidValue(o1), "-h"}, [2]string{c25ValidValue(o1), "--help"},
							[2]string{"-h", c25ValidValue(o2)}, [2]string{"--help", c25ValidValue(o2)})
						for _, v := range pv {
							v := v
							for _, at := range [][2]int{{0, 0}, {count, count}, {0, count}} {
								if count == 0 && at != [2]int{0, 0} {
									continue
								}
								out = append(out, c25Layout(leaf, "optlike-sep-values-pair", ctx, count, at,
									func(k *c25Case) { c25Spell(k, o1, f1, v[0]) }, func(k *c25Case) { c25Spell(k, o2, f2, v[1]) }))
							}
						}
						// chain: the spelling of o2 is the value of o1 and is itself followed by a help flag
						for _, h := range []string{"-h", "--help"} {
							h := h
							tmp := &c25Case{}
							c25Spell(tmp, o2, f2, h)
							for _, place := range []int{0, count} {
								if count == 0 && place != 0 {
									continue
								}
								out = append(out, c25Layout(leaf, "optlike-sep-values-chain", ctx, count, [2]int{place, -1}, func(k *c25Case) {
									c25Spell(k, o1, f1, tmp.Argv[0])
									k.add(h, "val:"+c25ValClass(h))
								}, nil))
							}
						}
					}
				}
			}
		}
		// every value-taking option at once, each with the same option-looking value
		for _, val := range []string{"-h", "--help", "-x"} {
			for fi := 0; fi < 2; fi++ {
				for _, rich := range []bool{false, true} {
					excl := map[string]bool{}
					for _, o := range vopts {
						excl[c25OptKey(o)] = true
					}
					ctx := c25CtxOpts(leaf, rich, excl)
					if rich && len(ctx) == len(c25CtxOpts(leaf, false, excl)) {
						continue
					}
					for _, place := range []int{0, count} {
						if count == 0 && place != 0 {
							continue
						}
						val, fi := val, fi
						out = append(out, c25Layout(leaf, "optlike-sep-values-all", ctx, count, [2]int{place, -1}, func(k *c25Case) {
							for _, o := range vopts {
								fs := c25SepForms(o)
								c25Spell(k, o, fs[fi%len(fs)], val)
							}
						}, nil))
					}
				}
			}
		}
	}
	return out
}

// c25RandomOptlikeValues: a random well-formed invocation of a command that has
// value-taking options, in which separate option values are replaced by, and
// further `option value` pairs are inserted with, option-looking values. All
// insertions happen before any `--` and never between an option and its value,
// so the positional arguments stay complete.
func c25RandomOptlikeValues(r *rand.Rand, sf *c25Surface) *c25Case {
	var cands []*c25Cmd
	for _, l := range sf.Leaves {
		if l.Unmodelled == "" && len(c25ValueOpts(l)) > 0 {
			cands = append(cands, l)
		}
	}
	if len(cands) == 0 {
		return nil
	}
	leaf := cands[r.Intn(len(cands))]
	vopts := c25ValueOpts(leaf)
	k := c25WellFormed(r, leaf, 3, "optlike-values")
	k.WF = nil
	replaced := 0
	for p, cl := range k.Shape {
		if strings.HasPrefix(cl, "val:") && r.Intn(2) == 0 {
			v := c25OptlikeValue(r, leaf)
			k.Argv[p], k.Shape[p] = v, "val:"+c25ValClass(v)
			replaced++
		}
	}
	n := r.Intn(3)
	if replaced == 0 {
		n = 1 + r.Intn(3)
	}
	for i := 0; i < n; i++ {
		end := len(k.Argv)
		for p, cl := range k.Shape {
			if cl == "ddash" {
				end = p
				break
			}
		}
		var pts []int
		for p := len(leaf.Path); p <= end; p++ {
			if prev := k.Shape[p-1]; strings.HasSuffix(prev, "_") || prev == "cluster+val" {
				continue
			}
			pts = append(pts, p)
		}
		if len(pts) == 0 {
			break
		}
		p := pts[r.Intn(len(pts))]
		o := vopts[r.Intn(len(vopts))]
		fs := c25SepForms(o)
		tmp := &c25Case{}
		c25Spell(tmp, o, fs[r.Intn(len(fs))], c25OptlikeValue(r, leaf))
		k.insert(p, tmp.Argv[1], tmp.Shape[1])
		k.insert(p, tmp.Argv[0], tmp.Shape[0])
	}
	return k
}
