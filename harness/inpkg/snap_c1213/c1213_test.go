// Runtime monitors for C12 (refresh keeps at most refresh.retain revisions and
// never discards revisions in use) and C13 (revert switches to a kept revision
// in place and blocks the reverted-from ones).
//
// The file is compiled into overlord/snapstate's external test package by
// /verif/check (overlay, zz_verif_ prefix). It drives the real SnapManager,
// the real task graphs produced by Install/Update/Revert/RevertToRevision/
// Enable/Disable and the real handlers through the package's own
// snapmgrBaseTest environment (fakeSnappyBackend, fakeStore, mock bootloader).
// Nothing of snapd's garbage-collection or blocking logic is re-implemented
// here: the oracles are the inequalities / equalities of the two statements,
// evaluated on SnapState snapshots and on the backend op log.
package snapstate_test

import (
	"context"
	"encoding/json"
	"fmt"
	"os"
	"path/filepath"
	"runtime"
	"sort"
	"strconv"
	"strings"
	"time"

	. "gopkg.in/check.v1"

	kit "verifkit"

	"github.com/snapcore/snapd/dirs"
	"github.com/snapcore/snapd/overlord/configstate/config"
	"github.com/snapcore/snapd/overlord/snapstate"
	"github.com/snapcore/snapd/overlord/snapstate/snapstatetest"
	"github.com/snapcore/snapd/overlord/state"
	"github.com/snapcore/snapd/release"
	"github.com/snapcore/snapd/snap"
)

// The binary built by /verif/check is not recognised by osutil.IsTestBinary
// (argv[0] has no "go-build" component), so snapd's atomic file writes fsync.
// All files of the fake world (sequence files, cookies, aux store info) are
// scratch: keep gocheck's temp root on tmpfs. Must happen before the first
// c.MkDir(), hence init().
var vScratch string

func init() {
	if p := os.Getenv("VERIF_PROP"); p != "C12" && p != "C13" {
		return
	}
	base := os.Getenv("VERIF_C1213_SCRATCH")
	if base == "" {
		base = "/dev/shm"
	}
	d, err := os.MkdirTemp(base, "verif-c1213-")
	if err != nil {
		return // fall back to $TMPDIR (slow but correct)
	}
	vScratch = d
	os.Setenv("TMPDIR", d)
	runtime.MemProfileRate = 0
}

func vCleanupScratch() {
	if vScratch != "" {
		os.RemoveAll(vScratch)
	}
}

type verifC1213Suite struct {
	snapmgrBaseTest
	vNotDone int
	vAbort   bool // a watchdog fired: stop generating
	vSampled map[string]int
}

var _ = Suite(&verifC1213Suite{})

// ---------------------------------------------------------------------------
// history description (also what goes into witnesses and samples)

type vOp struct {
	Kind       string      `json:"kind"`
	Snap       string      `json:"snap,omitempty"`
	Rev        int         `json:"rev,omitempty"`
	Via        string      `json:"via,omitempty"`       // refresh: "store" (refreshRevnos), "revision" (RevisionOptions), "all" (UpdateMany), "amend" (Update --amend of a sideloaded snap); local file: "path" (InstallPath), "path-many" (InstallPathMany), "path-update" (UpdatePathWithDeviceContext), "try" (TryPath)
	PathMode   string      `json:"path_mode,omitempty"` // local file only: "asserted" (side info with snap-id and revision) or "unasserted" (name only: snapd picks the next x<N>; Rev is filled in from the result, x<N> is written as -N)
	NotBlocked bool        `json:"not_blocked,omitempty"`
	DevMode    bool        `json:"devmode,omitempty"`
	Retain     interface{} `json:"retain,omitempty"` // nil=unset, int, string
	InUse      []int       `json:"in_use,omitempty"` // boot answer at request time (kernel snap only)
	Result     string      `json:"result,omitempty"`
	SeqAfter   []int       `json:"seq_after,omitempty"`
	CurAfter   int         `json:"cur_after,omitempty"`
}

type vSnapshot struct {
	Present bool
	Seq     []int
	Current int
	Active  bool
	DevMode bool
	TryMode bool
	Block   []int
	Raw     string
}

// vRevStr renders a revision number the way snapd does (local revisions are
// negative numbers: x1 = -1).
func vRevStr(n int) string { return snap.R(n).String() }

func (v vSnapshot) index(rev int) int {
	idx := -1
	for i, r := range v.Seq {
		if r == rev {
			idx = i
		}
	}
	return idx
}

type vProfile struct {
	prop string
	// weights
	wRefreshNew, wRefreshKept, wRevert, wRevertTo, wBadRevert, wRetain, wToggle, wProbe int
	// refreshes of an installed snap from a local file (C12 only): to a revision
	// that is not kept yet (asserted or unasserted) / to an already kept one
	wPathNew, wPathKept int
	kernelEvery         int // every n-th history has the boot-participating kernel snap
}

type vSnapInfo struct {
	name, id string
	kernel   bool
}

var vSnaps = []vSnapInfo{
	{"some-snap", "some-snap-id", false},
	{"some-other-snap", "some-other-snap-id", false},
	{"kernel", "kernel-id", true},
}

// vHistory is the per-history driver state.
type vHistory struct {
	s    *verifC1213Suite
	c    *C
	chk  *kit.Check
	prof *vProfile
	idx  int

	onClassic bool
	retainVal interface{}             // what the harness last wrote to core refresh.retain
	nb        map[string]map[int]bool // per snap: last revert away from rev was requested NotBlocked
	snaps     []vSnapInfo
	ops       []*vOp
	dead      bool              // a violation made the rest of the history meaningless
	cont      int               // revisions are drawn from 1..maxRev
	dirs      map[string]string // per snap: unpacked snap directory used as "the local file"
}

// snapDir returns an unpacked snap directory for the snap (made on first use;
// mksquashfs is not available, and a directory is what `snap try` takes anyway).
// The meta/snap.yaml agrees with what the package's fakes report for the
// installed revisions (epoch 1*, kernel type for the model's kernel).
func (h *vHistory) snapDir(si vSnapInfo) string {
	if d, ok := h.dirs[si.name]; ok {
		return d
	}
	d := h.c.MkDir()
	h.c.Assert(os.Chmod(d, 0755), IsNil)
	h.c.Assert(os.MkdirAll(filepath.Join(d, "meta"), 0755), IsNil)
	yaml := "name: " + si.name + "\nversion: 1.0\nepoch: 1*\n"
	if si.kernel {
		yaml += "type: kernel\n"
	}
	h.c.Assert(os.WriteFile(filepath.Join(d, "meta", "snap.yaml"), []byte(yaml), 0644), IsNil)
	if h.dirs == nil {
		h.dirs = map[string]string{}
	}
	h.dirs[si.name] = d
	return d
}

// reference rule for the retain value (statement: the setting, default 2 on
// classic, 3 on core; accepted values 2..20, also as legacy strings).
func vRefRetain(v interface{}, onClassic bool) int {
	n := 0
	switch x := v.(type) {
	case int:
		n = x
	case string:
		n, _ = strconv.Atoi(x)
	}
	if n == 0 {
		if onClassic {
			return 2
		}
		return 3
	}
	return n
}

func vRetainKind(v interface{}) string {
	switch v.(type) {
	case int:
		return "int"
	case string:
		return "string"
	}
	return "unset"
}

func (h *vHistory) snapshot(name string) vSnapshot {
	var snapst snapstate.SnapState
	err := snapstate.Get(h.s.state, name, &snapst)
	if err != nil {
		return vSnapshot{}
	}
	v := vSnapshot{Present: true, Current: snapst.Current.N, Active: snapst.Active, DevMode: snapst.DevMode, TryMode: snapst.TryMode}
	for _, rs := range snapst.Sequence.Revisions {
		v.Seq = append(v.Seq, rs.Snap.Revision.N)
	}
	for _, r := range snapst.Block() {
		v.Block = append(v.Block, r.N)
	}
	b, _ := json.Marshal(&snapst)
	v.Raw = string(b)
	return v
}

func (h *vHistory) witness(op *vOp, extra map[string]interface{}) map[string]interface{} {
	w := map[string]interface{}{
		"case_index": h.idx,
		"on_classic": h.onClassic,
		"history":    h.ops,
		"op":         op,
	}
	for k, v := range extra {
		w[k] = v
	}
	return w
}

// opsSince returns the backend ops appended since mark.
func (h *vHistory) opsSince(mark int) fakeOps {
	h.s.fakeBackend.mu.Lock()
	defer h.s.fakeBackend.mu.Unlock()
	return append(fakeOps(nil), h.s.fakeBackend.ops[mark:]...)
}

func (h *vHistory) opMark() int {
	h.s.fakeBackend.mu.Lock()
	defer h.s.fakeBackend.mu.Unlock()
	return len(h.s.fakeBackend.ops)
}

// runChange links ts into a change and settles it. state must be locked.
func (h *vHistory) runChange(kind string, tss ...*state.TaskSet) *state.Change {
	chg := h.s.state.NewChange(kind, "verif "+kind)
	for _, ts := range tss {
		chg.AddAll(ts)
	}
	// like snapmgrBaseTest.settle, but with a watchdog that is far above any
	// normal duration (the suite's 5 s fires on a loaded machine); firing makes
	// the run inconclusive, never a verdict
	h.s.state.Unlock()
	err := h.s.o.Settle(vSettleWatchdog)
	h.s.state.Lock()
	if err != nil {
		h.chk.Inconclusive(fmt.Sprintf("history %d: %s change did not settle within the watchdog: %v", h.idx, kind, err))
		h.dead = true
		h.s.vAbort = true
	}
	return chg
}

const vSettleWatchdog = 15 * time.Minute

func vRevOfPath(p string) (name string, rev int, ok bool) {
	// <SnapMountDir>/<name>/<rev>
	base := filepath.Base(p)
	r, err := snap.ParseRevision(base) // "7" or "x3" (local revision, N = -3)
	if err != nil || r.Unset() {
		return "", 0, false
	}
	return filepath.Base(filepath.Dir(p)), r.N, true
}

func vContains(l []int, x int) bool {
	for _, y := range l {
		if x == y {
			return true
		}
	}
	return false
}

func vEqual(a, b []int) bool {
	if len(a) != len(b) {
		return false
	}
	for i := range a {
		if a[i] != b[i] {
			return false
		}
	}
	return true
}

// ---------------------------------------------------------------------------
// operations

func (h *vHistory) setRetain(op *vOp) {
	st := h.s.state
	tr := config.NewTransaction(st)
	var err error
	if op.Retain == nil {
		err = tr.Set("core", "refresh.retain", nil)
	} else {
		err = tr.Set("core", "refresh.retain", op.Retain)
	}
	h.c.Assert(err, IsNil)
	tr.Commit()
	h.retainVal = op.Retain
	h.chk.Count("retain_set_"+vRetainKind(op.Retain), 1)
	op.Result = "set"
	if h.prof.prop == "C12" {
		// the value the real resolution function hands to the garbage
		// collection must be the setting (reference rule)
		got := snapstate.RefreshRetain(st)
		want := vRefRetain(op.Retain, h.onClassic)
		h.chk.Count("retain_resolution_checks", 1)
		if got != want {
			h.chk.Violation("C12:retain-resolution:"+vRetainKind(op.Retain), h.witness(op, map[string]interface{}{
				"resolved": got, "expected": want}))
		}
	}
}

func (h *vHistory) install(op *vOp) {
	st := h.s.state
	ts, err := snapstate.Install(context.Background(), st, op.Snap, &snapstate.RevisionOptions{Revision: snap.R(op.Rev)}, h.s.user.ID, snapstate.Flags{})
	if err != nil {
		op.Result = "error: " + err.Error()
		h.chk.Count("install_errors", 1)
		return
	}
	chg := h.runChange("install-snap", ts)
	op.Result = chg.Status().String()
	after := h.snapshot(op.Snap)
	op.SeqAfter, op.CurAfter = after.Seq, after.Current
	h.chk.Count("installs", 1)
	if chg.Status() != state.DoneStatus {
		h.notDone()
	}
}

func (h *vHistory) info(name string) vSnapInfo {
	for _, si := range vSnaps {
		if si.name == name {
			return si
		}
	}
	panic("unknown snap " + name)
}

// pinOthers makes the fake store offer nothing for every snap but `name`.
func (h *vHistory) pinOthers(name string) {
	for _, si := range vSnaps {
		if si.name == name {
			continue
		}
		if snp := h.snapshot(si.name); snp.Present {
			h.s.fakeStore.refreshRevnos[si.id] = snap.R(snp.Current)
		}
	}
}

// setInUse programs the mock bootloader with the boot answer of op.InUse.
func (h *vHistory) setInUse(op *vOp) {
	vars := map[string]string{"snap_kernel": "", "snap_try_kernel": "", "snap_mode": ""}
	if len(op.InUse) > 0 {
		vars["snap_kernel"] = fmt.Sprintf("kernel_%d.snap", op.InUse[0])
	}
	if len(op.InUse) > 1 {
		vars["snap_try_kernel"] = fmt.Sprintf("kernel_%d.snap", op.InUse[1])
		vars["snap_mode"] = "try"
	}
	h.c.Assert(h.s.bl.SetBootVars(vars), IsNil)
}

// vIsPathVia: the refresh arrives as a local file (SnapSetup.SnapPath).
func vIsPathVia(via string) bool {
	return via == "path" || via == "path-many" || via == "path-update" || via == "try"
}

// requestPathRefresh asks for a refresh of an installed snap from a local file
// through one of snapd's entry points for that.
func (h *vHistory) requestPathRefresh(op *vOp, si vSnapInfo) ([]*state.TaskSet, error) {
	st := h.s.state
	dir := h.snapDir(si)
	sideInfo := &snap.SideInfo{RealName: si.name}
	if op.PathMode == "asserted" {
		// full metadata: as after `snap ack` + `snap install ./file.snap`
		sideInfo.SnapID = si.id
		sideInfo.Revision = snap.R(op.Rev)
	}
	switch op.Via {
	case "path":
		ts, _, err := snapstate.InstallPath(st, sideInfo, dir, "", "", snapstate.Flags{}, nil)
		return []*state.TaskSet{ts}, err
	case "path-many":
		// what the daemon uses for `snap install ./a.snap ./b.snap` (path update goal)
		tss, err := snapstate.InstallPathMany(context.Background(), st, []*snap.SideInfo{sideInfo}, []string{dir}, h.s.user.ID, &snapstate.Flags{})
		if err == nil && len(tss) != 1 {
			err = fmt.Errorf("InstallPathMany gave %d task sets", len(tss))
		}
		return tss, err
	case "path-update":
		ts, err := snapstate.UpdatePathWithDeviceContext(st, sideInfo, dir, si.name, nil, h.s.user.ID, snapstate.Flags{}, nil, nil, "")
		return []*state.TaskSet{ts}, err
	case "try":
		ts, err := snapstate.TryPath(st, si.name, dir, snapstate.Flags{})
		return []*state.TaskSet{ts}, err
	}
	panic("unknown local-file entry point " + op.Via)
}

// refresh issues a refresh of an installed snap (Update through the store, by
// explicit revision, refresh-all, --amend; or from a local file), settles the
// change and evaluates the C12 oracle on it.
func (h *vHistory) refresh(op *vOp) (done bool) {
	st := h.s.state
	si := h.info(op.Snap)
	before := h.snapshot(op.Snap)
	R := vRefRetain(h.retainVal, h.onClassic)
	if si.kernel {
		h.setInUse(op)
	}
	var opts *snapstate.RevisionOptions
	if op.Via == "store" || op.Via == "all" {
		h.s.fakeStore.refreshRevnos[si.id] = snap.R(op.Rev)
	} else {
		// keep the store's default offer away from real revisions
		h.s.fakeStore.refreshRevnos[si.id] = snap.R(9999)
		opts = &snapstate.RevisionOptions{Revision: snap.R(op.Rev)}
	}
	mark := h.opMark()
	var tss []*state.TaskSet
	if vIsPathVia(op.Via) {
		l, err := h.requestPathRefresh(op, si)
		if err != nil {
			op.Result = "error: " + err.Error()
			h.chk.Count("refresh_request_errors", 1)
			h.chk.Count("path_refresh_request_errors", 1)
			return false
		}
		tss = l
	} else if op.Via == "all" {
		// refresh-all path (what auto-refresh and `snap refresh` use)
		h.pinOthers(op.Snap)
		names, l, err := snapstate.UpdateMany(context.Background(), st, nil, nil, h.s.user.ID, &snapstate.Flags{})
		if err != nil || len(names) != 1 || names[0] != op.Snap {
			op.Result = fmt.Sprintf("error: refresh-all gave %v, %v", names, err)
			h.chk.Count("refresh_request_errors", 1)
			return false
		}
		tss = l
	} else {
		// "amend": the current revision is a sideloaded one (no snap-id), the
		// store revision is asked for as `snap refresh --amend --revision=N` does
		ts, err := snapstate.Update(st, op.Snap, opts, h.s.user.ID, snapstate.Flags{Amend: op.Via == "amend"})
		if err != nil {
			op.Result = "error: " + err.Error()
			h.chk.Count("refresh_request_errors", 1)
			return false
		}
		tss = []*state.TaskSet{ts}
	}
	chg := h.runChange("refresh-snap", tss...)
	op.Result = chg.Status().String()
	after := h.snapshot(op.Snap)
	op.SeqAfter, op.CurAfter = after.Seq, after.Current
	if chg.Status() != state.DoneStatus {
		h.notDone()
		return false
	}
	if op.PathMode == "unasserted" {
		// snapd picked the revision (next x<N>): it is whatever became current;
		// judgeRefresh checks that it is a fresh local revision
		op.Rev = after.Current
	}
	// bookkeeping for C13's reference model: the target is current again
	delete(h.nb[op.Snap], op.Rev)
	for r := range h.nb[op.Snap] {
		if !vContains(after.Seq, r) {
			delete(h.nb[op.Snap], r)
		}
	}
	if h.prof.prop == "C12" {
		h.judgeRefresh(op, si, before, after, R, h.opsSince(mark))
	}
	return true
}

func (h *vHistory) judgeRefresh(op *vOp, si vSnapInfo, before, after vSnapshot, R int, ops fakeOps) {
	chk := h.chk
	chk.Eval()
	T := op.Rev
	kept := vContains(before.Seq, T)
	rk := vRetainKind(h.retainVal)
	if kept {
		chk.Count("refreshes_to_kept", 1)
	} else {
		chk.Count("refreshes_to_new", 1)
	}
	chk.Count("refresh_via_"+op.Via, 1)
	chk.Count("refresh_retain_"+rk, 1)
	chk.Max("max_retain_seen", R)
	chk.Max("max_sequence_before", len(before.Seq))
	if R < 2 || R > 20 {
		chk.Count("retain_outside_2_20", 1)
	}

	// what the backend was told to remove during this change
	var removed []int
	for _, o := range ops {
		if o.op != "remove-snap-files" {
			continue
		}
		n, r, ok := vRevOfPath(o.path)
		if ok && n == op.Snap {
			removed = append(removed, r)
		}
	}
	chk.Count("discards_observed", len(removed))

	inUse := map[int]bool{}
	for _, r := range op.InUse {
		inUse[r] = true
	}
	extras := 0 // kept revisions that are needed for booting (other than the new current)
	for _, r := range after.Seq {
		if inUse[r] && r != T {
			extras++
		}
	}
	if len(op.InUse) > 0 {
		chk.Count("refreshes_with_boot_in_use_answer", 1)
	}
	oldCurIdx := before.index(before.Current)
	var leftovers []int
	if oldCurIdx >= 0 {
		for _, r := range before.Seq[oldCurIdx+1:] {
			if r != T {
				leftovers = append(leftovers, r)
			}
		}
	}
	if len(leftovers) > 0 {
		chk.Count("refreshes_with_revert_leftovers", 1)
	}
	// "at or above the retain limit": the kept revisions up to the old current
	// (later ones are revert leftovers and go anyway) plus the one being added
	// exceed the setting, so the refresh has to discard for the added revision
	atLimit := !kept && len(before.Seq)-len(leftovers)+1 > R
	nLocal := 0
	for _, r := range before.Seq {
		if r < 0 {
			nLocal++
		}
	}
	if nLocal > 0 {
		chk.Count("refreshes_with_local_revisions_in_sequence", 1)
	}
	chk.Max("max_local_revisions_in_sequence", nLocal)
	if before.Current < 0 {
		chk.Count("refreshes_from_local_current_revision", 1)
	}
	if before.TryMode {
		chk.Count("refreshes_of_snap_in_try_mode", 1)
	}
	isPath := vIsPathVia(op.Via)
	if isPath {
		chk.Count("path_refreshes", 1)
		chk.Count("path_refresh_"+op.PathMode, 1)
		switch {
		case T == before.Current:
			chk.Count("path_refreshes_to_current_revision", 1)
			chk.Count("path_refreshes_to_kept", 1)
		case kept:
			chk.Count("path_refreshes_to_kept", 1)
		default:
			chk.Count("path_refreshes_to_new", 1)
			chk.Count("path_refreshes_to_new_"+op.PathMode, 1)
		}
		if atLimit {
			chk.Count("path_refreshes_to_new_at_or_above_retain", 1)
			chk.Count("path_refreshes_to_new_at_or_above_retain_"+op.PathMode, 1)
			chk.Count("path_refreshes_to_new_at_or_above_retain_via_"+op.Via, 1)
		}
		if len(leftovers) > 0 {
			chk.Count("path_refreshes_with_revert_leftovers", 1)
		}
		if len(op.InUse) > 0 {
			chk.Count("path_refreshes_with_boot_in_use_answer", 1)
		}
	} else if atLimit {
		chk.Count("store_refreshes_to_new_at_or_above_retain", 1)
	}

	w := func() map[string]interface{} {
		return h.witness(op, map[string]interface{}{
			"before": before.Seq, "before_current": before.Current, "after": after.Seq, "after_current": after.Current,
			"retain_setting": h.retainVal, "retain_reference": R, "removed": removed, "in_use": op.InUse,
			"local_revisions_are_negative": "x<N> is written as -N",
		})
	}
	inUseClass := "none"
	if len(op.InUse) > 0 {
		inUseClass = "boot"
	}

	// (1) the new current revision is kept, current, and never discarded
	if after.Current != T || !vContains(after.Seq, T) || vContains(removed, T) {
		chk.Violation("C12:current-discarded-or-not-current", w())
	}
	if op.PathMode == "unasserted" && (T >= 0 || kept) {
		// an unasserted local file always becomes a not-yet-kept local revision;
		// anything else means the revision switched to is not the one installed
		chk.Violation("C12:current-discarded-or-not-current:unasserted-target", w())
	}
	// (2) count
	if !kept {
		if len(after.Seq)-extras > R {
			chk.Violation("C12:count-exceeds-retain:new-target:retain-"+rk+":inuse-"+inUseClass, w())
		}
	} else {
		lim := R
		if len(before.Seq) > lim {
			lim = len(before.Seq)
		}
		if len(after.Seq)-extras > lim {
			chk.Violation("C12:count-exceeds-retain:kept-target:retain-"+rk+":inuse-"+inUseClass, w())
		}
	}
	// (3) revert leftovers are gone (unless needed for booting: clause 4 wins)
	for _, r := range leftovers {
		if vContains(after.Seq, r) && !inUse[r] {
			chk.Violation("C12:revert-leftover-kept", w())
			break
		}
	}
	// (4) nothing in use for booting is discarded
	for r := range inUse {
		if !vContains(before.Seq, r) {
			continue
		}
		if vContains(removed, r) || !vContains(after.Seq, r) {
			cls := "gc"
			if vContains(leftovers, r) {
				cls = "revert-leftover"
			}
			chk.Violation("C12:in-use-discarded:"+cls, w())
		}
	}
	// what disappeared from the sequence is what the backend removed (sanity of the monitor itself)
	for _, r := range before.Seq {
		if !vContains(after.Seq, r) && !vContains(removed, r) {
			chk.Count("monitor_sequence_drop_without_backend_removal", 1)
		}
	}

	// non-triviality: something had to be decided by the garbage collection
	atStake := len(removed) > 0 || len(leftovers) > 0 || len(before.Seq)+1 > R || len(op.InUse) > 0
	if atStake {
		inUsePos := []int{}
		for _, r := range op.InUse {
			inUsePos = append(inUsePos, before.index(r))
		}
		chk.Nontrivial(kit.Sig("refresh", kept, before.index(T), R, rk, len(before.Seq), oldCurIdx, len(removed), inUsePos, h.onClassic, op.Via, op.PathMode))
	}
	// the kit keeps the first four samples: two store and two local-file refreshes
	cls := "store"
	if isPath {
		cls = "path"
	}
	if h.s.vSampled == nil {
		h.s.vSampled = map[string]int{}
	}
	h.s.vSampled[cls]++
	if h.s.vSampled[cls] > 2 {
		return
	}
	chk.Sample(map[string]interface{}{"snap": op.Snap, "before": before.Seq, "before_current": before.Current, "target": T,
		"kept_target": kept, "retain_setting": h.retainVal, "retain": R, "in_use": op.InUse, "after": after.Seq, "removed": removed,
		"via": op.Via, "path_mode": op.PathMode})
}

// revert issues Revert/RevertToRevision. expectReject != "" means the statement
// demands a failure without effect.
func (h *vHistory) revert(op *vOp, expectReject string) (done bool) {
	st := h.s.state
	chk := h.chk
	c13 := h.prof.prop == "C13"
	before := h.snapshot(op.Snap)
	flags := snapstate.Flags{DevMode: op.DevMode}
	if op.NotBlocked {
		flags.RevertStatus = snapstate.NotBlocked
	}
	nChanges := len(st.Changes())
	mark := h.opMark()
	var ts *state.TaskSet
	var err error
	target := op.Rev
	if op.Kind == "revert" {
		// default target: the entry before Current
		ci := before.index(before.Current)
		if ci > 0 {
			target = before.Seq[ci-1]
		}
		ts, err = snapstate.Revert(st, op.Snap, flags, "")
	} else {
		ts, err = snapstate.RevertToRevision(st, op.Snap, snap.R(op.Rev), flags, "")
	}
	if c13 {
		chk.Eval()
	}
	if expectReject != "" {
		if c13 {
			chk.Count("reverts_rejected_"+expectReject, 1)
			chk.Nontrivial(kit.Sig("reject", expectReject, op.Kind, len(before.Seq), before.index(before.Current), op.NotBlocked))
		}
		if err == nil {
			op.Result = "ACCEPTED (must be rejected: " + expectReject + ")"
			if c13 {
				chk.Violation("C13:accepted:"+expectReject, h.witness(op, map[string]interface{}{
					"before": before.Seq, "before_current": before.Current, "active": before.Active}))
			}
			h.dead = true
			return false
		}
		op.Result = "rejected: " + err.Error()
		after := h.snapshot(op.Snap)
		if c13 && (ts != nil || after.Raw != before.Raw || len(st.Changes()) != nChanges || len(h.opsSince(mark)) != 0) {
			chk.Violation("C13:rejected-with-effect:"+expectReject, h.witness(op, map[string]interface{}{
				"before": before.Raw, "after": after.Raw, "taskset_returned": ts != nil,
				"changes_before": nChanges, "changes_after": len(st.Changes()), "backend_ops": h.opsSince(mark).Ops()}))
		}
		return false
	}
	if err != nil {
		op.Result = "error: " + err.Error()
		chk.Count("revert_unexpected_request_errors", 1)
		if c13 {
			// a legal revert (kept, not current, active snap) was refused
			chk.Violation("C13:legal-revert-refused", h.witness(op, map[string]interface{}{
				"before": before.Seq, "before_current": before.Current, "error": err.Error()}))
		}
		return false
	}
	chg := h.runChange("revert-snap", ts)
	op.Result = chg.Status().String()
	after := h.snapshot(op.Snap)
	op.SeqAfter, op.CurAfter = after.Seq, after.Current
	if chg.Status() != state.DoneStatus {
		h.notDone()
		return false
	}
	oldCur := before.Current
	// reference bookkeeping: which revisions were last reverted away from with NotBlocked
	if op.NotBlocked {
		h.nb[op.Snap][oldCur] = true
	} else {
		delete(h.nb[op.Snap], oldCur)
	}
	if !c13 {
		return true
	}
	ops := h.opsSince(mark)
	chk.Count("reverts_ok", 1)
	if op.Kind == "revert" {
		chk.Count("reverts_ok_default_target", 1)
	} else if before.index(target) > before.index(oldCur) {
		chk.Count("reverts_ok_forward_target", 1)
	}
	if op.NotBlocked {
		chk.Count("reverts_ok_not_blocked", 1)
	}
	if op.DevMode {
		chk.Count("reverts_ok_devmode", 1)
	}
	w := func(extra map[string]interface{}) map[string]interface{} {
		m := map[string]interface{}{"before": before.Seq, "before_current": before.Current, "after": after.Seq,
			"after_current": after.Current, "target": target, "block": after.Block, "backend_ops": ops.Ops()}
		for k, v := range extra {
			m[k] = v
		}
		return h.witness(op, m)
	}
	// (1) order of kept revisions unchanged
	if !vEqual(before.Seq, after.Seq) {
		chk.Violation("C13:sequence-changed", w(nil))
	}
	// (2) current is the requested / previous revision
	if after.Current != target {
		cls := "explicit"
		if op.Kind == "revert" {
			cls = "default"
		}
		chk.Violation("C13:wrong-current:"+cls, w(nil))
	}
	if !after.Active {
		chk.Violation("C13:inactive-after-revert", w(nil))
	}
	// (3) no data copied
	nCopy := 0
	for _, o := range ops {
		if strings.HasPrefix(o.op, "copy-data") {
			nCopy++
		}
	}
	chk.Count("backend_ops_in_revert_changes", len(ops))
	if nCopy > 0 {
		chk.Violation("C13:copy-data-in-revert", w(nil))
	}
	// (4) blocking
	h.judgeBlock(op, after, oldCur, w)
	chk.Nontrivial(kit.Sig("revert", op.Kind, len(before.Seq), before.index(oldCur), before.index(target), op.NotBlocked, op.DevMode, len(after.Block)))
	chk.Sample(map[string]interface{}{"snap": op.Snap, "kind": op.Kind, "before": before.Seq, "before_current": oldCur,
		"target": target, "not_blocked": op.NotBlocked, "after": after.Seq, "after_current": after.Current, "block": after.Block})
	return true
}

func (h *vHistory) judgeBlock(op *vOp, after vSnapshot, oldCur int, w func(map[string]interface{}) map[string]interface{}) {
	chk := h.chk
	chk.Count("block_checks", 1)
	ci := after.index(after.Current)
	var later []int
	if ci >= 0 {
		later = after.Seq[ci+1:]
	}
	// revisions that must be excluded: every later revision, except those whose
	// own last revert-away was requested as not blocking (for them nothing is
	// claimed unless it is the revision reverted from right now)
	var must, exempt []int
	for _, r := range later {
		if h.nb[op.Snap][r] {
			exempt = append(exempt, r)
		} else {
			must = append(must, r)
		}
	}
	if len(exempt) > 0 && !(len(exempt) == 1 && exempt[0] == oldCur && op.NotBlocked) {
		chk.Count("block_checks_with_earlier_notblocked_revisions_exempt", 1)
	}
	for _, r := range must {
		if !vContains(after.Block, r) {
			cls := "later-revision"
			if r == oldCur {
				cls = "reverted-from"
			}
			chk.Violation("C13:not-blocked-after-default-revert:"+cls, w(map[string]interface{}{"must_block": must, "exempt": exempt}))
			break
		}
	}
	// relative order of the must-block revisions inside Block()
	pos := -1
	for _, r := range must {
		p := -1
		for i, b := range after.Block {
			if b == r {
				p = i
			}
		}
		if p >= 0 {
			if p < pos {
				chk.Count("block_order_differs_from_sequence", 1)
			}
			pos = p
		}
	}
	if op.NotBlocked {
		chk.Count("block_checks_not_blocked", 1)
		if vContains(after.Block, oldCur) {
			chk.Violation("C13:still-blocked-after-notblocked-revert", w(nil))
		}
	} else {
		chk.Count("block_checks_default", 1)
	}
	// entries of Block() that are not later revisions: outside the statement, only counted
	for _, b := range after.Block {
		if !vContains(later, b) {
			chk.Count("block_entries_not_after_current", 1)
		}
	}
	if len(must) > 0 {
		chk.Count("block_checks_with_revisions_to_block", 1)
	}
}

// probe asks the real refresh-all path (UpdateMany without names: what
// auto-refresh and a plain `snap refresh` use; a refresh of one named snap
// deliberately ignores the block list) whether a revision is a refresh
// candidate: the fake store offers exactly `rev` for the snap and honours the
// block list snapd sends along.
func (h *vHistory) probe(op *vOp, expectBlocked bool) {
	st := h.s.state
	chk := h.chk
	si := h.info(op.Snap)
	before := h.snapshot(op.Snap)
	if before.DevMode {
		// refresh-all never considers devmode snaps at all: nothing to learn
		op.Result = "skipped: snap is in devmode"
		chk.Count("probes_skipped_devmode_snap", 1)
		return
	}
	h.pinOthers(op.Snap)
	h.s.fakeStore.refreshRevnos[si.id] = snap.R(op.Rev)
	mark := h.opMark()
	names, tss, err := snapstate.UpdateMany(context.Background(), st, nil, nil, h.s.user.ID, &snapstate.Flags{})
	ops := h.opsSince(mark)
	chk.Eval()
	// what snapd told the store
	var sent []int
	sawReq := false
	for _, o := range ops {
		if o.op != "storesvc-snap-action" {
			continue
		}
		for _, cs := range o.curSnaps {
			if cs.InstanceName == op.Snap {
				sawReq = true
				for _, r := range cs.Block {
					sent = append(sent, r.N)
				}
			}
		}
	}
	if sawReq {
		chk.Count("store_requests_observed", 1)
	}
	candidate := false
	for _, n := range names {
		if n == op.Snap {
			candidate = true
		}
	}
	w := func() map[string]interface{} {
		return h.witness(op, map[string]interface{}{"seq": before.Seq, "current": before.Current, "block": before.Block,
			"block_sent_to_store": sent, "offered": op.Rev, "updated": names, "error": fmt.Sprint(err)})
	}
	if expectBlocked {
		chk.Count("probes_blocked_revision_offered", 1)
		chk.Nontrivial(kit.Sig("probe-blocked", len(before.Seq), before.index(before.Current), before.index(op.Rev)))
		if candidate {
			op.Result = "CANDIDATE (offered revision must not be a refresh candidate)"
			chk.Violation("C13:blocked-revision-is-refresh-candidate", w())
			h.dead = true
			return
		}
		op.Result = fmt.Sprintf("no-update (%v)", err)
		// secondary observation (the verdict is "not a candidate" above: the fake
		// store would have offered the revision had it not been on the list)
		if sawReq && vContains(sent, op.Rev) {
			chk.Count("probes_blocked_revision_on_list_sent_to_store", 1)
		} else {
			chk.Count("probes_blocked_revision_not_on_list_sent_to_store", 1)
		}
		if after := h.snapshot(op.Snap); after.Raw != before.Raw {
			chk.Count("probe_changed_state", 1)
		}
		return
	}
	chk.Count("probes_notblocked_revision_offered", 1)
	chk.Nontrivial(kit.Sig("probe-unblocked", len(before.Seq), before.index(before.Current), before.index(op.Rev)))
	if err != nil || !candidate {
		op.Result = fmt.Sprintf("no-update (%v)", err)
		chk.Violation("C13:notblocked-revision-still-excluded", w())
		return
	}
	chg := h.runChange("refresh-snap", tss...)
	op.Result = chg.Status().String()
	after := h.snapshot(op.Snap)
	op.SeqAfter, op.CurAfter = after.Seq, after.Current
	if chg.Status() != state.DoneStatus {
		h.notDone()
		return
	}
	chk.Count("probes_notblocked_refresh_done", 1)
	if after.Current != op.Rev {
		chk.Violation("C13:notblocked-revision-still-excluded", w())
	}
	delete(h.nb[op.Snap], op.Rev)
	for r := range h.nb[op.Snap] {
		if !vContains(after.Seq, r) {
			delete(h.nb[op.Snap], r)
		}
	}
}

func (h *vHistory) toggle(op *vOp) {
	st := h.s.state
	var ts *state.TaskSet
	var err error
	if op.Kind == "disable" {
		ts, err = snapstate.Disable(st, op.Snap)
	} else {
		ts, err = snapstate.Enable(st, op.Snap)
	}
	if err != nil {
		op.Result = "error: " + err.Error()
		h.chk.Count("toggle_errors", 1)
		return
	}
	chg := h.runChange(op.Kind+"-snap", ts)
	op.Result = chg.Status().String()
	h.chk.Count(op.Kind+"s", 1)
	if chg.Status() != state.DoneStatus {
		h.notDone()
	}
}

// ---------------------------------------------------------------------------
// generator (adaptive: the next operation is drawn from the PRNG given the
// snapshot of the real state, so a history is a pure function of seed/index)

type vRand interface {
	Intn(n int) int
}

func vGenRetain(rnd vRand) interface{} {
	var n int
	switch p := rnd.Intn(100); {
	case p < 15:
		return nil
	case p < 70:
		n = 2 + rnd.Intn(4) // 2..5
	case p < 85:
		n = 6 + rnd.Intn(6) // 6..11
	default:
		n = 12 + rnd.Intn(9) // 12..20
	}
	if rnd.Intn(3) == 0 {
		return strconv.Itoa(n)
	}
	return n
}

func (h *vHistory) newRev(rnd vRand, seq []int) int {
	for {
		r := 1 + rnd.Intn(h.cont)
		if !vContains(seq, r) && r != 11 {
			return r
		}
	}
}

func (h *vHistory) do(op *vOp, f func()) {
	h.ops = append(h.ops, op)
	f()
	// drop finished changes (count-based, as the overlord's pruning does when
	// there are too many): every state checkpoint serialises all of them, which
	// makes long histories quadratic
	const never = 100 * 365 * 24 * time.Hour
	h.s.state.Prune(time.Now(), never, never, 0)
}

func (h *vHistory) genInUse(rnd vRand, snp vSnapshot) []int {
	// snap_kernel is always set on a booted system; which kept revision it
	// names (and whether a try kernel is pending) is the "boot answer"
	pick := func() int {
		switch p := rnd.Intn(10); {
		case p < 5:
			return snp.Current
		case p < 9:
			return snp.Seq[rnd.Intn(len(snp.Seq))]
		}
		return 7000 + rnd.Intn(10) // a revision that is not kept at all
	}
	out := []int{pick()}
	if rnd.Intn(3) == 0 {
		out = append(out, pick())
	}
	return out
}

func (h *vHistory) step(rnd vRand, forceGrow bool) {
	p := h.prof
	si := h.snaps[rnd.Intn(len(h.snaps))]
	snp := h.snapshot(si.name)
	if !snp.Present {
		op := &vOp{Kind: "install", Snap: si.name, Rev: h.newRev(rnd, nil)}
		h.do(op, func() { h.install(op) })
		return
	}
	if !snp.Active {
		// disabled: reverts must be refused; then (mostly) enable again
		if rnd.Intn(3) > 0 && len(snp.Seq) > 1 {
			var cands []int
			for _, r := range snp.Seq {
				if r != snp.Current {
					cands = append(cands, r)
				}
			}
			op := &vOp{Kind: "revert-to", Snap: si.name, Rev: cands[rnd.Intn(len(cands))], NotBlocked: rnd.Intn(3) == 0}
			if snp.index(snp.Current) > 0 && rnd.Intn(2) == 0 {
				op.Kind, op.Rev = "revert", 0
			}
			h.do(op, func() { h.revert(op, "inactive") })
			if h.dead {
				return
			}
		}
		op := &vOp{Kind: "enable", Snap: si.name}
		h.do(op, func() { h.toggle(op) })
		return
	}
	ci := snp.index(snp.Current)
	// the local-file classes come last so that a profile without them (C13)
	// draws exactly the histories it drew before they existed
	oldTotal := p.wRefreshNew + p.wRefreshKept + p.wRevert + p.wRevertTo + p.wBadRevert + p.wRetain + p.wToggle + p.wProbe
	total := oldTotal + p.wPathNew + p.wPathKept
	x := rnd.Intn(total)
	if forceGrow {
		x = 0
		if p.wPathNew > 0 && rnd.Intn(3) == 0 {
			x = oldTotal // grow with a local file
		}
	}
	if x < p.wRefreshNew && snp.TryMode && p.wPathNew > 0 {
		// a snap in try mode is invisible to the store side (no candidate, no
		// --amend): its next new revision can only be another local file
		x = oldTotal
	}
	switch {
	case x >= oldTotal && x < oldTotal+p.wPathNew:
		// refresh from a local file to a revision that is not kept yet
		op := &vOp{Kind: "refresh", Snap: si.name, Via: "path", PathMode: "asserted"}
		if !si.kernel && rnd.Intn(2) == 0 {
			// (the model's signed kernel cannot be replaced by an unasserted one)
			op.PathMode = "unasserted"
		}
		switch v := rnd.Intn(20); {
		case v < 7:
		case v < 11:
			op.Via = "path-many"
		case v < 15:
			op.Via = "path-update"
		default:
			if op.PathMode == "unasserted" {
				op.Via = "try"
			}
		}
		if op.PathMode == "asserted" {
			op.Rev = h.newRev(rnd, snp.Seq)
		}
		if si.kernel {
			op.InUse = h.genInUse(rnd, snp)
		}
		h.do(op, func() { h.refresh(op) })
		return
	case x >= oldTotal+p.wPathNew:
		// "refresh" from a local file whose (asserted) revision is already kept;
		// now and then it is the current revision itself (reinstall)
		var cands []int
		for _, r := range snp.Seq {
			if r > 0 && r != snp.Current {
				cands = append(cands, r)
			}
		}
		op := &vOp{Kind: "refresh", Snap: si.name, Via: "path", PathMode: "asserted"}
		if snp.Current > 0 && (len(cands) == 0 || rnd.Intn(5) == 0) {
			op.Rev = snp.Current
		} else if len(cands) > 0 {
			op.Rev = cands[rnd.Intn(len(cands))]
			switch rnd.Intn(3) {
			case 0:
				op.Via = "path-many"
			case 1:
				op.Via = "path-update"
			}
		} else {
			return
		}
		if si.kernel {
			op.InUse = h.genInUse(rnd, snp)
		}
		h.do(op, func() { h.refresh(op) })
		return
	case x < p.wRefreshNew:
		op := &vOp{Kind: "refresh", Snap: si.name, Rev: h.newRev(rnd, snp.Seq), Via: "store"}
		switch rnd.Intn(4) {
		case 0:
			op.Via = "revision"
		case 1:
			op.Via = "all"
		}
		if snp.Current < 0 {
			// sideloaded current revision (no snap-id): the store only answers
			// for it when asked to amend
			op.Via = "amend"
		}
		if si.kernel {
			op.InUse = h.genInUse(rnd, snp)
		}
		h.do(op, func() { h.refresh(op) })
		return
	case x < p.wRefreshNew+p.wRefreshKept:
		if len(snp.Seq) < 2 {
			return
		}
		var cands []int
		for _, r := range snp.Seq {
			if r != snp.Current && !(snp.TryMode && p.wPathNew > 0) {
				cands = append(cands, r)
			}
		}
		if len(cands) == 0 {
			return // try mode: Update does not consider the snap at all
		}
		op := &vOp{Kind: "refresh", Snap: si.name, Rev: cands[rnd.Intn(len(cands))], Via: "revision"}
		if si.kernel {
			op.InUse = h.genInUse(rnd, snp)
		}
		h.do(op, func() { h.refresh(op) })
		return
	case x < p.wRefreshNew+p.wRefreshKept+p.wRevert:
		op := &vOp{Kind: "revert", Snap: si.name, NotBlocked: rnd.Intn(3) == 0, DevMode: p.prop == "C13" && rnd.Intn(12) == 0}
		reject := ""
		if ci <= 0 {
			reject = "no-previous"
		}
		h.do(op, func() {
			if h.revert(op, reject) {
				h.followUp(rnd, op, snp.Current)
			}
		})
		return
	case x < p.wRefreshNew+p.wRefreshKept+p.wRevert+p.wRevertTo:
		if len(snp.Seq) < 2 {
			return
		}
		var cands []int
		for _, r := range snp.Seq {
			if r != snp.Current {
				cands = append(cands, r)
			}
		}
		op := &vOp{Kind: "revert-to", Snap: si.name, Rev: cands[rnd.Intn(len(cands))], NotBlocked: rnd.Intn(3) == 0,
			DevMode: p.prop == "C13" && rnd.Intn(12) == 0}
		h.do(op, func() {
			if h.revert(op, "") {
				h.followUp(rnd, op, snp.Current)
			}
		})
		return
	case x < p.wRefreshNew+p.wRefreshKept+p.wRevert+p.wRevertTo+p.wBadRevert:
		op := &vOp{Kind: "revert-to", Snap: si.name, NotBlocked: rnd.Intn(3) == 0}
		reject := "is-current"
		op.Rev = snp.Current
		if rnd.Intn(2) == 0 {
			reject = "not-kept"
			op.Rev = h.newRev(rnd, snp.Seq)
		}
		h.do(op, func() { h.revert(op, reject) })
		return
	case x < p.wRefreshNew+p.wRefreshKept+p.wRevert+p.wRevertTo+p.wBadRevert+p.wRetain:
		op := &vOp{Kind: "retain", Retain: vGenRetain(rnd)}
		h.do(op, func() { h.setRetain(op) })
		return
	case x < p.wRefreshNew+p.wRefreshKept+p.wRevert+p.wRevertTo+p.wBadRevert+p.wRetain+p.wToggle:
		if si.kernel {
			return // the model's kernel cannot be disabled
		}
		op := &vOp{Kind: "disable", Snap: si.name}
		h.do(op, func() { h.toggle(op) })
		return
	default:
		// probe: offer a revision that must be excluded
		var must []int
		if ci >= 0 {
			for _, r := range snp.Seq[ci+1:] {
				if !h.nb[si.name][r] {
					must = append(must, r)
				}
			}
		}
		if len(must) == 0 || p.prop != "C13" {
			return
		}
		op := &vOp{Kind: "probe-blocked", Snap: si.name, Rev: must[rnd.Intn(len(must))]}
		h.do(op, func() { h.probe(op, true) })
	}
}

// followUp (C13 only): right after a successful revert ask the refresh path
// about the reverted-from revision.
func (h *vHistory) followUp(rnd vRand, rop *vOp, oldCur int) {
	if h.prof.prop != "C13" || h.dead || rnd.Intn(3) != 0 {
		return
	}
	snp := h.snapshot(rop.Snap)
	if snp.index(oldCur) <= snp.index(snp.Current) {
		return // forward revert: the reverted-from revision is not a later one
	}
	if rop.NotBlocked {
		op := &vOp{Kind: "probe-notblocked", Snap: rop.Snap, Rev: oldCur}
		h.do(op, func() { h.probe(op, false) })
	} else {
		op := &vOp{Kind: "probe-blocked", Snap: rop.Snap, Rev: oldCur}
		h.do(op, func() { h.probe(op, true) })
	}
}

// ---------------------------------------------------------------------------

func (s *verifC1213Suite) runHistories(c *C, chk *kit.Check, prof *vProfile, n int) {
	only := kit.OnlyCase()
	for idx := 0; idx < n; idx++ {
		if only >= 0 && idx != only {
			continue
		}
		if s.vAbort {
			break
		}
		// fresh world per history (same trick as the package's TestSeqRetainConf)
		s.TearDownTest(c)
		s.SetUpTest(c)
		rnd := kit.CaseRand(prof.prop+"-history", idx)
		h := &vHistory{s: s, c: c, chk: chk, prof: prof, idx: idx, nb: map[string]map[int]bool{}, cont: 40}
		h.onClassic = rnd.Intn(2) == 0
		withKernel := prof.kernelEvery > 0 && idx%prof.kernelEvery == prof.kernelEvery-1
		if withKernel {
			h.onClassic = false
		}
		s.AddCleanup(release.MockOnClassic(h.onClassic))
		s.fakeStore.refreshRevnos = map[string]snap.Revision{}
		h.snaps = []vSnapInfo{vSnaps[0]}
		if rnd.Intn(3) == 0 {
			h.snaps = append(h.snaps, vSnaps[1])
		}
		for _, si := range vSnaps {
			h.nb[si.name] = map[int]bool{}
		}
		s.state.Lock()
		if withKernel {
			// the model's kernel snap, boot participant on this (UC16) model
			// (fakeSnappyBackend.infos hands out one shared *snap.Info whose
			// SideInfo is overwritten by every call, so it is not used here)
			s.AddCleanup(snapstate.MockSnapReadInfo(func(name string, si *snap.SideInfo) (*snap.Info, error) {
				info, err := s.fakeBackend.ReadInfo(name, si)
				if err == nil && name == "kernel" {
					info.SnapType = snap.TypeKernel
				}
				return info, err
			}))
			r0 := 1 + rnd.Intn(40)
			if r0 == 11 {
				r0 = 12
			}
			snapstate.Set(s.state, "kernel", &snapstate.SnapState{
				Active: true,
				Sequence: snapstatetest.NewSequenceFromSnapSideInfos([]*snap.SideInfo{
					{RealName: "kernel", SnapID: "kernel-id", Revision: snap.R(r0)}}),
				Current:  snap.R(r0),
				SnapType: "kernel",
			})
			c.Assert(s.bl.SetBootVars(map[string]string{"snap_kernel": fmt.Sprintf("kernel_%d.snap", r0)}), IsNil)
			// the kernel is the main subject of such a history
			h.snaps = []vSnapInfo{vSnaps[2], vSnaps[2], vSnaps[0]}
			chk.Count("histories_with_boot_participant", 1)
		}
		if h.onClassic {
			chk.Count("histories_on_classic", 1)
		} else {
			chk.Count("histories_on_core", 1)
		}
		nops := 12 + rnd.Intn(14)
		grow := 0
		if prof.prop == "C12" && rnd.Intn(4) == 0 {
			// long sequences: a high retain, many refreshes, then a lowered retain
			hi := 12 + rnd.Intn(9)
			var v interface{} = hi
			if rnd.Intn(3) == 0 {
				v = strconv.Itoa(hi)
			}
			op := &vOp{Kind: "retain", Retain: v}
			h.do(op, func() { h.setRetain(op) })
			grow = hi - 4 + rnd.Intn(8)
			nops += grow
		}
		for i := 0; i < nops && !h.dead; i++ {
			h.step(rnd, i < grow)
		}
		s.state.Unlock()
		chk.Count("histories", 1)
		chk.Count("operations", len(h.ops))
		chk.Max("max_history_ops", len(h.ops))
	}
}

func vAssumptions(chk *kit.Check) {
	chk.Assume("the system side is overlord/snapstate's own fakeSnappyBackend/fakeStore/mock bootloader (no real mounts); everything above it (Install/Update/Revert*, task graphs, handlers, SnapState) is the real code")
	chk.Assume("one change at a time, every change is settled before the next request; no faults are injected (failed changes are C10's subject)")
	chk.Assume("refresh.retain is written directly with a config transaction (values 2..20 as numbers or legacy numeric strings, or unset); configcore's validation of the accepted range is not part of this harness")
}

func (s *verifC1213Suite) TestVerifC12(c *C) {
	defer vCleanupScratch()
	chk := kit.New("C12", "exploration")
	defer chk.Done(c)
	chk.Rule("cases are settled refreshes inside generated histories (install, refresh to a new revision via the store or by revision, refresh to a kept revision, revert/revert-to leaving later revisions, refresh.retain rewritten between refreshes as unset / int 2..20 / legacy string, on classic and on core defaults; every 4th history drives the model's kernel snap with a generated boot in-use answer in the mock bootloader), mixed with refreshes of the installed snap from a local file (an unpacked snap directory) through InstallPath / InstallPathMany / UpdatePathWithDeviceContext / TryPath: asserted side info with a not-yet-kept revision, with an already kept revision (now and then the current one), or name-only side info (snapd assigns the next x<N> local revision); after a sideload the store refreshes of that snap go through Update --amend. A refresh is non-trivial when the garbage collection had something to decide (sequence at the limit, revert leftovers, boot answer, or discards observed); distinct = distinct (target kept?, target index, retain, retain kind, sequence length, current index, #discards, in-use positions, classic?, via, path mode)")
	vAssumptions(chk)
	chk.Assume("boot in-use answers are produced by programming snap_kernel / snap_try_kernel of the mock bootloader before a kernel refresh; they may name any kept revision (current, older, a revert leftover) or a revision that is not kept")
	chk.Assume("the local file of a path refresh is an unpacked snap directory (no mksquashfs here; meta/snap.yaml with the name, epoch 1* and, for the kernel, type: kernel); it is opened by the real backend.OpenSnapFile, mounted by the fake backend. The model's signed kernel is only sideloaded with asserted side info (snapd refuses an unasserted replacement)")
	prof := &vProfile{prop: "C12", wRefreshNew: 42, wRefreshKept: 14, wRevert: 10, wRevertTo: 10, wBadRevert: 0, wRetain: 20, wToggle: 0, wProbe: 0, kernelEvery: 4,
		wPathNew: 24, wPathKept: 6}
	s.runHistories(c, chk, prof, kit.Scale(14, 60))
	if kit.OnlyCase() >= 0 {
		chk.MinDistinct(0) // replay of one history: floors do not apply
		return
	}
	chk.Floor("refreshes_to_new", 60)
	chk.Floor("refreshes_to_kept", 10)
	chk.Floor("discards_observed", 30)
	chk.Floor("refreshes_with_revert_leftovers", 5)
	chk.Floor("refresh_retain_int", 10)
	chk.Floor("refresh_retain_string", 5)
	chk.Floor("refresh_retain_unset", 3)
	chk.Floor("refreshes_with_boot_in_use_answer", 5)
	// local-file refreshes (per shard)
	chk.Floor("path_refreshes_to_new", 20)
	chk.Floor("path_refreshes_to_new_at_or_above_retain", 8)
	chk.Floor("path_refreshes_to_new_at_or_above_retain_asserted", 3)
	chk.Floor("path_refreshes_to_new_at_or_above_retain_unasserted", 2)
	chk.Floor("path_refreshes_to_kept", 2)
	chk.Floor("path_refreshes_with_revert_leftovers", 1)
	chk.Floor("refresh_via_try", 1)
	chk.Floor("refreshes_with_local_revisions_in_sequence", 15)
	chk.MinDistinct(25)
	s.noFailedChanges(chk)
}

func (s *verifC1213Suite) TestVerifC13(c *C) {
	defer vCleanupScratch()
	chk := kit.New("C13", "exploration")
	defer chk.Done(c)
	chk.Rule("cases are revert requests (Revert and RevertToRevision to earlier and later kept revisions, default / NotBlocked / devmode flags, and requests the statement says must fail: revision not kept, already current, no previous revision, snap disabled) inside generated histories of installs, refreshes to new and kept revisions, earlier reverts, disable/enable and retain changes, plus refresh-candidate probes through the real Update path (the fake store offers a blocked resp. not-blocked revision and honours the block list snapd sends). Every request is a case; distinct = distinct (kind, sequence length, current index, target index, flags, |Block()|) resp. (reject reason, kind, length, index)")
	vAssumptions(chk)
	chk.Assume("a revision whose own last revert-away was requested NotBlocked and that has not been refreshed to since is exempt from the must-be-blocked claim of later default reverts (the statement's 'unless the revert was requested as not blocking them' is read per reverted-from revision); entries of Block() that are not later revisions are counted, not judged")
	prof := &vProfile{prop: "C13", wRefreshNew: 24, wRefreshKept: 8, wRevert: 20, wRevertTo: 20, wBadRevert: 10, wRetain: 5, wToggle: 7, wProbe: 9, kernelEvery: 0}
	s.runHistories(c, chk, prof, kit.Scale(30, 120))
	if kit.OnlyCase() >= 0 {
		chk.MinDistinct(0) // replay of one history: floors do not apply
		return
	}
	chk.Floor("reverts_ok", 30)
	chk.Floor("reverts_ok_not_blocked", 8)
	chk.Floor("reverts_rejected_not-kept", 2)
	chk.Floor("reverts_rejected_is-current", 2)
	chk.Floor("reverts_rejected_inactive", 2)
	chk.Floor("block_checks_with_revisions_to_block", 15)
	chk.Floor("probes_blocked_revision_offered", 4)
	chk.Floor("probes_notblocked_revision_offered", 1)
	chk.MinDistinct(25)
	s.noFailedChanges(chk)
}

func (h *vHistory) notDone() {
	h.s.vNotDone++
	h.chk.Count("changes_not_done", 1)
}

// noFailedChanges: no fault is injected, so a change that does not end Done
// means the monitors did not see what they are meant to judge.
func (s *verifC1213Suite) noFailedChanges(chk *kit.Check) {
	chk.Count("changes_not_done", 0)
	if s.vNotDone > 0 {
		chk.Inconclusive(fmt.Sprintf("%d changes did not end Done although no fault was injected", s.vNotDone))
	}
}

var _ = sort.Ints
var _ = dirs.SnapMountDir
