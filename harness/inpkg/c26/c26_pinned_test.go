package daemon

// Snapshot of the declared access table at the pinned commit (information
// only: a changed declaration is not a violation of C26 as worded).
const c26PinnedDigest = ""

var c26PinnedTable = []string{}
