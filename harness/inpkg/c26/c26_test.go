// C26 — REST API requests are served only to callers the endpoint's access
// level allows.
//
// The real `api` table is walked exhaustively: every Command and every
// ResponseFunc field (GET/PUT/POST/...) with a handler gets a copy of the
// Command that keeps the declared ReadAccess/WriteAccess checkers and the real
// Command.ServeHTTP, but whose handlers are spies. Each (endpoint, method) is
// then hit by a matrix of callers; the spy tells whether the request reached
// the handler, c26_ref_test.go tells whether the caller satisfies the declared
// level.
package daemon

import (
	"crypto/sha256"
	"encoding/hex"
	"errors"
	"fmt"
	"net/http"
	"net/url"
	"os"
	"path/filepath"
	"reflect"
	"regexp"
	"runtime/debug"
	"sort"
	"strings"
	"sync"
	"testing"

	kit "verifkit"

	"github.com/snapcore/snapd/client"
	"github.com/snapcore/snapd/dirs"
	"github.com/snapcore/snapd/logger"
	"github.com/snapcore/snapd/overlord"
	"github.com/snapcore/snapd/overlord/auth"
	"github.com/snapcore/snapd/overlord/state"
	"github.com/snapcore/snapd/polkit"
)

const (
	c26CallerSnap = "caller-snap"
	c26OtherSnap  = "other-snap"
	c26PidSnap    = 4242 // belongs to caller-snap
	c26PidOther   = 4343 // belongs to other-snap
	c26PidPlain   = 100  // not a snap process
)

type c26EP struct {
	Idx    int     `json:"index"`
	Path   string  `json:"path"`
	Method string  `json:"method"`
	Decl   c26Decl `json:"declared"`
	cmd    *Command
	url    *url.URL
}

type c26Ran struct {
	ep   *c26EP
	cmd  *Command
	addr string
	user *auth.UserState
}

type c26PK struct {
	pid    int32
	uid    uint32
	action string
	flags  polkit.CheckFlags
}

type c26Caller struct {
	AddrKind string    `json:"addr_kind"`
	Addr     string    `json:"remote_addr"`
	UserKind string    `json:"user"`
	Polkit   string    `json:"polkit"`
	Interact string    `json:"allow_interaction,omitempty"`
	Degraded bool      `json:"degraded,omitempty"`
	ConnKind string    `json:"conns"`
	Conns    []c26Conn `json:"conn_table,omitempty"`
	authHdr  string
	truth    c26Truth
}

type c26RW struct {
	code int
	hdr  http.Header
	n    int
}

func (w *c26RW) Header() http.Header {
	if w.hdr == nil {
		w.hdr = http.Header{}
	}
	return w.hdr
}
func (w *c26RW) Write(b []byte) (int, error) {
	if w.code == 0 {
		w.code = 200
	}
	w.n += len(b)
	return len(b), nil
}
func (w *c26RW) WriteHeader(code int) {
	if w.code == 0 {
		w.code = code
	}
}

// what a spy answers: a plain (non-structured) response
type c26Resp struct{}

func (c26Resp) ServeHTTP(w http.ResponseWriter, r *http.Request) { w.WriteHeader(200) }

type c26H struct {
	t   *testing.T
	c   *kit.Check
	d   *Daemon
	st  *state.State
	eps []*c26EP
	// commands × methods without a handler: (copy, method)
	noHandler []c26EP
	ncmds     int
	universe  []string // all interfaces named anywhere in the table + a few others
	listedAll []string

	mu          sync.Mutex
	cur         *c26Caller
	ran         []c26Ran
	polkitCalls []c26PK

	validHdr  string
	validUser *auth.UserState
	invalid   [][2]string // (kind, header)

	caseIdx  int
	only     int
	restores []func()
	samples  int
	curConns string
}

func TestVerifC26(t *testing.T) {
	c := kit.New("C26", "exploration")
	defer c.Done(t)
	c.Rule("Exhaustive walk over the real `api` table: every Command x every ResponseFunc field with a handler. " +
		"Each (endpoint, method) is hit by (a) an enumerated caller matrix: RemoteAddr forms (well-formed on snapd.socket / snapd-snap.socket x uid x pid, " +
		"other socket paths, ~45 malformed encodings incl. empty, garbage, pid=0, uid=4294967295, extra/duplicated/reordered fields, overflow, signs, unicode digits, injected iface=) " +
		"x Authorization (none, macaroon of a state user, invalid variants) x polkit answer (yes, no, dismissed, error, yes+error) " +
		"x connection table of the calling snap (absent, empty, active/undesired/hotplug-gone/slot-side/other-snap's/prefix-named for every interface named in the table, mixes); " +
		"(b) seeded random callers (random fields, 1-3 random mutations of the encoding, random connection tables, random headers, degraded mode). " +
		"Every request has a reference decision that depends on the caller, so every request is non-trivial; matrix requests are distinct by construction (duplicates removed, shards take disjoint caller slices), " +
		"random requests are counted by structural class (endpoint, method, credential class, socket, root?, user kind, polkit answer, connection relation, expected decision).")
	c.Assume("The declared access table itself (which level an endpoint has) is taken as given; its digest is printed as information.")
	c.Assume("GET is governed by ReadAccess, every other method by WriteAccess (the meaning of the two declaration fields).")
	c.Assume("Socket paths contain no ';' (snapd listens on dirs.SnapdSocket and dirs.SnapSocket only).")

	// many small short-lived allocations (one request each): collect less often
	defer debug.SetGCPercent(debug.SetGCPercent(800))

	h := &c26H{t: t, c: c, only: kit.OnlyCase()}
	defer h.close()
	if h.only >= 0 {
		c.MinDistinct(0)
	}
	if !h.setup() {
		return
	}
	h.tableInfo()
	h.matrix()
	h.random()
	h.foreignMethods()
	h.roundTrip()
	h.endToEnd()

	if h.only < 0 {
		c.Floor("requests", 10000)
		c.Floor("served", 1000)
		c.Floor("denied", 1000)
		c.Floor("denied_no_credentials", 1000)
		c.Floor("polkit_consulted", 100)
		c.Floor("served_snap_socket_via_interface", 10)
		c.Floor("roundtrip_cases", 1000)
		c.Floor("e2e_requests", 100)
		kinds := map[string]bool{}
		for _, ep := range h.eps {
			kinds[ep.Decl.Kind] = true
		}
		for k := range kinds {
			c.Floor("allowed_"+k, 10)
			c.Floor("denied_"+k, 10)
		}
	}
	c.Exhaustive()
}

func (h *c26H) close() {
	for i := len(h.restores) - 1; i >= 0; i-- {
		h.restores[i]()
	}
}

// ---- setup ---------------------------------------------------------------------

func c26Declared(ac accessChecker) c26Decl {
	if ac == nil {
		return c26Decl{Kind: "none"}
	}
	v := reflect.ValueOf(ac)
	for v.Kind() == reflect.Ptr {
		if v.IsNil() {
			return c26Decl{Kind: "none"}
		}
		v = v.Elem()
	}
	names := map[string]string{
		"openAccess": "open", "authenticatedAccess": "authenticated", "rootAccess": "root", "snapAccess": "snap",
		"interfaceOpenAccess": "interface-open", "interfaceAuthenticatedAccess": "interface-authenticated",
	}
	kind, ok := names[v.Type().Name()]
	if !ok {
		return c26Decl{Kind: "unknown:" + v.Type().String()}
	}
	d := c26Decl{Kind: kind}
	if v.Kind() == reflect.Struct {
		if f := v.FieldByName("Polkit"); f.IsValid() && f.Kind() == reflect.String {
			d.Polkit = f.String()
		}
		if f := v.FieldByName("Interfaces"); f.IsValid() && f.Kind() == reflect.Slice {
			for i := 0; i < f.Len(); i++ {
				d.Interfaces = append(d.Interfaces, f.Index(i).String())
			}
		}
	}
	return d
}

var c26VarRx = regexp.MustCompile(`\{[^}]*\}`)

func (h *c26H) setup() bool {
	c := h.c
	root := filepath.Join(os.TempDir(), "c26root")
	os.RemoveAll(root)
	err := os.MkdirAll(root, 0755)
	if err != nil {
		c.Inconclusive("cannot create scratch root: " + err.Error())
		return false
	}
	dirs.SetRootDir(root)
	h.restores = append(h.restores, func() { dirs.SetRootDir(""); os.RemoveAll(root) })
	_, restoreLog := logger.MockLogger()
	h.restores = append(h.restores, restoreLog)

	o := overlord.Mock()
	h.d = &Daemon{overlord: o, state: o.State()}
	h.st = o.State()

	// copies of the real table with spies as handlers, registered by the real addRoutes
	rfType := reflect.TypeOf(ResponseFunc(nil))
	orig := api
	copies := make([]*Command, 0, len(orig))
	ifaceSet := map[string]bool{}
	for i, oc := range orig {
		cp := *oc
		cmd := &cp
		path := cmd.Path
		if cmd.PathPrefix != "" {
			path = cmd.PathPrefix + "*"
		}
		concrete := c26VarRx.ReplaceAllString(strings.TrimSuffix(path, "*"), "x")
		if cmd.PathPrefix != "" {
			concrete += "x"
		}
		if concrete == "" {
			concrete = "/"
		}
		v := reflect.ValueOf(cmd).Elem()
		for f := 0; f < v.NumField(); f++ {
			fld := v.Type().Field(f)
			if fld.Type != rfType {
				continue
			}
			method := fld.Name
			var ac accessChecker
			if method == "GET" {
				ac = cmd.ReadAccess
			} else {
				ac = cmd.WriteAccess
			}
			ep := &c26EP{Idx: i, Path: path, Method: method, Decl: c26Declared(ac), cmd: cmd, url: &url.URL{Path: concrete}}
			if v.Field(f).IsNil() {
				h.noHandler = append(h.noHandler, *ep)
				continue
			}
			for _, n := range ep.Decl.Interfaces {
				ifaceSet[n] = true
			}
			spy := ResponseFunc(func(rc *Command, r *http.Request, u *auth.UserState) Response {
				h.mu.Lock()
				h.ran = append(h.ran, c26Ran{ep: ep, cmd: rc, addr: r.RemoteAddr, user: u})
				h.mu.Unlock()
				return c26Resp{}
			})
			v.Field(f).Set(reflect.ValueOf(spy))
			h.eps = append(h.eps, ep)
		}
		copies = append(copies, cmd)
	}
	h.ncmds = len(copies)
	api = copies
	h.d.addRoutes()
	api = orig
	for _, oc := range orig {
		oc.d = nil
	}

	for n := range ifaceSet {
		h.listedAll = append(h.listedAll, n)
	}
	sort.Strings(h.listedAll)
	h.universe = append(append([]string{}, h.listedAll...), "snapd-control", "network", "snap-refresh-control")

	// declarations the harness cannot judge
	for _, ep := range h.eps {
		if strings.HasPrefix(ep.Decl.Kind, "unknown:") {
			c.Inconclusive(fmt.Sprintf("%s %s declares an access checker type the reference does not know: %s", ep.Method, ep.Path, ep.Decl.Kind))
			return false
		}
		if ep.Decl.Kind == "none" {
			c.Violation("C26:handler-without-declared-access-level", map[string]interface{}{"endpoint": ep.Path, "method": ep.Method})
		}
	}

	// users
	h.st.Lock()
	u1, err1 := auth.NewUser(h.st, auth.NewUserParams{Username: "someone", Email: "someone@example.com", Macaroon: "store-macaroon", Discharges: []string{"store-discharge"}})
	u2, err2 := auth.NewUser(h.st, auth.NewUserParams{Username: "gone", Email: "gone@example.com", Macaroon: "store-macaroon-2", Discharges: []string{"d"}})
	var err3 error
	if err2 == nil {
		_, err3 = auth.RemoveUser(h.st, u2.ID)
	}
	h.st.Unlock()
	st2 := state.New(nil)
	st2.Lock()
	u3, err4 := auth.NewUser(st2, auth.NewUserParams{Username: "someone", Email: "someone@example.com", Macaroon: "store-macaroon", Discharges: []string{"store-discharge"}})
	st2.Unlock()
	if err1 != nil || err2 != nil || err3 != nil || err4 != nil {
		c.Inconclusive(fmt.Sprintf("cannot set up users: %v %v %v %v", err1, err2, err3, err4))
		return false
	}
	h.validUser = u1
	h.validHdr = fmt.Sprintf(`Macaroon root="%s"`, u1.Macaroon)
	h.invalid = [][2]string{
		{"invalid:garbage-macaroon", `Macaroon root="not-a-macaroon"`},
		{"invalid:removed-user", fmt.Sprintf(`Macaroon root="%s"`, u2.Macaroon)},
		{"invalid:signed-with-another-key", fmt.Sprintf(`Macaroon root="%s"`, u3.Macaroon)},
		{"invalid:truncated", fmt.Sprintf(`Macaroon root="%s"`, u1.Macaroon[:len(u1.Macaroon)-6])},
		{"invalid:no-scheme", fmt.Sprintf(`root="%s"`, u1.Macaroon)},
		{"invalid:bearer-scheme", fmt.Sprintf(`Bearer %s`, u1.Macaroon)},
		{"invalid:store-macaroon-instead", `Macaroon root="store-macaroon", discharge="store-discharge"`},
		{"invalid:empty-root", `Macaroon root=""`},
	}
	// self-check of the user fixtures through the real lookup
	h.st.Lock()
	r := &http.Request{Header: http.Header{"Authorization": []string{h.validHdr}}}
	got, _ := userFromRequest(h.st, r)
	h.st.Unlock()
	if got == nil || got.ID != u1.ID {
		c.Inconclusive("fixture: the valid macaroon is not recognised as a state user")
		return false
	}

	// environment seams
	oldPK := polkitCheckAuthorization
	polkitCheckAuthorization = h.polkitMock
	oldCg := cgroupSnapNameFromPid
	cgroupSnapNameFromPid = func(pid int) (string, error) {
		if n := c26SnapOfPid(int64(pid)); n != "" {
			return n, nil
		}
		return "", fmt.Errorf("pid %d is not a snap process", pid)
	}
	h.restores = append(h.restores, func() { polkitCheckAuthorization = oldPK; cgroupSnapNameFromPid = oldCg })

	c.Count("max_commands", 0)
	c.Max("max_commands", h.ncmds)
	c.Max("max_endpoint_methods", len(h.eps))
	c.Max("max_command_methods_without_handler", len(h.noHandler))
	return true
}

func c26SnapOfPid(pid int64) string {
	switch pid {
	case c26PidSnap:
		return c26CallerSnap
	case c26PidOther:
		return c26OtherSnap
	}
	return ""
}

func (h *c26H) polkitMock(pid int32, uid uint32, action string, details map[string]string, flags polkit.CheckFlags) (bool, error) {
	h.mu.Lock()
	h.polkitCalls = append(h.polkitCalls, c26PK{pid, uid, action, flags})
	ans := "no"
	if h.cur != nil {
		ans = h.cur.Polkit
	}
	h.mu.Unlock()
	switch ans {
	case "yes":
		return true, nil
	case "dismissed":
		return false, polkit.ErrDismissed
	case "error":
		return false, errors.New("polkit is unreachable")
	case "yes+error":
		return true, errors.New("polkit answered with an error")
	}
	return false, nil
}

// ---- information: the declared table ------------------------------------------------

func (h *c26H) tableInfo() {
	lines := make([]string, 0, len(h.eps))
	for _, ep := range h.eps {
		lines = append(lines, fmt.Sprintf("%s %s: %s", ep.Method, ep.Path, ep.Decl))
	}
	sort.Strings(lines)
	sum := sha256.Sum256([]byte(strings.Join(lines, "\n")))
	digest := hex.EncodeToString(sum[:8])
	h.c.Note("declared_access_digest", digest)
	h.c.Note("declared_access_table", lines)
	fmt.Printf("C26-INFO declared access table: %d commands, %d (endpoint, method) pairs with a handler, digest %s\n", h.ncmds, len(h.eps), digest)
	pinned := map[string]bool{}
	for _, l := range c26PinnedTable {
		pinned[l] = true
	}
	now := map[string]bool{}
	changed := 0
	for _, l := range lines {
		now[l] = true
		if !pinned[l] {
			fmt.Printf("C26-INFO declaration not in the pinned snapshot: %s\n", l)
			changed++
		}
	}
	for _, l := range c26PinnedTable {
		if !now[l] {
			fmt.Printf("C26-INFO pinned declaration no longer present: %s\n", l)
			changed++
		}
	}
	if changed == 0 {
		fmt.Printf("C26-INFO declared access table equals the pinned snapshot (%s)\n", c26PinnedDigest)
	}
	h.c.Note("declarations_differing_from_pinned_snapshot", changed)
}

// ---- one request -----------------------------------------------------------------------

func (h *c26H) setConns(name string, conns []c26Conn, absent bool) {
	h.st.Lock()
	if absent {
		h.st.Set("conns", nil)
	} else {
		tbl := map[string]interface{}{}
		for _, cn := range conns {
			ent := map[string]interface{}{"interface": cn.Interface, "auto": true}
			if cn.Undesired {
				ent["undesired"] = true
			}
			if cn.HotplugGone {
				ent["hotplug-gone"] = true
			}
			tbl[fmt.Sprintf("%s:%s %s:%s", cn.PlugSnap, cn.Plug, cn.SlotSnap, cn.Slot)] = ent
		}
		h.st.Set("conns", tbl)
	}
	h.st.Unlock()
	h.curConns = name
}

func c26SetEq(a, b []string) bool {
	ma := map[string]bool{}
	for _, x := range a {
		ma[x] = true
	}
	mb := map[string]bool{}
	for _, x := range b {
		mb[x] = true
	}
	if len(ma) != len(mb) {
		return false
	}
	for x := range ma {
		if !mb[x] {
			return false
		}
	}
	return true
}

func (h *c26H) witness(ep *c26EP, cl *c26Caller, idx int, extra map[string]interface{}) map[string]interface{} {
	w := map[string]interface{}{
		"case_index": idx, "endpoint": ep.Path, "method": ep.Method, "declared": ep.Decl, "caller": cl,
		"caller_is": map[string]interface{}{"credentials": cl.truth.Creds, "socket": cl.truth.Socket, "pid": cl.truth.Pid, "uid": cl.truth.Uid,
			"logged_in": cl.truth.LoggedIn, "polkit": cl.truth.Polkit, "snap": cl.truth.Snap,
			"active_listed_connections": c26ActiveListed(cl.truth.Snap, cl.truth.Conns, ep.Decl.Interfaces)},
	}
	for k, v := range extra {
		w[k] = v
	}
	return w
}

// request sends one request through the real Command.ServeHTTP of the copy and
// judges it. classSig != "" records a structural non-triviality signature.
func (h *c26H) request(ep *c26EP, cl *c26Caller, classSig string) {
	idx := h.caseIdx
	h.caseIdx++
	if h.only >= 0 && idx != h.only {
		return
	}
	h.mu.Lock()
	h.cur = cl
	h.ran = h.ran[:0]
	h.polkitCalls = h.polkitCalls[:0]
	h.mu.Unlock()

	req := &http.Request{Method: ep.Method, URL: ep.url, Proto: "HTTP/1.1", ProtoMajor: 1, ProtoMinor: 1,
		Header: http.Header{}, Body: http.NoBody, Host: "localhost", RemoteAddr: cl.Addr, RequestURI: ep.url.Path}
	if cl.authHdr != "" {
		req.Header.Set("Authorization", cl.authHdr)
	}
	if cl.Interact != "" {
		req.Header.Set(client.AllowInteractionHeader, cl.Interact)
	}
	w := &c26RW{}
	if cl.Degraded {
		h.d.degradedErr = errors.New("degraded for C26")
	}
	panicked := func() (p interface{}) {
		defer func() { p = recover() }()
		ep.cmd.ServeHTTP(w, req)
		return nil
	}()
	h.d.degradedErr = nil
	h.judge(ep, cl, idx, w.code, panicked, classSig, "")
}

func (h *c26H) judge(ep *c26EP, cl *c26Caller, idx int, code int, panicked interface{}, classSig, via string) {
	c := h.c
	h.mu.Lock()
	ran := append([]c26Ran(nil), h.ran...)
	pks := append([]c26PK(nil), h.polkitCalls...)
	h.mu.Unlock()

	allow, reason := c26RefDecide(ep.Decl, &cl.truth)
	served := len(ran) > 0
	kind := ep.Decl.Kind
	c.Eval()
	c.Count("requests"+via, 1)
	if classSig != "" {
		c.Nontrivial(classSig)
	}
	if served {
		c.Count("served"+via, 1)
	} else {
		c.Count("denied"+via, 1)
		c.Count(fmt.Sprintf("denied_status_%d", code), 1)
	}
	if allow {
		c.Count("allowed_"+kind, 1)
	} else {
		c.Count("denied_"+kind, 1)
		if !cl.truth.Creds {
			c.Count("denied_no_credentials", 1)
		}
	}
	if h.samples < 4 && (idx%977 == 0) {
		h.samples++
		c.Sample(map[string]interface{}{"endpoint": ep.Path, "method": ep.Method, "declared": ep.Decl.String(), "caller": cl,
			"reference": map[string]interface{}{"allow": allow, "clause": reason}, "handler_ran": served, "status": code})
	}

	if panicked != nil {
		c.Violation("C26:panic-in-dispatch:"+kind, h.witness(ep, cl, idx, map[string]interface{}{"panic": fmt.Sprint(panicked)}))
		return
	}
	if served && (len(ran) != 1 || ran[0].ep != ep || ran[0].cmd != ep.cmd) {
		c.Violation("C26:another-handler-ran", h.witness(ep, cl, idx, map[string]interface{}{"handlers_run": len(ran), "first": ran[0].ep.Method + " " + ran[0].ep.Path}))
	}
	if served && !allow {
		sig := "C26:served-without-access:" + kind + ":" + reason
		if !cl.truth.Creds {
			sig = "C26:served-without-credentials:" + kind
		}
		c.Violation(sig, h.witness(ep, cl, idx, map[string]interface{}{"observed": "handler ran", "status": code, "expected": "denied: " + reason}))
	}
	if !served && allow && !(cl.Degraded && ep.Method != "GET") {
		c.Violation("C26:refused-entitled-caller:"+kind+":"+reason, h.witness(ep, cl, idx,
			map[string]interface{}{"observed": "handler did not run", "status": code, "expected": "served: " + reason}))
	}

	// polkit may only be asked about this caller and this endpoint's action
	for _, pk := range pks {
		c.Count("polkit_consulted", 1)
		if !cl.truth.Creds || int64(pk.pid) != cl.truth.Pid || uint64(pk.uid) != cl.truth.Uid {
			c.Violation("C26:polkit-asked-about-another-subject", h.witness(ep, cl, idx, map[string]interface{}{"asked_pid": pk.pid, "asked_uid": pk.uid, "action": pk.action}))
		}
		if pk.action != ep.Decl.Polkit || pk.action == "" {
			c.Violation("C26:polkit-asked-about-another-action", h.witness(ep, cl, idx, map[string]interface{}{"asked_action": pk.action, "declared_action": ep.Decl.Polkit}))
		}
	}

	// what the handler sees as peer credentials
	if served && cl.truth.Creds {
		seen := ran[0].addr
		var attach []string
		if cl.truth.Socket == "snap" && strings.HasPrefix(kind, "interface-") {
			attach = c26ActiveListed(cl.truth.Snap, cl.truth.Conns, ep.Decl.Interfaces)
			c.Count("served_snap_socket_via_interface", 1)
		}
		pid, uid, sock, ifs, ok := c26RefParse(seen)
		want := append(append([]string{}, cl.truth.Ifaces...), attach...)
		uc, sifs, err := ucrednetGetWithInterfaces(seen)
		switch {
		case !ok || pid != cl.truth.Pid || uid != cl.truth.Uid || sock != cl.truth.SockPath:
			c.Violation("C26:handler-sees-altered-credentials", h.witness(ep, cl, idx, map[string]interface{}{"handler_remote_addr": seen}))
		case !c26SetEq(ifs, want):
			c.Violation("C26:handler-sees-wrong-interfaces", h.witness(ep, cl, idx, map[string]interface{}{"handler_remote_addr": seen, "expected_interfaces": want}))
		case err != nil || uc == nil || int64(uc.Pid) != pid || uint64(uc.Uid) != uid || uc.Socket != sock || !c26SetEq(sifs, ifs):
			c.Violation("C26:attached-encoding-does-not-parse-back", h.witness(ep, cl, idx, map[string]interface{}{"handler_remote_addr": seen, "error": fmt.Sprint(err)}))
		case len(attach) == 0 && seen != cl.Addr:
			c.Violation("C26:handler-sees-altered-credentials", h.witness(ep, cl, idx, map[string]interface{}{"handler_remote_addr": seen}))
		}
		if len(attach) > 0 {
			c.Count("interfaces_attached_checked", 1)
		}
		if (cl.truth.LoggedIn && (ran[0].user == nil || ran[0].user.ID != h.validUser.ID)) || (!cl.truth.LoggedIn && ran[0].user != nil) {
			c.Count("info_handler_user_differs_from_login", 1)
		}
	}
}

// ---- callers ------------------------------------------------------------------------------

type c26Form struct {
	kind string
	raw  string
}

func (h *c26H) sockPath(s string) string {
	switch s {
	case "main":
		return dirs.SnapdSocket
	case "snap":
		return dirs.SnapSocket
	}
	return s
}

func (h *c26H) sockClass(path string) string {
	switch path {
	case dirs.SnapdSocket:
		return "main"
	case dirs.SnapSocket:
		return "snap"
	}
	return "other"
}

// truthOf derives what the caller is from the encoding by the reference parser
// and cross-checks it with snapd's parser (differential monitor on the decoding).
func (h *c26H) fillTruth(cl *c26Caller, wantCreds int) bool {
	pid, uid, sock, ifs, ok := c26RefParse(cl.Addr)
	t := &cl.truth
	t.Creds = ok
	if ok {
		t.Pid, t.Uid, t.SockPath, t.Ifaces = pid, uid, sock, ifs
		t.Socket = h.sockClass(sock)
		t.Snap = c26SnapOfPid(pid)
	}
	t.LoggedIn = cl.UserKind == "valid"
	t.Polkit = cl.Polkit
	t.Conns = cl.Conns
	if (wantCreds == 1 && !ok) || (wantCreds == 0 && ok) {
		h.c.Inconclusive(fmt.Sprintf("harness: reference parser disagrees with the intended class of %q (%s)", cl.Addr, cl.AddrKind))
		return false
	}
	return true
}

func (h *c26H) checkDecoder(kind, addr string) {
	c := h.c
	pid, uid, sock, ifs, ok := c26RefParse(addr)
	uc, sifs, err := ucrednetGetWithInterfaces(addr)
	uc2, err2 := ucrednetGet(addr)
	c.Count("decoder_differential_checks", 1)
	w := map[string]interface{}{"remote_addr": addr, "addr_kind": kind, "snapd": fmt.Sprintf("%+v ifaces=%q err=%v", uc, sifs, err)}
	switch {
	case (err == nil) != (err2 == nil) || (uc == nil) != (uc2 == nil) || (uc != nil && *uc != *uc2):
		c.Violation("C26:credential-decoding:two-entry-points-disagree", w)
	case !ok && err == nil && uc != nil:
		c.Violation("C26:credential-decoding:malformed-accepted", w)
	case !ok && (err == nil || uc != nil):
		c.Violation("C26:credential-decoding:malformed-accepted", w)
	case ok && (err != nil || uc == nil):
		c.Violation("C26:credential-decoding:wellformed-rejected", w)
	case ok && (int64(uc.Pid) != pid || uint64(uc.Uid) != uid || uc.Socket != sock || !c26SetEq(sifs, ifs) || len(sifs) != len(ifs)):
		c.Violation("C26:credential-decoding:altered", w)
	}
	if ok {
		c.Count("decoder_wellformed", 1)
	} else {
		c.Count("decoder_malformed", 1)
	}
}

func (h *c26H) forms(uids []uint64, pids []int64) (snapForms, otherForms []c26Form, malformed map[string]bool) {
	mainS, snapS := dirs.SnapdSocket, dirs.SnapSocket
	malformed = map[string]bool{}
	seen := map[string]bool{}
	add := func(dst *[]c26Form, kind, raw string) {
		if seen[raw] {
			return
		}
		seen[raw] = true
		*dst = append(*dst, c26Form{kind, raw})
	}
	for _, uid := range uids {
		for _, pid := range pids {
			add(&otherForms, "valid-main-socket", c26RefFormat(pid, uid, mainS))
			add(&snapForms, "valid-snap-socket", c26RefFormat(pid, uid, snapS))
		}
	}
	others := []string{"/tmp/other.socket", "", mainS + "x", mainS + "/", "/" + mainS, strings.TrimPrefix(mainS, dirs.GlobalRootDir),
		"snapd.socket", strings.ToUpper(snapS), "@" + mainS, mainS + " ", strings.Replace(mainS, "/run/", "/run/../run/", 1), snapS + "-snap", mainS + "," + snapS, "/run/user/1000/snapd-session-agent.socket"}
	for _, o := range others {
		for _, uid := range []uint64{0, 1000} {
			add(&otherForms, "other-socket-path", c26RefFormat(c26PidSnap, uid, o))
		}
	}
	// injected iface= on otherwise well-formed encodings (only snapd itself ever appends it)
	inj := []string{"", strings.Join(h.listedAll, "&")}
	if len(h.listedAll) > 0 {
		inj = append(inj, h.listedAll[0])
	}
	for _, uid := range []uint64{0, 1000} {
		for _, i := range inj {
			add(&otherForms, "injected-iface-main-socket", c26RefFormat(c26PidSnap, uid, mainS)+"iface="+i+";")
			add(&snapForms, "injected-iface-snap-socket", c26RefFormat(c26PidSnap, uid, snapS)+"iface="+i+";")
		}
	}
	vm := c26RefFormat(c26PidPlain, 0, mainS)
	vs := c26RefFormat(c26PidSnap, 1000, snapS)
	bad := [][2]string{
		{"empty", ""},
		{"garbage", "garbage"}, {"garbage", "192.0.2.1:1234"}, {"garbage", "@"}, {"garbage", ";;;"}, {"garbage", "pid=;uid=;socket=;"},
		{"garbage", "pid=;uid=0;socket=" + mainS + ";"}, {"garbage", "pid=100;uid=;socket=" + mainS + ";"},
		{"pid=0", "pid=0;uid=0;socket=" + mainS + ";"}, {"pid=0", "pid=0;uid=1000;socket=" + snapS + ";"}, {"pid=0", "pid=00;uid=0;socket=" + mainS + ";"},
		{"uid=4294967295", "pid=100;uid=4294967295;socket=" + mainS + ";"}, {"uid=4294967295", "pid=4242;uid=4294967295;socket=" + snapS + ";"},
		{"uid=4294967295", "pid=0;uid=4294967295;socket=" + mainS + ";"}, {"uid=4294967295", "pid=4242;uid=4294967295;socket=" + snapS + ";iface=" + strings.Join(h.listedAll, "&") + ";"},
		{"extra-fields", vm + "foo=bar;"}, {"extra-fields", "x;" + vm}, {"extra-fields", "foo=bar;" + vm}, {"extra-fields", vm + vm}, {"extra-fields", vs + vm},
		{"extra-fields", "pid=100;uid=1000;uid=0;socket=" + mainS + ";"}, {"extra-fields", "pid=100;uid=0;uid=1000;socket=" + mainS + ";"},
		{"extra-fields", "pid=4242;uid=0;socket=" + snapS + ";socket=" + mainS + ";"}, {"extra-fields", "pid=100;pid=100;uid=0;socket=" + mainS + ";"},
		{"extra-fields", vm + "iface=a;iface=b;"}, {"extra-fields", vm + "iface=a;x"}, {"extra-fields", vm + ";"}, {"extra-fields", ";" + vm},
		{"truncated", strings.TrimSuffix(vm, ";")}, {"truncated", "pid=100;uid=0;"}, {"truncated", "pid=100;uid=0"}, {"truncated", "uid=0;socket=" + mainS + ";"},
		{"truncated", "pid=100;socket=" + mainS + ";"}, {"truncated", "socket=" + mainS + ";"},
		{"whitespace", " " + vm}, {"whitespace", vm + "\n"}, {"whitespace", vm + " "}, {"whitespace", "\n" + vm}, {"whitespace", "pid= 100;uid=0;socket=" + mainS + ";"},
		{"whitespace", "pid=100 ;uid=0;socket=" + mainS + ";"}, {"whitespace", "pid=100;uid=0 ;socket=" + mainS + ";"}, {"whitespace", "pid=100; uid=0;socket=" + mainS + ";"},
		{"sign", "pid=+100;uid=0;socket=" + mainS + ";"}, {"sign", "pid=-100;uid=0;socket=" + mainS + ";"}, {"sign", "pid=100;uid=-0;socket=" + mainS + ";"},
		{"sign", "pid=100;uid=+0;socket=" + mainS + ";"}, {"sign", "pid=100;uid=-1;socket=" + mainS + ";"},
		{"radix", "pid=0x64;uid=0x0;socket=" + mainS + ";"}, {"radix", "pid=1e2;uid=0;socket=" + mainS + ";"}, {"radix", "pid=100.0;uid=0.0;socket=" + mainS + ";"},
		{"overflow", "pid=4294967396;uid=0;socket=" + mainS + ";"}, {"overflow", "pid=100;uid=4294967296;socket=" + mainS + ";"}, {"overflow", "pid=2147483648;uid=0;socket=" + mainS + ";"},
		{"overflow", "pid=100;uid=18446744073709551616;socket=" + mainS + ";"}, {"overflow", "pid=18446744073709551716;uid=0;socket=" + mainS + ";"},
		{"unicode-digits", "pid=１００;uid=０;socket=" + mainS + ";"}, {"unicode-digits", "pid=100;uid=٠;socket=" + mainS + ";"},
		{"case", "PID=100;UID=0;SOCKET=" + mainS + ";"}, {"case", "Pid=100;uid=0;socket=" + mainS + ";"},
		{"reordered", "uid=0;pid=100;socket=" + mainS + ";"}, {"reordered", "socket=" + mainS + ";pid=100;uid=0;"},
		{"separators", "pid=100,uid=0,socket=" + mainS + ","}, {"separators", "pid=100&uid=0&socket=" + mainS + "&"}, {"separators", "pid:100;uid:0;socket:" + mainS + ";"},
		{"nul", "pid=100\x00;uid=0;socket=" + mainS + ";"}, {"nul", "\x00" + vm}, {"nul", vm + "\x00"},
	}
	for _, b := range bad {
		add(&otherForms, b[0], b[1])
		malformed[b[1]] = true
	}
	return
}

type c26Scn struct {
	name   string
	conns  []c26Conn
	absent bool
}

func c26Plug(snapName, iface string) c26Conn {
	return c26Conn{PlugSnap: snapName, Plug: iface, SlotSnap: "core", Slot: iface, Interface: iface}
}

func (h *c26H) scenarios() (full, reduced []c26Scn) {
	full = append(full, c26Scn{name: "no-conns:absent", absent: true}, c26Scn{name: "no-conns:empty"})
	var all, unlisted []c26Conn
	for _, i := range h.universe {
		all = append(all, c26Plug(c26CallerSnap, i))
		full = append(full, c26Scn{name: "active-plug:" + i, conns: []c26Conn{c26Plug(c26CallerSnap, i)}})
	}
	for _, i := range h.universe[len(h.listedAll):] {
		unlisted = append(unlisted, c26Plug(c26CallerSnap, i))
	}
	for _, i := range h.listedAll {
		und := c26Plug(c26CallerSnap, i)
		und.Undesired = true
		gone := c26Plug(c26CallerSnap, i)
		gone.HotplugGone = true
		both := c26Plug(c26CallerSnap, i)
		both.Undesired, both.HotplugGone = true, true
		slotSide := c26Conn{PlugSnap: c26OtherSnap, Plug: i, SlotSnap: c26CallerSnap, Slot: i, Interface: i}
		goneAndActive := c26Conn{PlugSnap: c26CallerSnap, Plug: i, SlotSnap: c26OtherSnap, Slot: i, Interface: i}
		custom := c26Conn{PlugSnap: c26CallerSnap, Plug: "my-plug", SlotSnap: "snapd", Slot: "some-slot", Interface: i}
		misnamed := c26Conn{PlugSnap: c26CallerSnap, Plug: i, SlotSnap: "core", Slot: i, Interface: "network"}
		full = append(full,
			c26Scn{name: "undesired:" + i, conns: []c26Conn{und}},
			c26Scn{name: "hotplug-gone:" + i, conns: []c26Conn{gone}},
			c26Scn{name: "undesired+hotplug-gone:" + i, conns: []c26Conn{both}},
			c26Scn{name: "slot-side:" + i, conns: []c26Conn{slotSide}},
			c26Scn{name: "other-snaps-plug:" + i, conns: []c26Conn{c26Plug(c26OtherSnap, i)}},
			c26Scn{name: "prefix-named-snaps-plug:" + i, conns: []c26Conn{c26Plug(c26CallerSnap+"-extra", i), c26Plug(c26CallerSnap+"_inst", i), c26Plug("x"+c26CallerSnap, i)}},
			c26Scn{name: "inactive-listed+active-unlisted:" + i, conns: append([]c26Conn{und}, unlisted...)},
			c26Scn{name: "hotplug-gone+active-on-second-slot:" + i, conns: []c26Conn{gone, goneAndActive}},
			c26Scn{name: "active-custom-plug-name:" + i, conns: []c26Conn{custom}},
			c26Scn{name: "plug-named-like-listed-but-other-interface:" + i, conns: []c26Conn{misnamed}},
		)
	}
	full = append(full, c26Scn{name: "active-plug:all", conns: all}, c26Scn{name: "active-plug:all-unlisted", conns: unlisted})
	reduced = []c26Scn{full[0], {name: "active-plug:all", conns: all}}
	if len(h.listedAll) > 0 {
		reduced = append(reduced, c26Scn{name: "active-plug:" + h.listedAll[0], conns: []c26Conn{c26Plug(c26CallerSnap, h.listedAll[0])}})
	}
	return
}

var c26PolkitAnswers = []string{"yes", "no", "dismissed", "error", "yes+error"}

// ---- (a) the enumerated matrix -------------------------------------------------------------

func (h *c26H) matrix() {
	c := h.c
	uids := []uint64{0, 1000}
	pids := []int64{c26PidSnap, c26PidPlain}
	users := [][2]string{{"none", ""}, {"valid", h.validHdr}, h.invalid[0]}
	if !kit.Quick() {
		uids = []uint64{0, 1000, 1, 65534, 4294967294}
		pids = []int64{c26PidSnap, c26PidPlain, c26PidOther, 1, 2147483647}
		users = append([][2]string{{"none", ""}, {"valid", h.validHdr}}, h.invalid...)
	}
	snapForms, otherForms, malformed := h.forms(uids, pids)
	full, reduced := h.scenarios()
	for _, f := range append(append([]c26Form{}, snapForms...), otherForms...) {
		h.checkDecoder(f.kind, f.raw)
	}
	shard, nshard := kit.Shard()
	callerNo := 0
	ncallers := 0
	run := func(scns []c26Scn, forms []c26Form) {
		for _, scn := range scns {
			h.setConns(scn.name, scn.conns, scn.absent)
			for _, f := range forms {
				for _, u := range users {
					for _, pk := range c26PolkitAnswers {
						callerNo++
						if callerNo%nshard != shard {
							continue
						}
						cl := &c26Caller{AddrKind: f.kind, Addr: f.raw, UserKind: u[0], authHdr: u[1], Polkit: pk, ConnKind: scn.name, Conns: scn.conns}
						want := 1
						if malformed[f.raw] {
							want = 0
						}
						if !h.fillTruth(cl, want) {
							return
						}
						ncallers++
						n0 := h.caseIdx
						for _, ep := range h.eps {
							h.request(ep, cl, "")
						}
						if h.only < 0 {
							c.DistinctEnumerated(int64(h.caseIdx - n0))
						}
					}
				}
			}
		}
	}
	run(full, snapForms)
	run(reduced, otherForms)
	c.Count("callers_matrix", ncallers)
	c.Max("max_addr_forms", len(snapForms)+len(otherForms))
	c.Max("max_conn_scenarios", len(full))
}
