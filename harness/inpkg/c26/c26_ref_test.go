// C26 — reference side: what a caller IS (independent of how snapd parses it)
// and which declared access level it satisfies. Nothing in this file calls
// into snapd code; it is transcribed from the property statement:
//
//   - a request whose peer credentials are missing or unparsable is never
//     authorized (any level);
//   - requests arriving on the snap socket are served only for snapctl
//     (level "snap") or for interface-gated levels when the calling snap has an
//     active connection of a listed interface (plug side);
//   - root-only levels serve only uid 0;
//   - authenticated levels serve only root, a logged-in user or a caller that
//     polkit authorizes for the action declared with the level;
//   - every level other than "snap" is meant for the main socket; unknown
//     sockets are served by nobody.
package daemon

import (
	"fmt"
	"sort"
	"strings"
)

// ---- declared access level (data read off the endpoint table) ---------------

type c26Decl struct {
	Kind       string   `json:"kind"` // open|authenticated|root|snap|interface-open|interface-authenticated|none|unknown:<type>
	Polkit     string   `json:"polkit,omitempty"`
	Interfaces []string `json:"interfaces,omitempty"`
}

func (d c26Decl) String() string {
	s := d.Kind
	if d.Polkit != "" {
		s += " polkit=" + d.Polkit
	}
	if len(d.Interfaces) > 0 {
		s += " interfaces=" + strings.Join(d.Interfaces, ",")
	}
	return s
}

// ---- the caller as it really is ----------------------------------------------

type c26Conn struct {
	PlugSnap    string `json:"plug-snap"`
	Plug        string `json:"plug"`
	SlotSnap    string `json:"slot-snap"`
	Slot        string `json:"slot"`
	Interface   string `json:"interface"`
	Undesired   bool   `json:"undesired,omitempty"`
	HotplugGone bool   `json:"hotplug-gone,omitempty"`
}

type c26Truth struct {
	Creds    bool     // well-formed peer credentials naming a process and a user
	Socket   string   // "main" | "snap" | "other"
	Pid      int64    // as encoded
	Uid      uint64   // as encoded
	SockPath string   // as encoded
	Ifaces   []string // interfaces carried by the encoding (only ever put there by snapd itself)
	LoggedIn bool     // presents the macaroon of a user currently in the state
	Polkit   string   // what polkit would answer for this caller: yes|no|dismissed|error|yes+error
	Snap     string   // snap the pid belongs to ("" = not a snap process)
	Conns    []c26Conn
}

// c26RefParse is the reference reading of the peer credential encoding
// "pid=<dec>;uid=<dec>;socket=<path>;[iface=<a>&<b>...;]" written without
// regular expressions. ok=false: missing or unparsable credentials. pid 0 and
// uid 4294967295 are the "no process"/"nobody" sentinels and count as missing.
func c26RefParse(s string) (pid int64, uid uint64, sock string, ifaces []string, ok bool) {
	if !strings.HasSuffix(s, ";") {
		return
	}
	fields := strings.Split(s[:len(s)-1], ";")
	if len(fields) != 3 && len(fields) != 4 {
		return
	}
	dec := func(f, key string, max uint64) (uint64, bool) {
		if !strings.HasPrefix(f, key) {
			return 0, false
		}
		v := f[len(key):]
		if v == "" {
			return 0, false
		}
		var n uint64
		for i := 0; i < len(v); i++ {
			ch := v[i]
			if ch < '0' || ch > '9' {
				return 0, false
			}
			n = n*10 + uint64(ch-'0')
			if n > max {
				return 0, false
			}
		}
		return n, true
	}
	p, ok1 := dec(fields[0], "pid=", 1<<31-1)
	u, ok2 := dec(fields[1], "uid=", 1<<32-1)
	if !ok1 || !ok2 || !strings.HasPrefix(fields[2], "socket=") {
		return
	}
	if p == 0 || u == 1<<32-1 {
		return
	}
	if len(fields) == 4 {
		if !strings.HasPrefix(fields[3], "iface=") {
			return
		}
		ifaces = strings.Split(fields[3][len("iface="):], "&")
	}
	return int64(p), u, fields[2][len("socket="):], ifaces, true
}

func c26RefFormat(pid int64, uid uint64, sock string) string {
	return "pid=" + fmt.Sprint(pid) + ";uid=" + fmt.Sprint(uid) + ";socket=" + sock + ";"
}

// c26ActiveListed returns the listed interfaces for which the snap has an
// active (neither undesired nor hotplug-gone) connection on the plug side.
func c26ActiveListed(snapName string, conns []c26Conn, listed []string) []string {
	if snapName == "" {
		return nil
	}
	seen := map[string]bool{}
	for _, cn := range conns {
		if cn.PlugSnap != snapName || cn.Undesired || cn.HotplugGone {
			continue
		}
		for _, l := range listed {
			if l == cn.Interface {
				seen[l] = true
			}
		}
	}
	out := make([]string, 0, len(seen))
	for k := range seen {
		out = append(out, k)
	}
	sort.Strings(out)
	return out
}

// c26RefDecide: does the caller satisfy the declared level? reason names the
// clause that decided (stable, used in violation signatures).
func c26RefDecide(d c26Decl, t *c26Truth) (allow bool, reason string) {
	if !t.Creds {
		return false, "no-credentials"
	}
	admin := func() (bool, string) {
		switch {
		case t.Uid == 0:
			return true, "root"
		case t.LoggedIn:
			return true, "logged-in-user"
		case d.Polkit != "" && t.Polkit == "yes":
			return true, "polkit-authorized"
		}
		return false, "not-authenticated"
	}
	gate := func() (bool, string) {
		switch t.Socket {
		case "main":
			return true, "main-socket"
		case "snap":
			if len(c26ActiveListed(t.Snap, t.Conns, d.Interfaces)) > 0 {
				return true, "snap-with-active-listed-connection"
			}
			return false, "snap-socket-without-active-listed-connection"
		}
		return false, "unknown-socket"
	}
	mainOnly := func() (bool, string) {
		switch t.Socket {
		case "main":
			return true, "main-socket"
		case "snap":
			return false, "snap-socket"
		}
		return false, "unknown-socket"
	}
	switch d.Kind {
	case "open":
		return mainOnly()
	case "authenticated":
		if ok, why := mainOnly(); !ok {
			return false, why
		}
		return admin()
	case "root":
		if ok, why := mainOnly(); !ok {
			return false, why
		}
		if t.Uid == 0 {
			return true, "root"
		}
		return false, "not-root"
	case "snap":
		if t.Socket == "snap" {
			return true, "snap-socket"
		}
		return false, "not-snap-socket"
	case "interface-open":
		return gate()
	case "interface-authenticated":
		if ok, why := gate(); !ok {
			return false, why
		}
		ok, why := admin()
		if ok && t.Socket == "snap" {
			why = "snap-with-active-listed-connection+" + why
		}
		return ok, why
	case "none":
		return false, "no-level-declared"
	}
	return false, "undecidable"
}
