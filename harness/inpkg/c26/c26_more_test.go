// C26 — seeded random callers, requests with methods that have no handler,
// the credential-encoding round trip, and a small end-to-end pass over real
// unix sockets (real ucrednetListener, real router).
package daemon

import (
	"context"
	"fmt"
	"io"
	"math"
	"math/rand"
	"net"
	"net/http"
	"net/url"
	"os"
	"path/filepath"
	"strings"
	sys "syscall"

	"github.com/gorilla/mux"
	kit "verifkit"

	"github.com/snapcore/snapd/client"
	"github.com/snapcore/snapd/dirs"
)

// ---- (b) seeded random callers ------------------------------------------------------------

func c26Pick(r *rand.Rand, xs ...string) string { return xs[r.Intn(len(xs))] }

func c26Mutate(r *rand.Rand, s string) (string, string) {
	alphabet := []string{";", "=", "&", "\n", " ", "\x00", "0", "1", "9", "a", "/", "-", "+", "pid=", "uid=", "socket=", "iface=", "１"}
	op := r.Intn(9)
	switch op {
	case 0: // delete a byte
		if len(s) > 0 {
			i := r.Intn(len(s))
			return s[:i] + s[i+1:], "delete-byte"
		}
	case 1: // insert a token
		i := r.Intn(len(s) + 1)
		return s[:i] + alphabet[r.Intn(len(alphabet))] + s[i:], "insert-token"
	case 2: // duplicate a field
		fs := strings.SplitAfter(s, ";")
		if len(fs) > 1 {
			i := r.Intn(len(fs) - 1)
			j := r.Intn(len(fs))
			out := append([]string{}, fs[:j]...)
			out = append(out, fs[i])
			out = append(out, fs[j:]...)
			return strings.Join(out, ""), "duplicate-field"
		}
	case 3: // swap two fields
		fs := strings.SplitAfter(s, ";")
		if len(fs) > 2 {
			i, j := r.Intn(len(fs)-1), r.Intn(len(fs)-1)
			fs[i], fs[j] = fs[j], fs[i]
			return strings.Join(fs, ""), "swap-fields"
		}
	case 4: // drop a field
		fs := strings.SplitAfter(s, ";")
		if len(fs) > 1 {
			i := r.Intn(len(fs) - 1)
			return strings.Join(append(append([]string{}, fs[:i]...), fs[i+1:]...), ""), "drop-field"
		}
	case 5: // replace a number
		num := c26Pick(r, "0", "00", "4294967295", "4294967296", "2147483647", "2147483648", "-1", "+0", "", "0x0", "1000", "007", "99999999999999999999", "４２")
		key := c26Pick(r, "pid=", "uid=")
		if i := strings.Index(s, key); i >= 0 {
			j := strings.Index(s[i:], ";")
			if j > 0 {
				return s[:i] + key + num + s[i+j:], "replace-number"
			}
		}
	case 6: // change case of a key
		key := c26Pick(r, "pid", "uid", "socket")
		return strings.Replace(s, key, strings.ToUpper(key), 1), "upper-key"
	case 7: // truncate
		if len(s) > 0 {
			return s[:r.Intn(len(s))], "truncate"
		}
	case 8: // prefix/suffix
		if r.Intn(2) == 0 {
			return alphabet[r.Intn(len(alphabet))] + s, "prefix"
		}
		return s + alphabet[r.Intn(len(alphabet))], "suffix"
	}
	return s, "none"
}

func (h *c26H) randomConns(r *rand.Rand) []c26Conn {
	n := r.Intn(6)
	var out []c26Conn
	seen := map[string]bool{}
	for i := 0; i < n; i++ {
		iface := h.universe[r.Intn(len(h.universe))]
		cn := c26Conn{
			PlugSnap:  c26Pick(r, c26CallerSnap, c26CallerSnap, c26CallerSnap, c26OtherSnap, "third-snap", c26CallerSnap+"_inst"),
			SlotSnap:  c26Pick(r, "core", "snapd", c26CallerSnap, c26OtherSnap),
			Interface: iface,
		}
		cn.Plug = c26Pick(r, iface, iface, "custom-plug")
		cn.Slot = c26Pick(r, iface, iface, "custom-slot")
		cn.Undesired = r.Intn(100) < 25
		cn.HotplugGone = r.Intn(100) < 20
		key := cn.PlugSnap + ":" + cn.Plug + " " + cn.SlotSnap + ":" + cn.Slot
		if seen[key] {
			continue
		}
		seen[key] = true
		out = append(out, cn)
	}
	return out
}

func (h *c26H) random() {
	c := h.c
	n := kit.Scale(1500, 12000)
	uids := []uint64{0, 0, 0, 1000, 1000, 1, 65534, 4294967294, 2147483648}
	pids := []int64{c26PidSnap, c26PidSnap, c26PidSnap, c26PidOther, c26PidPlain, 1, 2147483647}
	for i := 0; i < n; i++ {
		r := kit.CaseRand("caller", i)
		uid := uids[r.Intn(len(uids))]
		if r.Intn(10) == 0 {
			uid = uint64(r.Uint32())
		}
		pid := pids[r.Intn(len(pids))]
		if r.Intn(10) == 0 {
			pid = int64(r.Int31())
		}
		// socket paths stay placeholders while the encoding is mutated, so the
		// case list does not depend on where the scratch root lives
		sock := c26Pick(r, "{MAIN}", "{MAIN}", "{SNAP}", "{SNAP}", "/tmp/other.socket", "", "{MAIN}x", "/run/snapd-snap.socket")
		addr := c26RefFormat(pid, uid, sock)
		kind := "random-wellformed"
		if r.Intn(100) < 15 {
			k := 1 + r.Intn(3)
			var ifs []string
			for j := 0; j < k; j++ {
				ifs = append(ifs, h.universe[r.Intn(len(h.universe))])
			}
			addr += "iface=" + strings.Join(ifs, "&") + ";"
			kind = "random-injected-iface"
		}
		if r.Intn(100) < 50 {
			var ops []string
			for k := 1 + r.Intn(3); k > 0; k-- {
				var op string
				addr, op = c26Mutate(r, addr)
				ops = append(ops, op)
			}
			kind = "random-mutated:" + strings.Join(ops, "+")
		}
		addr = strings.NewReplacer("{MAIN}", dirs.SnapdSocket, "{SNAP}", dirs.SnapSocket).Replace(addr)
		cl := &c26Caller{AddrKind: kind, Addr: addr, Polkit: c26PolkitAnswers[r.Intn(len(c26PolkitAnswers))]}
		switch k := r.Intn(10); {
		case k < 4:
			cl.UserKind = "none"
		case k < 7:
			cl.UserKind, cl.authHdr = "valid", h.validHdr
		default:
			iv := h.invalid[r.Intn(len(h.invalid))]
			cl.UserKind, cl.authHdr = iv[0], iv[1]
		}
		cl.Interact = c26Pick(r, "", "", "true", "false", "1", "garbage")
		cl.Degraded = r.Intn(100) < 8
		cl.Conns = h.randomConns(r)
		cl.ConnKind = fmt.Sprintf("random(%d)", len(cl.Conns))
		absent := len(cl.Conns) == 0 && r.Intn(2) == 0
		h.setConns(cl.ConnKind, cl.Conns, absent)
		if !h.fillTruth(cl, -1) {
			return
		}
		h.checkDecoder(strings.SplitN(kind, ":", 2)[0], addr)
		c.Count("callers_random", 1)
		if cl.truth.Creds {
			c.Count("callers_random_with_credentials", 1)
		}
		class := strings.SplitN(kind, ":", 2)[0]
		for _, ep := range h.eps {
			allow, reason := c26RefDecide(ep.Decl, &cl.truth)
			sig := kit.Sig("random", ep.Idx, ep.Method, class, cl.truth.Creds, cl.truth.Socket, cl.truth.Uid == 0, cl.UserKind, cl.Polkit,
				len(c26ActiveListed(cl.truth.Snap, cl.truth.Conns, ep.Decl.Interfaces)) > 0, cl.Degraded, allow, reason)
			h.request(ep, cl, sig)
		}
	}
}

// ---- methods without a handler -------------------------------------------------------------------

// A request with a method for which the command declares no handler (or that
// the Command type does not know at all) must not reach any handler of that
// command. Judged only for callers that satisfy none of the command's levels.
func (h *c26H) foreignMethods() {
	if h.only >= 0 {
		return
	}
	c := h.c
	h.setConns("no-conns:absent", nil, true)
	callers := []*c26Caller{
		{AddrKind: "empty", Addr: "", UserKind: "valid", authHdr: h.validHdr, Polkit: "yes"},
		{AddrKind: "garbage", Addr: "pid=;uid=;socket=;", UserKind: "valid", authHdr: h.validHdr, Polkit: "yes"},
		{AddrKind: "other-socket-path", Addr: c26RefFormat(c26PidSnap, 0, "/tmp/other.socket"), UserKind: "valid", authHdr: h.validHdr, Polkit: "yes"},
		{AddrKind: "valid-snap-socket", Addr: c26RefFormat(c26PidSnap, 0, dirs.SnapSocket), UserKind: "valid", authHdr: h.validHdr, Polkit: "yes"},
	}
	declared := map[*Command]map[string]bool{}
	snapLevel := map[*Command]bool{}
	cmds := []*Command{}
	for _, ep := range h.eps {
		if declared[ep.cmd] == nil {
			declared[ep.cmd] = map[string]bool{}
			cmds = append(cmds, ep.cmd)
		}
		declared[ep.cmd][ep.Method] = true
		if ep.Decl.Kind == "snap" {
			snapLevel[ep.cmd] = true
		}
	}
	for _, cmd := range cmds {
		for _, m := range []string{"GET", "PUT", "POST", "DELETE", "HEAD", "PATCH", "OPTIONS", "CONNECT", "TRACE", "get", "post", "Get", "POTATO", ""} {
			if declared[cmd][m] {
				continue
			}
			for _, cl := range callers {
				if !h.fillTruth(cl, -1) {
					return
				}
				if cl.truth.Socket == "snap" && snapLevel[cmd] {
					continue
				}
				h.mu.Lock()
				h.cur = cl
				h.ran = h.ran[:0]
				h.polkitCalls = h.polkitCalls[:0]
				h.mu.Unlock()
				req := &http.Request{Method: m, URL: h.urlOf(cmd), Proto: "HTTP/1.1", ProtoMajor: 1, ProtoMinor: 1, Header: http.Header{}, Body: http.NoBody, Host: "localhost", RemoteAddr: cl.Addr}
				req.Header.Set("Authorization", cl.authHdr)
				w := &c26RW{}
				p := func() (p interface{}) {
					defer func() { p = recover() }()
					cmd.ServeHTTP(w, req)
					return nil
				}()
				c.Eval()
				c.Count("requests_with_method_without_handler", 1)
				h.mu.Lock()
				nran := len(h.ran)
				h.mu.Unlock()
				wit := map[string]interface{}{"endpoint": h.pathOf(cmd), "method": m, "caller": cl, "status": w.code}
				if p != nil {
					wit["panic"] = fmt.Sprint(p)
					c.Violation("C26:panic-in-dispatch:method-without-handler", wit)
				} else if nran > 0 {
					c.Violation("C26:served-without-access:method-without-handler", wit)
				}
			}
		}
	}
}

func (h *c26H) pathOf(cmd *Command) string {
	if cmd.PathPrefix != "" {
		return cmd.PathPrefix + "*"
	}
	return cmd.Path
}

func (h *c26H) urlOf(cmd *Command) *url.URL {
	for _, ep := range h.eps {
		if ep.cmd == cmd {
			return ep.url
		}
	}
	return &url.URL{Path: "/"}
}

// ---- credential encoding round trip ------------------------------------------------------

func (h *c26H) roundTrip() {
	if h.only >= 0 {
		return
	}
	c := h.c
	n := kit.Scale(20000, 60000)
	pathAlpha := []rune("abcdefghijklmnopqrstuvwxyzABCXYZ0123456789/._-@ =&:,+%#\téß日")
	names := append([]string{}, h.universe...)
	for i := 0; i < n; i++ {
		r := kit.CaseRand("roundtrip", i)
		var pid int32
		switch r.Intn(6) {
		case 0:
			pid = 1
		case 1:
			pid = math.MaxInt32
		case 2:
			pid = int32(1 + r.Intn(70000))
		default:
			pid = 1 + r.Int31n(math.MaxInt32-1)
		}
		var uid uint32
		switch r.Intn(7) {
		case 0:
			uid = 0
		case 1:
			uid = 1000
		case 2:
			uid = math.MaxUint32 - 1
		case 3:
			uid = 1 << 31
		default:
			uid = r.Uint32()
			if uid == math.MaxUint32 {
				uid = 7
			}
		}
		var sock string
		switch r.Intn(5) {
		case 0:
			sock = dirs.SnapdSocket
		case 1:
			sock = dirs.SnapSocket
		case 2:
			sock = ""
		default:
			k := 1 + r.Intn(40)
			rs := make([]rune, k)
			for j := range rs {
				rs[j] = pathAlpha[r.Intn(len(pathAlpha))]
			}
			sock = string(rs)
		}
		u := &ucrednet{Pid: pid, Uid: uid, Socket: sock}
		s := u.String()
		c.Eval()
		c.Count("roundtrip_cases", 1)
		wit := map[string]interface{}{"roundtrip_index": i, "stream": "roundtrip", "pid": pid, "uid": uid, "socket": sock, "encoded": s}
		// independent decoder on snapd's encoder
		rp, ru, rs, rifs, ok := c26RefParse(s)
		if !ok || rp != int64(pid) || ru != uint64(uid) || rs != sock || len(rifs) != 0 {
			c.Violation("C26:roundtrip:encoding-altered", wit)
			continue
		}
		// snapd's decoder on snapd's encoder
		got, ifs, err := ucrednetGetWithInterfaces(s)
		if err != nil || got == nil || *got != *u || len(ifs) != 0 {
			wit["decoded"] = fmt.Sprintf("%+v ifaces=%q err=%v", got, ifs, err)
			c.Violation("C26:roundtrip:decode-altered", wit)
			continue
		}
		// attach a sequence of interfaces (with repeats)
		k := r.Intn(6)
		cur := s
		var want, seq []string
		bad := false
		for j := 0; j < k && !bad; j++ {
			var name string
			if r.Intn(3) == 0 && len(want) > 0 {
				name = want[r.Intn(len(want))]
			} else if r.Intn(2) == 0 {
				name = names[r.Intn(len(names))]
			} else {
				l := 1 + r.Intn(12)
				b := make([]byte, l)
				for x := range b {
					b[x] = "abcdefghijklmnopqrstuvwxyz0123456789-"[r.Intn(37)]
				}
				b[0] = "abcdefghijklmnopqrstuvwxyz"[r.Intn(26)]
				name = string(b)
			}
			seq = append(seq, name)
			dup := false
			for _, w := range want {
				if w == name {
					dup = true
				}
			}
			if !dup {
				want = append(want, name)
			}
			cur = ucrednetAttachInterface(cur, name)
			c.Count("roundtrip_attach_steps", 1)
			got, ifs, err := ucrednetGetWithInterfaces(cur)
			got2, err2 := ucrednetGet(cur)
			rp, ru, rs, rifs, ok := c26RefParse(cur)
			wit["attached"] = seq
			wit["after_attach"] = cur
			switch {
			case err != nil || got == nil || *got != *u || err2 != nil || got2 == nil || *got2 != *u:
				c.Violation("C26:roundtrip:attach-alters-credentials", wit)
				bad = true
			case !c26SetEq(ifs, want) || len(ifs) != len(want):
				c.Violation("C26:roundtrip:attach-alters-interfaces", wit)
				bad = true
			case !ok || rp != int64(pid) || ru != uint64(uid) || rs != sock || !c26SetEq(rifs, want) || len(rifs) != len(want):
				c.Violation("C26:roundtrip:attach-alters-encoding", wit)
				bad = true
			}
		}
		if k >= 2 {
			c.Nontrivial(kit.Sig("roundtrip", pid == 1 || pid == math.MaxInt32, uid == 0 || uid >= 1<<31, sock == dirs.SnapdSocket, sock == dirs.SnapSocket, len(sock) == 0, k, len(want)))
		}
	}
	// the sentinels never turn into credentials, with or without attached interfaces
	for _, u := range []*ucrednet{nil, {Pid: 0, Uid: 0, Socket: dirs.SnapdSocket}, {Pid: 100, Uid: ucrednetNobody, Socket: dirs.SnapdSocket},
		{Pid: 0, Uid: ucrednetNobody, Socket: dirs.SnapSocket}, {Pid: ucrednetNoProcess, Uid: 1000, Socket: dirs.SnapSocket}} {
		s := u.String()
		for _, enc := range []string{s, ucrednetAttachInterface(s, "snap-refresh-observe"), ucrednetAttachInterface(ucrednetAttachInterface(s, "a"), "b")} {
			got, _, err := ucrednetGetWithInterfaces(enc)
			c.Eval()
			c.Count("roundtrip_sentinel_cases", 1)
			if err == nil || got != nil {
				c.Violation("C26:roundtrip:missing-credentials-decoded-as-present", map[string]interface{}{"encoded": enc, "decoded": fmt.Sprintf("%+v", got)})
			}
		}
	}
	// information only: a socket path containing ';' (outside the assumption)
	for _, sock := range []string{"/run/a;b", "/run/x;iface=snap-refresh-observe", ";"} {
		u := &ucrednet{Pid: 7, Uid: 7, Socket: sock}
		got, ifs, err := ucrednetGetWithInterfaces(u.String())
		switch {
		case err != nil:
			c.Count("info_semicolon_socket_rejected", 1)
		case got != nil && (*got != *u || len(ifs) > 0):
			c.Count("info_semicolon_socket_altered", 1)
		}
	}
}

// ---- end to end over real sockets ----------------------------------------------------------------

func (h *c26H) endToEnd() {
	if h.only >= 0 {
		return
	}
	c := h.c
	if err := os.MkdirAll(filepath.Dir(dirs.SnapdSocket), 0755); err != nil {
		c.Inconclusive("e2e: " + err.Error())
		return
	}
	var curPid int32
	var curUid uint32
	oldGet := getUcred
	getUcred = func(fd, level, opt int) (*sys.Ucred, error) {
		h.mu.Lock()
		defer h.mu.Unlock()
		return &sys.Ucred{Pid: curPid, Uid: curUid, Gid: curUid}, nil
	}
	defer func() { getUcred = oldGet }()

	type sockT struct {
		class, netw, addr string
		cli               *http.Client
	}
	socks := []*sockT{
		{class: "main", netw: "unix", addr: dirs.SnapdSocket},
		{class: "snap", netw: "unix", addr: dirs.SnapSocket},
		{class: "other", netw: "unix", addr: filepath.Join(filepath.Dir(dirs.SnapdSocket), "other.socket")},
		{class: "tcp", netw: "tcp", addr: "127.0.0.1:0"},
	}
	srv := &http.Server{Handler: logit(h.d.router)}
	defer srv.Close()
	var live []*sockT
	for _, s := range socks {
		l, err := net.Listen(s.netw, s.addr)
		if err != nil {
			if s.netw == "tcp" {
				c.Count("info_e2e_tcp_unavailable", 1)
				continue
			}
			c.Inconclusive(fmt.Sprintf("e2e: cannot listen on %s: %v", s.addr, err))
			return
		}
		dialAddr := l.Addr().String()
		netw := s.netw
		s.cli = &http.Client{Transport: &http.Transport{DisableKeepAlives: true,
			DialContext: func(ctx context.Context, _, _ string) (net.Conn, error) { return net.Dial(netw, dialAddr) }}}
		wl := &ucrednetListener{Listener: l}
		go srv.Serve(wl)
		live = append(live, s)
	}

	_, reduced := h.scenarios()
	for _, scn := range reduced[:2] {
		h.setConns(scn.name, scn.conns, scn.absent)
		for _, s := range live {
			for _, uid := range []uint32{0, 1000} {
				for _, user := range [][2]string{{"none", ""}, {"valid", h.validHdr}} {
					for _, pk := range []string{"no", "yes"} {
						for _, ep := range h.eps {
							// the real router decides which command gets the request
							probe := &http.Request{Method: ep.Method, URL: ep.url, Host: "localhost"}
							var m mux.RouteMatch
							if !h.d.router.Match(probe, &m) || m.Handler != http.Handler(ep.cmd) {
								c.Count("info_e2e_path_routed_elsewhere", 1)
								continue
							}
							cl := &c26Caller{AddrKind: "e2e:" + s.class, UserKind: user[0], authHdr: user[1], Polkit: pk, ConnKind: scn.name, Conns: scn.conns}
							cl.truth = c26Truth{Creds: s.class != "tcp", Socket: s.class, Pid: c26PidSnap, Uid: uint64(uid), SockPath: s.addr,
								LoggedIn: user[0] == "valid", Polkit: pk, Snap: c26CallerSnap, Conns: scn.conns}
							if s.class == "tcp" {
								cl.truth.Socket = "other"
							}
							cl.Addr = fmt.Sprintf("(real connection on %s as pid %d uid %d)", s.addr, c26PidSnap, uid)
							h.mu.Lock()
							curPid, curUid = c26PidSnap, uid
							h.cur = cl
							h.ran = h.ran[:0]
							h.polkitCalls = h.polkitCalls[:0]
							h.mu.Unlock()
							req, err := http.NewRequest(ep.Method, "http://localhost"+ep.url.Path, nil)
							if err != nil {
								c.Inconclusive("e2e: " + err.Error())
								return
							}
							if user[1] != "" {
								req.Header.Set("Authorization", user[1])
							}
							req.Header.Set(client.AllowInteractionHeader, "true")
							rsp, err := s.cli.Do(req)
							if err != nil {
								c.Inconclusive(fmt.Sprintf("e2e: request failed on %s: %v", s.addr, err))
								return
							}
							io.Copy(io.Discard, rsp.Body)
							rsp.Body.Close()
							c.Count("e2e_requests", 1)
							// the handler-side address check in judge compares with cl.Addr when nothing is attached
							h.mu.Lock()
							if len(h.ran) > 0 && cl.truth.Creds {
								cl.Addr = c26RefFormat(c26PidSnap, uint64(uid), s.addr)
							}
							h.mu.Unlock()
							h.caseIdx++
							h.judge(ep, cl, h.caseIdx-1, rsp.StatusCode, nil, kit.Sig("e2e", ep.Idx, ep.Method, s.class, uid, user[0], pk, scn.name), "")
						}
					}
				}
			}
		}
	}
}
