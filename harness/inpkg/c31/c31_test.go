// C31 — a downloaded snap is only kept if its digest matches.
//
// Compiled into package store so that the retry strategy and the speed-monitor
// window can be shortened through the package's own seams
// (MockDownloadRetryStrategy / MockDownloadSpeedParams from export_test.go).
// Everything else is the real Store.Download -> downloadImpl -> doRequest ->
// httputil client talking to a loopback server (c31_server_test.go) that follows
// a per-request fault script. A counting logger.Logger passively records the
// debug messages of the code under test (hash retry, resume, restart).
//
// Oracle, after every Download call (file system only, no clocks):
//
//	nil   => a regular file exists at the target and its SHA3-384 is the declared one
//	error => no file at the target path
//	a ".partial" may only be left behind by a failed call that had
//	LeavePartialOnError set, and then it is non-empty; never after success
package store

import (
	"bytes"
	"context"
	"crypto"
	"errors"
	"fmt"
	"io"
	"net"
	"net/url"
	"os"
	"path/filepath"
	"sort"
	"strings"
	"sync"
	"sync/atomic"
	"syscall"
	"testing"
	"time"

	"gopkg.in/retry.v1"

	"github.com/snapcore/snapd/dirs"
	"github.com/snapcore/snapd/logger"
	"github.com/snapcore/snapd/snap"
	"github.com/snapcore/snapd/testutil"

	kit "verifkit"
)

// ---------------------------------------------------------------- cases ----

type c31Case struct {
	Index    int      `json:"case_index"`
	Family   string   `json:"family"`
	Size     int      `json:"content_size"`
	Partial  string   `json:"partial"`
	Declared bool     `json:"size_declared"`
	Leave    string   `json:"leave_partial_on_error"` // "nil-opts" | "false" | "true"
	Script   []string `json:"script"`
	Slow     bool     `json:"slow_phase,omitempty"`

	script []c31Beh
}

func c31B(s string) c31Beh {
	b := c31Beh{Head: s}
	if i := strings.IndexByte(s, '+'); i >= 0 {
		b.Head = s[:i]
		rest := s[i+1:]
		b.Fault = rest
		if j := strings.IndexByte(rest, '@'); j >= 0 {
			b.Fault, b.Pos = rest[:j], rest[j+1:]
		}
	}
	return b
}

var c31BodyHeads = []string{"ok", "ignore", "w206z", "w206s"}

// every fault x position used by the systematic enumerations
var c31Faults = []string{"", "cl@0", "cl@1", "cl@h", "cl@l", "short@h", "short@l", "chunk@0", "chunk@h",
	"eof@h", "eof@l", "flip@0", "flip@h", "flip@l", "reset@h", "extra@1", "extra@h"}

var c31Bodiless = []string{"416", "500", "404", "402", "redirect", "drop"}

// full alphabet: 4 heads x 17 faults + 6 bodiless = 74 behaviours
func c31AlphabetFull() []string {
	var a []string
	for _, h := range c31BodyHeads {
		for _, f := range c31Faults {
			if f == "" {
				a = append(a, h)
			} else {
				a = append(a, h+"+"+f)
			}
		}
	}
	return append(a, c31Bodiless...)
}

// core alphabet for pairs
var c31AlphabetCore = []string{"ok", "ignore", "w206z", "w206s", "416", "500", "redirect", "drop",
	"ok+cl@h", "ok+cl@1", "ok+flip@h", "ok+eof@h", "ok+reset@h", "ok+extra@h",
	"ignore+cl@h", "ignore+flip@h", "w206z+cl@h", "w206z+cl@l", "ok+short@h", "ignore+eof@h"}

// small alphabet for triples
var c31AlphabetSmall = []string{"ok", "ignore", "500", "ok+cl@h", "ok+flip@h", "w206z+cl@h", "ignore+cl@1", "ok+eof@h", "drop"}

// pre-existing partial files; see c31BuildPartial
var c31Partials = []string{"none", "empty", "cp@1", "cp@h", "cp@l", "wp@1:first", "wp@h:first", "wp@h:last", "wp@l:all",
	"full-c", "full-w:first", "full-w:last", "over-c+1", "over-c+100", "over-w+100"}

var c31PartialClasses = []string{"none", "empty", "cp@h", "cp@l", "wp@h:last", "full-c", "full-w:first", "over-c+100"}

// c31Corrupt damages b in place.
func c31Corrupt(b []byte, mode string) []byte {
	if len(b) == 0 {
		return b
	}
	switch mode {
	case "first":
		b[0] ^= 0xff
	case "last":
		b[len(b)-1] ^= 0xff
	case "mid":
		b[len(b)/2] ^= 0xff
	default: // all
		for i := range b {
			b[i] ^= 0x5a
		}
	}
	return b
}

// c31BuildPartial returns the bytes of the pre-existing .partial file (exists
// false: no file), built in buf's storage (fresh megabyte allocations are very
// slow under the race detector, so every worker reuses one buffer).
func c31BuildPartial(buf []byte, spec string, content []byte) (b []byte, exists bool) {
	L := len(content)
	mode := ""
	if i := strings.IndexByte(spec, ':'); i >= 0 {
		spec, mode = spec[:i], spec[i+1:]
	}
	buf = buf[:0]
	junk := func(b []byte, k int) []byte {
		for i := 0; i < k; i++ {
			b = append(b, byte(0x3c+7*i))
		}
		return b
	}
	switch {
	case spec == "none":
		return nil, false
	case spec == "empty":
		return buf, true
	case strings.HasPrefix(spec, "cp@"):
		return append(buf, content[:c31Pos(spec[3:], L)]...), true
	case strings.HasPrefix(spec, "wp@"):
		return c31Corrupt(append(buf, content[:c31Pos(spec[3:], L)]...), mode), true
	case spec == "full-c":
		return append(buf, content...), true
	case spec == "full-w":
		return c31Corrupt(append(buf, content...), mode), true
	case strings.HasPrefix(spec, "over-c+"):
		k := 1
		if spec != "over-c+1" {
			k = 100
		}
		return junk(append(buf, content...), k), true
	case strings.HasPrefix(spec, "over-w+"):
		return junk(c31Corrupt(append(buf, content...), "first"), 100), true
	}
	panic("c31: bad partial spec " + spec)
}

// c31PartialClass classifies the actual bytes against the content.
func c31PartialClass(b []byte, exists bool, content []byte) string {
	L := len(content)
	switch {
	case !exists:
		return "none"
	case len(b) == 0 && L > 0:
		return "empty"
	case len(b) > L:
		return "over-long"
	case len(b) == L:
		if bytes.Equal(b, content) {
			return "full-correct"
		}
		return "full-wrong"
	case bytes.Equal(b, content[:len(b)]):
		return "correct-prefix"
	}
	return "wrong-prefix"
}

// c31ValidPartials drops specs that collapse onto another one for this content
// length (e.g. every prefix of a 1-byte content).
func c31ValidPartials(specs []string, content []byte) []string {
	seen := map[string]bool{}
	var out []string
	for _, s := range specs {
		b, ex := c31BuildPartial(nil, s, content)
		k := fmt.Sprintf("%v/%x", ex, b)
		if len(b) > 256 {
			k = fmt.Sprintf("%v/%d/%s", ex, len(b), kit.Sig(string(b)))
		}
		if seen[k] {
			continue
		}
		seen[k] = true
		out = append(out, s)
	}
	return out
}

type c31Gen struct {
	cases    []*c31Case
	contents map[int][]byte
	enumIdx  int
}

func (g *c31Gen) add(family string, size int, partial string, declared bool, leave string, script []string) {
	cs := &c31Case{Index: len(g.cases), Family: family, Size: size, Partial: partial, Declared: declared, Leave: leave, Script: script}
	for _, s := range script {
		b := c31B(s)
		if b.Fault == "slow" {
			cs.Slow = true
		}
		cs.script = append(cs.script, b)
	}
	g.cases = append(g.cases, cs)
}

// take implements sharding and the quick-tier slicing of the systematic
// enumerations: enumeration element k is executed by shard k%n, and in a
// 1-in-stride slice selected by the seed.
func (g *c31Gen) take(stride int) bool {
	k := g.enumIdx
	g.enumIdx++
	i, n := kit.Shard()
	if k%n != i {
		return false
	}
	k /= n
	if stride > 1 {
		// seed-keyed mix so that a slice is spread over all loop dimensions
		x := uint64(k)*0x9E3779B97F4A7C15 + uint64(kit.Seed())*0xC2B2AE3D27D4EB4F
		x ^= x >> 29
		x *= 0xBF58476D1CE4E5B9
		x ^= x >> 32
		if x%uint64(stride) != 0 {
			return false
		}
	}
	return true
}

func c31Leave(k int) string { return []string{"nil-opts", "true", "false"}[k%3] }

func c31BuildCases() *c31Gen {
	g := &c31Gen{contents: map[int][]byte{}}
	for _, sz := range []int{0, 1, 4096, 1 << 20} {
		b := make([]byte, sz)
		r := kit.NewRand(fmt.Sprintf("c31-content-%d", sz))
		r.Read(b)
		g.contents[sz] = b
	}
	full := c31AlphabetFull()
	quick := kit.Quick()
	st := func(q, t int) int {
		if quick {
			return q
		}
		return t
	}

	// E1: every single scripted behaviour x every partial x Size declared/unknown,
	// 4 KiB; LeavePartialOnError cycles nil-opts/true/false with the partial
	p4k := c31ValidPartials(c31Partials, g.contents[4096])
	for bi, b := range full {
		for pi, p := range p4k {
			for di, decl := range []bool{true, false} {
				if g.take(1) {
					g.add("E1-single", 4096, p, decl, c31Leave(bi+pi+di), []string{b})
				}
			}
		}
	}
	// E1b: the other LeavePartialOnError values for every behaviour, on the
	// partial classes
	for bi, b := range full {
		for pi, p := range c31PartialClasses {
			for k := 1; k <= 2; k++ {
				if g.take(st(4, 1)) {
					g.add("E1b-single-leave", 4096, p, (bi+pi+k)%2 == 0, c31Leave(bi+pi+k), []string{b})
				}
			}
		}
	}
	// E2: pairs over the core alphabet x every partial x declared/unknown
	for ai, a := range c31AlphabetCore {
		for bi, b := range c31AlphabetCore {
			for pi, p := range p4k {
				for di, decl := range []bool{true, false} {
					if g.take(st(12, 1)) {
						g.add("E2-pair", 4096, p, decl, c31Leave(ai+bi+pi+di), []string{a, b})
					}
				}
			}
		}
	}
	// E2f (thorough): a seed-selected half of all pairs over the FULL alphabet x
	// partial classes (Size declared in 3 of 4)
	if !quick {
		for ai, a := range full {
			for bi, b := range full {
				for pi, p := range c31PartialClasses {
					if g.take(2) {
						g.add("E2f-pair-full", 4096, p, (ai+bi+pi)%4 != 0, c31Leave(ai+bi+pi), []string{a, b})
					}
				}
			}
		}
	}
	// E3: triples over the small alphabet x partial classes x declared/unknown
	for ai, a := range c31AlphabetSmall {
		for bi, b := range c31AlphabetSmall {
			for ci, c := range c31AlphabetSmall {
				for pi, p := range c31PartialClasses {
					for di, decl := range []bool{true, false} {
						if g.take(st(30, 1)) {
							g.add("E3-triple", 4096, p, decl, c31Leave(ai+bi+ci+pi+di), []string{a, b, c})
						}
					}
				}
			}
		}
	}
	// E4: content sizes 0 and 1: every behaviour x every distinct partial
	for _, sz := range []int{0, 1} {
		ps := c31ValidPartials(c31Partials, g.contents[sz])
		for bi, b := range full {
			for pi, p := range ps {
				for di, decl := range []bool{true, false} {
					if sz == 0 && decl {
						continue // a declared size of 0 IS "unknown"
					}
					if g.take(st(4, 1)) {
						g.add(fmt.Sprintf("E4-size%d", sz), sz, p, decl, c31Leave(bi+pi+di), []string{b})
					}
				}
			}
		}
	}
	// E5: 1 MiB: core behaviours x partial classes
	for bi, b := range c31AlphabetCore {
		for pi, p := range c31PartialClasses {
			for di, decl := range []bool{true, false} {
				if g.take(st(16, 1)) {
					g.add("E5-1MiB", 1<<20, p, decl, c31Leave(bi+pi+di), []string{b})
				}
			}
		}
	}
	// R: seeded random longer scripts (3..8 requests), random positions,
	// random partial lengths/corruption
	nrand := kit.Scale(600, 3000)
	heads := []string{"ok", "ok", "ok", "ignore", "ignore", "w206z", "w206s", "416", "500", "503", "redirect", "drop", "404"}
	faults := []string{"", "", "cl", "cl", "short", "chunk", "eof", "flip", "flip", "reset", "extra"}
	for k := 0; k < nrand; k++ {
		r := kit.CaseRand("c31-random", k)
		sz := []int{4096, 4096, 4096, 4096, 4096, 4096, 1, 0, 1 << 20}[r.Intn(9)]
		if sz == 1<<20 && r.Intn(3) != 0 {
			sz = 4096
		}
		n := 3 + r.Intn(6)
		var sc []string
		for i := 0; i < n; i++ {
			h := heads[r.Intn(len(heads))]
			b := c31Beh{Head: h}
			if b.hasBody() {
				if f := faults[r.Intn(len(faults))]; f != "" {
					b.Fault = f
					b.Pos = fmt.Sprintf("p%d", r.Intn(1001))
					if f == "extra" {
						b.Pos = []string{"1", "h"}[r.Intn(2)]
					}
				}
			}
			sc = append(sc, b.String())
		}
		var p string
		switch r.Intn(10) {
		case 0:
			p = "none"
		case 1:
			p = "empty"
		case 2, 3:
			p = fmt.Sprintf("cp@p%d", r.Intn(1000))
		case 4, 5:
			p = fmt.Sprintf("wp@p%d:%s", 1+r.Intn(999), []string{"first", "last", "mid", "all"}[r.Intn(4)])
		case 6:
			p = "full-c"
		case 7:
			p = "full-w:" + []string{"first", "last", "mid", "all"}[r.Intn(4)]
		case 8:
			p = []string{"over-c+1", "over-c+100"}[r.Intn(2)]
		default:
			p = "over-w+100"
		}
		decl := r.Intn(3) != 0 && sz != 0
		g.add("R-random", sz, p, decl, c31Leave(r.Intn(3)), sc)
	}
	// S: slow bodies (speed monitor with a shortened window), run in their own
	// sequential phase
	k := 0
	for _, sc := range [][]string{{"ok+slow@h"}, {"ignore+slow@1"}, {"ok+slow@0"}, {"ok+cl@h", "ok+slow@h"}, {"ok+flip@h", "ok+slow@h"},
		{"w206z+slow@l"}, {"500", "ok+slow@h"}, {"redirect", "ok+slow@1"}} {
		for _, p := range []string{"none", "cp@h", "wp@h:last", "over-c+100"} {
			for _, decl := range []bool{true, false} {
				k++
				if g.take(st(4, 1)) {
					g.add("S-slow", 4096, p, decl, c31Leave(k), sc)
				}
			}
		}
	}
	return g
}

// ------------------------------------------------------------- monitors ----

// c31Logger passively counts the debug messages of the download code.
type c31Logger struct {
	hashRetry, noResume, resuming, started, succeeded, failed int64
}

func (l *c31Logger) Notice(msg string)       {}
func (l *c31Logger) NoGuardDebug(msg string) {}
func (l *c31Logger) Debug(msg string) {
	switch {
	case strings.HasPrefix(msg, "Hashsum error on download"):
		atomic.AddInt64(&l.hashRetry, 1)
	case strings.HasPrefix(msg, "server does not support resume"):
		atomic.AddInt64(&l.noResume, 1)
	case strings.HasPrefix(msg, "Resuming download of"):
		atomic.AddInt64(&l.resuming, 1)
	case strings.HasPrefix(msg, "Starting download of"):
		atomic.AddInt64(&l.started, 1)
	case strings.HasPrefix(msg, "Download succeeded in"):
		atomic.AddInt64(&l.succeeded, 1)
	case strings.HasPrefix(msg, "download of ") && strings.Contains(msg, " failed: "):
		atomic.AddInt64(&l.failed, 1)
	}
}

func c31ErrClass(err error) string {
	var he HashError
	var de *DownloadError
	var se *transferSpeedError
	var ue *url.Error
	var oe *net.OpError
	switch {
	case errors.As(err, &he):
		return "hash_error"
	case errors.As(err, &de):
		return fmt.Sprintf("http_%d", de.Code)
	case errors.As(err, &se):
		return "too_slow"
	case strings.Contains(err.Error(), "please buy"):
		return "http_402"
	case strings.Contains(err.Error(), "has been cancelled"):
		return "cancelled"
	case strings.Contains(err.Error(), "resume offset wrong"):
		return "resume_offset_wrong"
	case err == io.ErrUnexpectedEOF || strings.HasSuffix(err.Error(), "unexpected EOF"):
		return "net_unexpected_eof"
	case errors.As(err, &oe):
		if errors.Is(err, syscall.ECONNRESET) {
			return "net_reset"
		}
		return "net_op_error"
	case errors.As(err, &ue):
		if ue.Err == io.EOF {
			return "net_eof"
		}
		if strings.Contains(err.Error(), "redirects") {
			return "redirect_limit"
		}
		return "net_url_error"
	}
	return "other"
}

func c31Digest(b []byte) string {
	h := crypto.SHA3_384.New()
	h.Write(b)
	return fmt.Sprintf("%x", h.Sum(nil))
}

type c31Worker struct {
	c    *kit.Check
	g    *c31Gen
	srv  *c31Server
	sto  *Store
	dir  string
	dig  map[int]string
	othr *sync.Map
	pbuf []byte // storage for the pre-existing partial
	cbuf []byte // copy buffer for hashing the target
}

// c31FileDigest streams a file through SHA3-384 with the worker's buffer.
func (w *c31Worker) fileDigest(path string) (string, int64) {
	f, err := os.Open(path)
	if err != nil {
		return "unreadable: " + err.Error(), -1
	}
	defer f.Close()
	h := crypto.SHA3_384.New()
	n, err := io.CopyBuffer(h, struct{ io.Reader }{f}, w.cbuf)
	if err != nil {
		return "unreadable: " + err.Error(), n
	}
	return fmt.Sprintf("%x", h.Sum(nil)), n
}

func (w *c31Worker) run(cs *c31Case) {
	c := w.c
	content := w.g.contents[cs.Size]
	expected := w.dig[cs.Size]
	target := filepath.Join(w.dir, fmt.Sprintf("foo_%d.snap", cs.Index))
	partialPath := target + ".partial"
	os.Remove(target)
	os.Remove(partialPath)

	pb, pexists := c31BuildPartial(w.pbuf, cs.Partial, content)
	if pexists {
		if err := os.WriteFile(partialPath, pb, 0600); err != nil {
			c.Inconclusive("cannot write partial: " + err.Error())
			return
		}
	}
	pclass := c31PartialClass(pb, pexists, content)

	prefix := fmt.Sprintf("/c%d/", cs.Index)
	w.srv.begin(prefix, content, cs.script)
	info := &snap.DownloadInfo{
		DownloadURL: w.srv.srv.URL + prefix + "foo.snap",
		Sha3_384:    expected,
	}
	if cs.Declared {
		info.Size = int64(len(content))
	}
	var opts *DownloadOptions
	switch cs.Leave {
	case "true":
		opts = &DownloadOptions{LeavePartialOnError: true}
	case "false":
		opts = &DownloadOptions{}
	}

	err := w.sto.Download(context.Background(), "foo", target, info, nil, nil, opts)

	reqs := w.srv.end()
	c.Eval()

	// ---- observe -----------------------------------------------------------
	tst, terr := os.Lstat(target)
	targetPresent := terr == nil
	targetRegular := targetPresent && tst.Mode().IsRegular()
	tdig, tlen := "", int64(-1)
	if targetRegular {
		tdig, tlen = w.fileDigest(target)
	}
	pst, perr := os.Lstat(partialPath)
	partialLeft := perr == nil
	defer func() {
		os.Remove(target)
		os.Remove(partialPath)
	}()

	errStr := ""
	if err != nil {
		errStr = err.Error()
	}
	// a Range request that was not answered with 206 makes downloadImpl start
	// over from offset 0 of the file
	rangeNotHonoured := false
	for _, q := range reqs {
		if q.Range != "" && q.Status != 206 {
			rangeNotHonoured = true
		}
	}
	witness := func() map[string]interface{} {
		m := map[string]interface{}{
			"case_index": cs.Index, "case": cs, "partial_class": pclass, "partial_len": len(pb),
			"download_error": errStr, "requests": reqs, "expected_sha3_384": expected,
			"target_present": targetPresent, "partial_left": partialLeft,
		}
		if targetPresent {
			m["target_len"] = tlen
			m["target_sha3_384"] = tdig
		}
		if partialLeft {
			m["partial_left_len"] = pst.Size()
		}
		return m
	}
	declTag := "size-unknown"
	if cs.Declared {
		declTag = "size-declared"
	}

	// ---- oracle ------------------------------------------------------------
	if err == nil {
		c.Count("downloads_ok", 1)
		switch {
		case !targetPresent:
			c.Violation("C31:nil-but-no-target", witness())
		case !targetRegular:
			c.Violation("C31:nil-but-target-not-regular", witness())
		default:
			c.Count("oracle_target_digests_compared", 1)
			if tdig != expected {
				// rare path: read the file to describe how it differs
				tgt, _ := os.ReadFile(target)
				shape := "other"
				L := len(content)
				switch {
				case len(tgt) > L && bytes.Equal(tgt[:L], content):
					// the right content followed by bytes that were in the
					// file before the last (re)start from offset 0
					shape = "stale-tail:fresh-restart"
					if rangeNotHonoured {
						shape = "stale-tail:range-not-honoured"
					}
				case len(tgt) < L && bytes.Equal(tgt, content[:len(tgt)]):
					shape = "truncated"
				case len(tgt) == L:
					shape = "same-length-corrupt"
				}
				c.Violation("C31:kept-wrong-digest:"+shape+":"+declTag, witness())
			}
		}
		if partialLeft {
			c.Violation("C31:partial-left:after-success", witness())
		}
	} else {
		cls := c31ErrClass(err)
		c.Count("downloads_failed", 1)
		c.Count("failed_"+cls, 1)
		if cls == "other" {
			if _, loaded := w.othr.LoadOrStore(errStr, true); !loaded {
				c.Count("distinct_other_error_strings", 1)
			}
		}
		c.Count("oracle_error_target_absence_checked", 1)
		if targetPresent {
			sub := "digest-wrong"
			if targetRegular && tdig == expected {
				sub = "digest-ok"
			}
			c.Violation("C31:error-but-target-present:"+sub, witness())
		}
		if partialLeft {
			switch {
			case cs.Leave != "true":
				c.Violation("C31:partial-left:without-leave-partial-on-error", witness())
			case pst.Size() == 0:
				c.Violation("C31:partial-left:empty", witness())
			default:
				c.Count("partial_left_with_optin", 1)
			}
		} else {
			c.Count("partial_removed_after_error", 1)
		}
	}

	// ---- what the monitors saw ----------------------------------------------
	faulty := false
	ranges, honoured := 0, 0
	for _, q := range reqs {
		c.Count("requests_served", 1)
		b := c31B(q.Beh)
		name := "served_" + b.Head
		if b.Fault != "" && b.hasBody() && (q.Status == 200 || q.Status == 206) {
			name += "+" + b.Fault
		}
		c.Count(name, 1)
		c.Count(fmt.Sprintf("status_%d", q.Status), 1)
		if !q.Scripted {
			c.Count("requests_after_script_end", 1)
		}
		if q.Range != "" {
			ranges++
			if q.Status == 206 && b.Head == "ok" {
				honoured++
			}
			if q.Status == 200 {
				c.Count("range_ignored_with_200", 1)
			}
		}
		if q.Beh != "ok" {
			faulty = true
		}
		if q.Note != "" {
			c.Count("server_notes", 1)
		}
	}
	c.Count("range_requests_seen", ranges)
	c.Count("range_requests_honoured", honoured)
	c.Max("max_requests_per_download", len(reqs))
	c.Count("partial_"+pclass, 1)
	c.Count(fmt.Sprintf("content_size_%d", cs.Size), 1)
	c.Count("family_"+cs.Family, 1)
	if len(reqs) == 0 {
		c.Count("downloads_without_any_request", 1)
	}
	if err == nil && faulty {
		c.Count("downloads_ok_despite_faults", 1)
	}
	if faulty || (pexists && len(pb) > 0) {
		c.Nontrivial(kit.Sig(cs.Size, cs.Partial, cs.Declared, cs.Leave, strings.Join(cs.Script, " ")))
	}
	out := "ok"
	if err != nil {
		out = c31ErrClass(err)
	}
	debug := os.Getenv("VERIF_C31_DEBUG") != ""
	if cs.Index%97 == 0 || cs.Slow || debug {
		served := []string{}
		for _, q := range reqs {
			served = append(served, fmt.Sprintf("%s[%s]->%d/%dB", q.Beh, q.Range, q.Status, q.Sent))
		}
		c.Sample(map[string]interface{}{"case": cs, "outcome": out, "served": served})
		if debug {
			fmt.Printf("C31-CASE %d %s size=%d partial=%s(%s,%d) declared=%v leave=%s script=%v -> %s target=%v/%d partial_left=%v served=%v\n",
				cs.Index, cs.Family, cs.Size, cs.Partial, pclass, len(pb), cs.Declared, cs.Leave, cs.Script, out, targetPresent, tlen, partialLeft, served)
		}
	}
}

// ----------------------------------------------------------------- test ----

func TestVerifC31(t *testing.T) {
	c := kit.New("C31", "fault_enumeration")
	defer c.Done(t)
	c.Rule("case = (content size 0/1/4KiB/1MiB, pre-existing .partial spec, Size declared or 0, LeavePartialOnError nil/false/true, " +
		"per-request server script; after the script the server behaves correctly). Systematic: every single behaviour of a 74-element alphabet " +
		"(4 heads ok / ignore-Range / 206-from-0 / 206-shifted x 17 body faults, + 416/500/404/402/redirect/drop) x 15 partial files x declared/unknown (all, both tiers); " +
		"pairs over a 20-element core alphabet x 15 partials x 2 and triples over a 9-element alphabet x 8 partial classes x 2 (quick: seed-keyed 1/12 and 1/30 slices; " +
		"thorough: all, plus half of all pairs of the full alphabet x 8 partial classes); sizes 0, 1, 1 MiB; slow bodies; plus seeded random scripts of 3-8 requests with " +
		"random cut/flip positions and random partial lengths. A case is non-trivial when the server served at least one behaviour other than a plain correct reply " +
		"or a non-empty .partial pre-existed; distinct = distinct (size, partial, declared, leave, script)")
	c.Assume("the server is a Go net/http server on loopback; HTTP/1.1 only (no TLS, no HTTP/2 framing faults)")
	c.Assume("delta downloads, the download cache (CacheDownloads=0 as in store.New(nil,nil)) and rate limiting are not exercised; no pre-existing file at the target path")
	c.Assume("retry strategy shortened to 5 attempts x 1 ms through MockDownloadRetryStrategy; speed-monitor window 60 ms / 1 B/s only in the slow-body phase")

	var bt testutil.BaseTest
	defer bt.TearDownTest(nil)
	MockDownloadRetryStrategy(&bt, retry.LimitCount(5, retry.LimitTime(30*time.Second,
		retry.Exponential{Initial: time.Millisecond, Factor: 1})))

	lg := &c31Logger{}
	logger.SetLogger(lg)
	defer logger.SetLogger(logger.NullLogger)

	base := os.Getenv("VERIF_C31_SCRATCH")
	if base == "" {
		base = "/dev/shm"
	}
	root, err := os.MkdirTemp(base, "verif-c31-")
	if err != nil {
		root, err = os.MkdirTemp("", "verif-c31-")
		if err != nil {
			c.Inconclusive("no scratch dir: " + err.Error())
			return
		}
	}
	defer os.RemoveAll(root)
	dirs.SetRootDir(filepath.Join(root, "root"))
	defer dirs.SetRootDir("/")
	os.Setenv("SNAPD_USE_DELTAS_EXPERIMENTAL", "0")

	g := c31BuildCases()
	dig := map[int]string{}
	for sz, b := range g.contents {
		dig[sz] = c31Digest(b)
	}
	only := kit.OnlyCase()
	var fast, slow []*c31Case
	for _, cs := range g.cases {
		if only >= 0 && cs.Index != only {
			continue
		}
		if cs.Slow {
			slow = append(slow, cs)
		} else {
			fast = append(fast, cs)
		}
	}
	if only >= 0 {
		c.MinDistinct(0)
	}

	othr := &sync.Map{}
	newWorker := func(k int) *c31Worker {
		d := filepath.Join(root, fmt.Sprintf("w%d", k))
		os.MkdirAll(d, 0755)
		// New(nil, ...) writes to the package-level default config, so stores
		// are created one after the other, never concurrently
		return &c31Worker{c: c, g: g, srv: newC31Server(), sto: New(nil, nil), dir: d, dig: dig, othr: othr,
			pbuf: make([]byte, 0, 1<<20+256), cbuf: make([]byte, 64<<10)}
	}

	// phase 1: everything but the slow bodies, a few workers in parallel (each
	// with its own Store, server and directory); default speed-monitor window
	nw := 4
	if v := os.Getenv("VERIF_C31_WORKERS"); v != "" {
		fmt.Sscanf(v, "%d", &nw)
	}
	ch := make(chan *c31Case)
	var wg sync.WaitGroup
	stale := int64(0)
	for k := 0; k < nw; k++ {
		wg.Add(1)
		w := newWorker(k)
		go func() {
			defer wg.Done()
			defer w.srv.close()
			for cs := range ch {
				w.run(cs)
			}
			w.srv.mu.Lock()
			atomic.AddInt64(&stale, int64(w.srv.stale))
			w.srv.mu.Unlock()
		}()
	}
	for _, cs := range fast {
		ch <- cs
	}
	close(ch)
	wg.Wait()

	// phase 2: slow bodies, sequential, with the measurement window shortened
	// through the package's seam. The verdict never depends on whether the
	// monitor fired, only on the files afterwards.
	if len(slow) > 0 {
		restore := MockDownloadSpeedParams(60*time.Millisecond, 1)
		w := newWorker(99)
		for _, cs := range slow {
			w.run(cs)
		}
		w.srv.close()
		restore()
	}

	c.Count("stale_requests_ignored", int(stale))
	c.Count("log_hash_mismatch_then_restart", int(atomic.LoadInt64(&lg.hashRetry)))
	c.Count("log_server_does_not_support_resume", int(atomic.LoadInt64(&lg.noResume)))
	c.Count("log_resuming_from_partial", int(atomic.LoadInt64(&lg.resuming)))
	c.Count("log_starting_fresh", int(atomic.LoadInt64(&lg.started)))
	c.Count("log_download_attempt_succeeded", int(atomic.LoadInt64(&lg.succeeded)))
	c.Count("log_download_call_failed", int(atomic.LoadInt64(&lg.failed)))
	var other []string
	othr.Range(func(k, v interface{}) bool { other = append(other, k.(string)); return len(other) < 12 })
	sort.Strings(other)
	if len(other) > 0 {
		c.Note("unclassified_error_strings", other)
	}
	if only < 0 {
		c.Floor("downloads_ok", 300)
		c.Floor("downloads_failed", 100)
		c.Floor("failed_hash_error", 20)
		c.Floor("range_requests_seen", 300)
		c.Floor("range_requests_honoured", 100)
		c.Floor("range_ignored_with_200", 50)
		c.Floor("log_hash_mismatch_then_restart", 100)
		c.Floor("log_server_does_not_support_resume", 100)
		c.Floor("downloads_ok_despite_faults", 200)
		c.Floor("oracle_target_digests_compared", 300)
		c.Floor("oracle_error_target_absence_checked", 100)
		c.Floor("partial_left_with_optin", 5)
		for _, p := range []string{"none", "empty", "correct-prefix", "wrong-prefix", "full-correct", "full-wrong", "over-long"} {
			c.Floor("partial_"+p, 20)
		}
	}
}
