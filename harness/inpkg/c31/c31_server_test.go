// C31 harness, server side: a loopback httptest.Server whose behaviour for the
// n-th request of the current case is taken from the case's script. It is the
// hostile half of the workload ("whatever the server does"); nothing here
// touches snapd code.
package store

import (
	"fmt"
	"io"
	"log"
	"net"
	"net/http"
	"net/http/httptest"
	"strconv"
	"strings"
	"sync"
	"time"
)

// c31Beh is the behaviour of the server for ONE incoming request.
//
// Head decides status and which part of the content forms the body:
//
//	ok       honour Range: 206 from the requested offset (416 if the offset is
//	         >= the content length), 200 with everything when no Range was sent
//	ignore   ignore Range: 200 with the content from byte 0
//	w206z    206 whose body starts at byte 0 whatever was asked (wrong Content-Range)
//	w206s    206 whose body starts one byte after the requested offset
//	416 500 503 404 402   bodiless status
//	redirect 302 to another path on the same server (next request = next script entry)
//	drop     close the connection without sending a response
//
// Fault (body-bearing heads only) decides how the body is corrupted/transported;
// Pos places it ("0", "1", "h" = half, "l" = length-1, or "pNNN" = permille of
// the body):
//
//	cl     Content-Length of the whole body, Pos bytes sent, connection closed
//	short  Content-Length = Pos and exactly Pos bytes sent (clean short reply)
//	chunk  chunked body aborted after Pos bytes (no terminating chunk)
//	eof    no Content-Length, Connection: close, body delimited by EOF after Pos bytes
//	flip   one byte of the body at Pos inverted
//	reset  Pos bytes sent, then TCP RST
//	extra  Pos ("1"/"h" = 100) junk bytes appended after the body
//	slow   Pos bytes sent, then the server stalls until the client gives up
type c31Beh struct {
	Head  string `json:"head"`
	Fault string `json:"fault,omitempty"`
	Pos   string `json:"pos,omitempty"`
}

func (b c31Beh) String() string {
	if b.Fault == "" {
		return b.Head
	}
	return b.Head + "+" + b.Fault + "@" + b.Pos
}

func (b c31Beh) hasBody() bool {
	switch b.Head {
	case "ok", "ignore", "w206z", "w206s":
		return true
	}
	return false
}

// c31Pos resolves a symbolic position against a length n.
func c31Pos(pos string, n int) int {
	switch pos {
	case "", "0":
		return 0
	case "1":
		if n < 1 {
			return n
		}
		return 1
	case "h":
		return n / 2
	case "l":
		if n < 1 {
			return 0
		}
		return n - 1
	}
	if strings.HasPrefix(pos, "p") {
		if pm, err := strconv.Atoi(pos[1:]); err == nil {
			return int(int64(n) * int64(pm) / 1000)
		}
	}
	return 0
}

// c31Req is what the server saw and did for one request (witness + counters).
type c31Req struct {
	N        int    `json:"n"`
	Path     string `json:"path"`
	Range    string `json:"range,omitempty"`
	Beh      string `json:"behaviour"`
	Scripted bool   `json:"scripted"`
	Status   int    `json:"status"`
	From     int    `json:"body_from"`
	BodyLen  int    `json:"body_len"`
	Sent     int    `json:"sent"`
	Note     string `json:"note,omitempty"`
}

type c31Server struct {
	srv *httptest.Server

	mu      sync.Mutex
	prefix  string // "/c<index>/" of the current case
	content []byte
	script  []c31Beh
	n       int
	reqs    []c31Req
	done    chan struct{}
	wg      sync.WaitGroup
	stale   int
}

func newC31Server() *c31Server {
	ss := &c31Server{}
	ss.srv = httptest.NewUnstartedServer(http.HandlerFunc(ss.serve))
	ss.srv.Config.ErrorLog = log.New(io.Discard, "", 0)
	// downloadImpl builds a fresh http.Client (and transport) per attempt, so
	// connections are never reused by the code under test anyway; closing them
	// on the server side keeps the number of open descriptors flat.
	ss.srv.Config.SetKeepAlivesEnabled(false)
	ss.srv.Start()
	return ss
}

func (ss *c31Server) close() { ss.srv.Close() }

func (ss *c31Server) begin(prefix string, content []byte, script []c31Beh) {
	ss.mu.Lock()
	ss.prefix = prefix
	ss.content = content
	ss.script = script
	ss.n = 0
	ss.reqs = nil
	ss.done = make(chan struct{})
	ss.mu.Unlock()
}

// end releases stalled handlers, waits for every handler of the case and
// returns the request log.
func (ss *c31Server) end() []c31Req {
	ss.mu.Lock()
	close(ss.done)
	// from here on late requests count as stale and never touch the WaitGroup
	ss.prefix = "\x00"
	ss.mu.Unlock()
	ss.wg.Wait()
	ss.mu.Lock()
	defer ss.mu.Unlock()
	reqs := ss.reqs
	ss.reqs = nil
	return reqs
}

func (ss *c31Server) record(slot int, f func(r *c31Req)) {
	ss.mu.Lock()
	if slot < len(ss.reqs) {
		f(&ss.reqs[slot])
	}
	ss.mu.Unlock()
}

func c31ParseRange(h string) (int, bool) {
	if !strings.HasPrefix(h, "bytes=") || !strings.HasSuffix(h, "-") {
		return 0, false
	}
	n, err := strconv.Atoi(h[len("bytes=") : len(h)-1])
	if err != nil || n < 0 {
		return 0, false
	}
	return n, true
}

func (ss *c31Server) serve(w http.ResponseWriter, r *http.Request) {
	ss.mu.Lock()
	if !strings.HasPrefix(r.URL.Path, ss.prefix) {
		// a request that does not belong to the current case
		ss.stale++
		ss.mu.Unlock()
		http.Error(w, "stale", http.StatusGone)
		return
	}
	n := ss.n
	ss.n++
	beh := c31Beh{Head: "ok"}
	scripted := n < len(ss.script)
	if scripted {
		beh = ss.script[n]
	}
	content := ss.content
	done := ss.done
	slot := len(ss.reqs)
	ss.reqs = append(ss.reqs, c31Req{N: n, Path: r.URL.Path, Range: r.Header.Get("Range"), Beh: beh.String(), Scripted: scripted})
	ss.wg.Add(1)
	ss.mu.Unlock()
	defer ss.wg.Done()

	L := len(content)
	off, hasRange := c31ParseRange(r.Header.Get("Range"))

	status := 200
	from := 0
	switch beh.Head {
	case "ok":
		if hasRange {
			if off >= L {
				status = 416
			} else {
				status, from = 206, off
			}
		}
	case "ignore":
	case "w206z":
		status = 206
	case "w206s":
		status = 206
		from = off + 1
		if from > L {
			from = L
		}
	case "416", "500", "503", "404", "402":
		status, _ = strconv.Atoi(beh.Head)
	case "redirect":
		status = 302
	case "drop":
		status = 0
	}
	ss.record(slot, func(q *c31Req) { q.Status = status; q.From = from })

	switch {
	case status == 0:
		if conn, _, err := w.(http.Hijacker).Hijack(); err == nil {
			conn.Close()
		}
		return
	case status == 302:
		w.Header().Set("Location", r.URL.Path+"/r")
		w.WriteHeader(302)
		return
	case status == 416:
		w.Header().Set("Content-Range", fmt.Sprintf("bytes */%d", L))
		w.WriteHeader(416)
		return
	case status != 200 && status != 206:
		http.Error(w, "scripted failure", status)
		return
	}

	// The body is described as segments so that no large buffer is ever
	// copied (fresh megabyte allocations are very slow under the race detector).
	base := content[from:]
	fault, pos := beh.Fault, beh.Pos
	if !beh.hasBody() {
		fault = ""
	}
	segs := [][]byte{base}
	switch fault {
	case "flip":
		if len(base) > 0 {
			p := c31Pos(pos, len(base))
			if p >= len(base) {
				p = len(base) - 1
			}
			segs = [][]byte{base[:p], {base[p] ^ 0xff}, base[p+1:]}
		}
	case "extra":
		k := 1
		if pos != "1" {
			k = 100
		}
		junk := make([]byte, k)
		for i := range junk {
			junk[i] = byte(0xA5 ^ i)
		}
		segs = [][]byte{base, junk}
	}
	bodyLen := 0
	for _, sg := range segs {
		bodyLen += len(sg)
	}
	cut := bodyLen
	switch fault {
	case "cl", "chunk", "reset", "slow":
		// something must be missing, otherwise the reply is simply complete
		cut = c31Pos(pos, bodyLen)
		if cut >= bodyLen && bodyLen > 0 {
			cut = bodyLen - 1
		}
	case "short", "eof":
		cut = c31Pos(pos, bodyLen)
		if cut > bodyLen {
			cut = bodyLen
		}
	}
	ss.record(slot, func(q *c31Req) { q.BodyLen = bodyLen; q.Sent = cut })
	send := func(dst io.Writer) {
		left := cut
		for _, sg := range segs {
			if left <= 0 {
				return
			}
			if len(sg) > left {
				sg = sg[:left]
			}
			dst.Write(sg)
			left -= len(sg)
		}
	}

	h := w.Header()
	h.Set("Content-Type", "application/octet-stream")
	if status == 206 {
		if beh.Head == "ok" {
			h.Set("Content-Range", fmt.Sprintf("bytes %d-%d/%d", from, L-1, L))
		} else {
			// deliberately does not describe the body that follows
			h.Set("Content-Range", fmt.Sprintf("bytes %d-%d/%d", off, L-1, L))
		}
	}

	switch fault {
	case "", "flip", "extra":
		h.Set("Content-Length", strconv.Itoa(bodyLen))
		w.WriteHeader(status)
		send(w)
	case "short":
		h.Set("Content-Length", strconv.Itoa(cut))
		w.WriteHeader(status)
		send(w)
	case "cl":
		h.Set("Content-Length", strconv.Itoa(bodyLen))
		w.WriteHeader(status)
		send(w)
		w.(http.Flusher).Flush()
		panic(http.ErrAbortHandler)
	case "chunk":
		w.WriteHeader(status)
		send(w)
		w.(http.Flusher).Flush()
		panic(http.ErrAbortHandler)
	case "eof":
		conn, bufrw, err := w.(http.Hijacker).Hijack()
		if err != nil {
			ss.record(slot, func(q *c31Req) { q.Note = "hijack: " + err.Error() })
			return
		}
		fmt.Fprintf(bufrw, "HTTP/1.1 %d %s\r\nContent-Type: application/octet-stream\r\n", status, http.StatusText(status))
		if cr := h.Get("Content-Range"); cr != "" {
			fmt.Fprintf(bufrw, "Content-Range: %s\r\n", cr)
		}
		fmt.Fprintf(bufrw, "Connection: close\r\n\r\n")
		send(bufrw)
		bufrw.Flush()
		conn.Close()
	case "reset":
		h.Set("Content-Length", strconv.Itoa(bodyLen))
		w.WriteHeader(status)
		send(w)
		w.(http.Flusher).Flush()
		conn, _, err := w.(http.Hijacker).Hijack()
		if err != nil {
			panic(http.ErrAbortHandler)
		}
		if tc, ok := conn.(*net.TCPConn); ok {
			tc.SetLinger(0)
		}
		conn.Close()
	case "slow":
		h.Set("Content-Length", strconv.Itoa(bodyLen))
		w.WriteHeader(status)
		send(w)
		w.(http.Flusher).Flush()
		// stall: no byte until the client goes away (speed monitor), the
		// case is over, or a generous cap that only bounds harness run time
		select {
		case <-r.Context().Done():
		case <-done:
		case <-time.After(20 * time.Second):
			ss.record(slot, func(q *c31Req) { q.Note = "stall cap reached" })
		}
		panic(http.ErrAbortHandler)
	}
}
