package state

import (
	"sort"
	"time"
)

// VerifTombIDs returns the ids of the tasks the runner currently has a
// goroutine for, observed under the runner's own lock.
func VerifTombIDs(r *TaskRunner) []string {
	r.mu.Lock()
	defer r.mu.Unlock()
	ids := make([]string, 0, len(r.tombs))
	for id := range r.tombs {
		ids = append(ids, id)
	}
	sort.Strings(ids)
	return ids
}

// VerifSetTimeNow installs the harness's virtual clock as the package clock.
func VerifSetTimeNow(f func() time.Time) (restore func()) {
	old := timeNow
	timeNow = f
	return func() { timeNow = old }
}

// VerifNumWarnings returns the number of stored warnings incl. expired ones.
func VerifNumWarnings(s *State) int { return len(s.warnings) }
