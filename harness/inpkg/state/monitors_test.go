package state_test

import (
	"fmt"
	"sort"
	"strings"
	"time"

	"github.com/snapcore/snapd/overlord/state"
)

type viol struct {
	Prop   string      `json:"property"`
	Sig    string      `json:"signature"`
	Detail interface{} `json:"detail"`
}

type latch struct {
	ready     bool
	readyTime time.Time
	where     string
}

type monitors struct {
	h             *harness
	viols         []viol
	latches       map[string]*latch
	lastDelivered map[string]state.Status
	deliveredRdy  map[string]bool
	statusObs     int
	taskTrans     int
	chgTrans      int
	startChecks   int
	preDone       map[int]bool // C04: tasks recorded Done in the checkpoint the run resumed from
	preUndone     map[int]bool
	resumed       bool
	buildVT       int64
}

func newMonitors(h *harness) *monitors {
	return &monitors{h: h, latches: map[string]*latch{}, lastDelivered: map[string]state.Status{},
		deliveredRdy: map[string]bool{}, preDone: map[int]bool{}, preUndone: map[int]bool{}, buildVT: vnow().UnixNano()}
}

func (m *monitors) add(prop, sig string, detail interface{}) {
	if len(m.viols) < 20 {
		m.viols = append(m.viols, viol{prop, sig, detail})
	}
}

// install registers the online monitors; state lock held.
func (m *monitors) install() {
	h := m.h
	h.st.AddTaskStatusChangedHandler(func(t *state.Task, old, new state.Status) {
		idx, ok := h.byID[t.ID()]
		if !ok {
			return
		}
		m.taskTrans++
		h.mu.Lock()
		h.logEv(event{Kind: "status", Task: idx, Old: old.String(), New: new.String()})
		h.mu.Unlock()
		// C02 (a): judged at the instant of the transition, under the state lock
		if (old == state.DoStatus || old == state.DefaultStatus) && new == state.DoingStatus {
			m.startChecks++
			for _, wt := range t.WaitTasks() {
				if wt.Status() != state.DoneStatus {
					m.add("C02", "C02:do-started-before-prerequisite-done", map[string]interface{}{
						"task": idx, "prerequisite": h.byID[wt.ID()], "prerequisite_status": wt.Status().String()})
				}
			}
			if at := t.AtTime(); !at.IsZero() && vnow().Before(at) {
				m.add("C02", "C02:do-started-before-scheduled-time", map[string]interface{}{
					"task": idx, "at": at.String(), "now": vnow().String()})
			}
		}
		if old == state.UndoStatus && new == state.UndoingStatus {
			m.startChecks++
			for _, ht := range t.HaltTasks() {
				if !ht.Status().Ready() {
					m.add("C02", "C02:undo-started-while-dependent-unfinished", map[string]interface{}{
						"task": idx, "dependent": h.byID[ht.ID()], "dependent_status": ht.Status().String()})
				}
			}
			if at := t.AtTime(); !at.IsZero() && vnow().Before(at) {
				m.add("C02", "C02:undo-started-before-scheduled-time", map[string]interface{}{"task": idx})
			}
		}
	})
	h.st.AddChangeStatusChangedHandler(func(chg *state.Change, old, new state.Status) {
		m.chgTrans++
		id := chg.ID()
		if m.deliveredRdy[id] && !new.Ready() {
			m.add("C03", "C03:ready-change-reported-in-progress-again", map[string]interface{}{
				"change": id, "old": old.String(), "new": new.String()})
		}
		if new.Ready() {
			m.deliveredRdy[id] = true
		}
		m.lastDelivered[id] = new
	})
}

// refStatus is an independent implementation of the documented aggregate.
func refStatus(chg *state.Change) state.Status {
	tasks := chg.Tasks()
	if len(tasks) == 0 {
		return state.HoldStatus
	}
	cnt := map[state.Status]int{}
	for _, t := range tasks {
		cnt[t.Status()]++
	}
	if cnt[state.WaitStatus] > 0 {
		// Wait only if nothing runs and every pending task is (transitively)
		// blocked behind a task in Wait
		running := cnt[state.DoingStatus] + cnt[state.UndoingStatus] + cnt[state.AbortStatus]
		if running == 0 {
			memo := map[string]int{} // 1 can progress, 2 blocked behind wait
			var canProgress func(t *state.Task) bool
			canProgress = func(t *state.Task) bool {
				if v := memo[t.ID()]; v != 0 {
					return v == 1
				}
				memo[t.ID()] = 1 // cycle guard (graphs are acyclic)
				var deps []*state.Task
				if t.Status() == state.DoStatus {
					deps = t.WaitTasks()
				} else {
					deps = t.HaltTasks()
				}
				blockedByWait := false
				for _, d := range deps {
					switch d.Status() {
					case state.WaitStatus:
						blockedByWait = true
					case state.DoStatus, state.UndoStatus:
						if canProgress(d) {
							memo[t.ID()] = 1
							return true
						}
						blockedByWait = true
					case state.DoneStatus, state.UndoneStatus, state.ErrorStatus, state.HoldStatus:
					default:
						memo[t.ID()] = 1
						return true
					}
				}
				if blockedByWait {
					memo[t.ID()] = 2
					return false
				}
				memo[t.ID()] = 1
				return true
			}
			allBlocked := true
			for _, t := range tasks {
				if s := t.Status(); s == state.DoStatus || s == state.UndoStatus {
					if canProgress(t) {
						allBlocked = false
						break
					}
				}
			}
			if allBlocked {
				return state.WaitStatus
			}
		}
	}
	for _, s := range []state.Status{state.AbortStatus, state.UndoingStatus, state.UndoStatus, state.DoingStatus,
		state.DoStatus, state.WaitStatus, state.ErrorStatus, state.UndoneStatus, state.DoneStatus, state.HoldStatus} {
		if cnt[s] > 0 {
			return s
		}
	}
	return state.HoldStatus
}

// observe is called by the driver with the state lock held.
func (m *monitors) observe(where string) {
	h := m.h
	for _, id := range h.chgID {
		chg := h.st.Change(id)
		if chg == nil {
			m.add("C03", "C03:change-disappeared", map[string]interface{}{"change": id, "where": where})
			continue
		}
		if len(chg.Tasks()) == 0 {
			continue
		}
		m.statusObs++
		st := chg.Status()
		if ref := refStatus(chg); ref != st {
			var ts []string
			for _, t := range chg.Tasks() {
				ts = append(ts, fmt.Sprintf("%d:%s", h.byID[t.ID()], t.Status()))
			}
			m.add("C03", "C03:status-not-documented-aggregate", map[string]interface{}{
				"change": id, "reported": st.String(), "reference": ref.String(), "tasks": ts, "where": where})
		}
		isReady := chg.IsReady() && st.Ready() && !chg.ReadyTime().IsZero()
		l := m.latches[id]
		if l == nil {
			l = &latch{}
			m.latches[id] = l
		}
		if l.ready {
			if !chg.IsReady() || !st.Ready() {
				m.add("C03", "C03:ready-change-observed-unready", map[string]interface{}{
					"change": id, "status": st.String(), "is_ready": chg.IsReady(), "first_ready_at": l.where, "where": where})
			}
			if !chg.ReadyTime().Equal(l.readyTime) {
				m.add("C03", "C03:ready-time-changed", map[string]interface{}{"change": id, "where": where})
			}
		} else if isReady {
			l.ready, l.readyTime, l.where = true, chg.ReadyTime(), where
		} else if chg.IsReady() != st.Ready() {
			m.add("C03", "C03:isready-disagrees-with-status", map[string]interface{}{
				"change": id, "status": st.String(), "is_ready": chg.IsReady(), "where": where})
		}
	}
}

// ---------------------------------------------------------------- final oracles

func (h *harness) lanesOf(i int) []int {
	l := h.spec.Tasks[i].Lanes
	if len(l) == 0 {
		return []int{-1} // the default lane
	}
	return l
}

// abortSets computes MUST and MAY for one change from the static graph and
// the set F of tasks that ended in Error.
func (h *harness) abortSets(chg int, F map[int]bool) (must, may map[int]bool) {
	var members []int
	for i := range h.spec.Tasks {
		if h.spec.Tasks[i].Change == chg {
			members = append(members, i)
		}
	}
	closure := func(exempt bool) map[int]bool {
		A := map[int]bool{}
		for f := range F {
			if h.spec.Tasks[f].Change == chg {
				A[f] = true
			}
		}
		for changed := true; changed; {
			changed = false
			// halt closure
			var stack []int
			for a := range A {
				stack = append(stack, a)
			}
			for len(stack) > 0 {
				a := stack[len(stack)-1]
				stack = stack[:len(stack)-1]
				for _, x := range h.spec.Tasks[a].halts {
					if !A[x] {
						A[x] = true
						changed = true
						stack = append(stack, x)
					}
				}
			}
			K := map[int]bool{}
			for a := range A {
				// with the exemption in force only permanently dead tasks are
				// trusted to keep a lane dead: failed ones and undoable ones
				if !exempt || F[a] || h.spec.Tasks[a].HasUndo {
					for _, l := range h.lanesOf(a) {
						K[l] = true
					}
				}
			}
			for _, i := range members {
				if A[i] {
					continue
				}
				all, anyIn := true, false
				for _, l := range h.lanesOf(i) {
					if K[l] {
						anyIn = true
					} else {
						all = false
					}
				}
				if (exempt && all) || (!exempt && anyIn) {
					A[i] = true
					changed = true
				}
			}
		}
		return A
	}
	return closure(true), closure(false)
}

type finalView struct {
	status map[int]state.Status
	chg    map[int]state.Status
}

// finalOracles evaluates the end-of-run oracles; state lock must NOT be held.
func (h *harness) finalOracles(withC01Sets bool) finalView {
	m := h.mon
	st := h.st
	st.Lock()
	defer st.Unlock()
	fv := finalView{status: map[int]state.Status{}, chg: map[int]state.Status{}}
	for i, id := range h.ids {
		t := st.Task(id)
		if t == nil {
			m.add("C04", "C04:task-lost", map[string]interface{}{"task": i})
			continue
		}
		fv.status[i] = t.Status()
	}
	// ---- event-log oracles -------------------------------------------------
	h.mu.Lock()
	log := append([]event{}, h.log...)
	world := map[int]bool{}
	for k, v := range h.world {
		world[k] = v
	}
	h.mu.Unlock()
	type span struct{ start, end int64 }
	open := map[int][]span{} // all invocations (do+undo) per task
	lastDoOK := map[int][]int64{}
	undoStarts := map[int][]int64{}
	doStarts := map[int][]int64{}
	pendingWait := map[int]bool{}
	curOpen := map[string]int{}
	doInv, undoInv := map[int]int{}, map[int]int{}
	for _, e := range log {
		switch e.Kind {
		case "do-start", "undo-start":
			open[e.Task] = append(open[e.Task], span{e.Seq, 1 << 62})
			curOpen[fmt.Sprintf("%d", e.Task)] = len(open[e.Task]) - 1
			if e.Kind == "do-start" {
				doStarts[e.Task] = append(doStarts[e.Task], e.Seq)
				doInv[e.Task]++
			} else {
				undoStarts[e.Task] = append(undoStarts[e.Task], e.Seq)
				undoInv[e.Task]++
			}
		case "do-end", "undo-end":
			k := curOpen[fmt.Sprintf("%d", e.Task)]
			open[e.Task][k].end = e.Seq
			if e.Kind == "do-end" {
				if e.Result == "ok" {
					lastDoOK[e.Task] = append(lastDoOK[e.Task], e.Seq)
				} else if e.Result == "wait" {
					pendingWait[e.Task] = true
				}
			}
		case "resolve-wait":
			if pendingWait[e.Task] && e.Note == "Done" {
				lastDoOK[e.Task] = append(lastDoOK[e.Task], e.Seq)
				pendingWait[e.Task] = false
			}
		}
	}
	// C02 (b): every do-start of x follows a completed do of each prerequisite
	// with no undo-start of the prerequisite in between
	for x, starts := range doStarts {
		for _, s := range starts {
			for _, p := range h.spec.Tasks[x].Waits {
				done := int64(-1)
				if m.preDone[p] {
					done = 0
				}
				for _, d := range lastDoOK[p] {
					if d < s && d > done {
						done = d
					}
				}
				if done < 0 {
					m.add("C02", "C02:log:do-started-before-prerequisite-completed", map[string]interface{}{"task": x, "prerequisite": p, "start_seq": s})
					continue
				}
				for _, u := range undoStarts[p] {
					if u > done && u < s {
						m.add("C02", "C02:log:do-started-after-prerequisite-undo-began", map[string]interface{}{"task": x, "prerequisite": p, "start_seq": s})
					}
				}
			}
		}
	}
	// C02 (b'): retry delays and the initial schedule, from the log's virtual times
	lastEnd := map[string]event{}
	firstDo := map[int]bool{}
	for _, e := range log {
		switch e.Kind {
		case "do-start", "undo-start":
			ph := strings.TrimSuffix(e.Kind, "-start")
			if pe, ok := lastEnd[fmt.Sprintf("%d/%s", e.Task, ph)]; ok && pe.Result == "retry" && e.VT < pe.VT+pe.After {
				m.add("C02", "C02:log:retried-before-requested-delay", map[string]interface{}{"task": e.Task, "phase": ph, "retry_end_vt": pe.VT, "after": pe.After, "restart_vt": e.VT})
			}
			if e.Kind == "do-start" && !firstDo[e.Task] {
				firstDo[e.Task] = true
				if at := h.spec.Tasks[e.Task].At; at != 0 && !m.resumed && e.VT < m.buildVT+int64(at) {
					m.add("C02", "C02:log:started-before-scheduled-time", map[string]interface{}{"task": e.Task, "start_vt": e.VT, "scheduled_vt": m.buildVT + int64(at)})
				}
			}
		case "do-end", "undo-end":
			lastEnd[fmt.Sprintf("%d/%s", e.Task, strings.TrimSuffix(e.Kind, "-end"))] = e
		}
	}
	// C01 piece 1: reverse dependency order of undo
	for x, starts := range undoStarts {
		for _, s := range starts {
			for _, d := range h.spec.Tasks[x].halts {
				for _, sp := range open[d] {
					if sp.start < s && sp.end > s {
						m.add("C01", "C01:undo-started-while-dependent-running", map[string]interface{}{"task": x, "dependent": d, "undo_start_seq": s})
					} else if sp.start > s {
						m.add("C01", "C01:dependent-ran-after-undo-of-prerequisite-started", map[string]interface{}{"task": x, "dependent": d, "undo_start_seq": s})
					}
				}
			}
		}
	}
	// ---- effect world vs statuses -------------------------------------------
	for i := range h.spec.Tasks {
		s, ok := fv.status[i]
		if !ok {
			continue
		}
		unknown := h.undoFail[i] || h.seeded[i]
		switch s {
		case state.DoneStatus:
			if !world[i] && !unknown {
				m.add("C01", "C01:world:task-done-without-effect", map[string]interface{}{"task": i})
			}
		case state.UndoneStatus:
			if world[i] && !unknown {
				m.add("C01", "C01:world:task-undone-but-effect-remains", map[string]interface{}{"task": i})
			}
			if undoInv[i] == 0 && !m.preUndone[i] {
				m.add("C01", "C01:world:task-undone-without-undo-run", map[string]interface{}{"task": i})
			}
		case state.HoldStatus:
			if world[i] && !unknown && h.spec.Tasks[i].HasUndo {
				m.add("C01", "C01:world:task-on-hold-with-effect-applied", map[string]interface{}{"task": i})
			}
		case state.ErrorStatus:
			if world[i] && !unknown {
				m.add("C01", "C01:world:failed-task-effect-remains", map[string]interface{}{"task": i})
			}
		}
	}
	// ---- per change ------------------------------------------------------------
	for c, id := range h.chgID {
		chg := st.Change(id)
		if chg == nil {
			m.add("C04", "C04:change-lost", map[string]interface{}{"change": id})
			continue
		}
		var members []int
		for i := range h.spec.Tasks {
			if h.spec.Tasks[i].Change == c {
				members = append(members, i)
			}
		}
		if len(members) == 0 {
			continue
		}
		cs := chg.Status()
		fv.chg[c] = cs
		// C03: settles
		if !chg.IsReady() || !cs.Ready() || chg.ReadyTime().IsZero() {
			var ts []string
			for _, i := range members {
				ts = append(ts, fmt.Sprintf("%d:%s", i, fv.status[i]))
			}
			m.add("C03", "C03:quiescent-but-change-not-ready", map[string]interface{}{"change": id, "status": cs.String(), "is_ready": chg.IsReady(), "tasks": ts})
		}
		if ld, ok := m.lastDelivered[id]; ok && ld != cs {
			m.add("C03", "C03:last-notified-status-differs-from-final", map[string]interface{}{"change": id, "notified": ld.String(), "final": cs.String()})
		}
		if len(st.Notices(&state.NoticeFilter{Types: []state.NoticeType{state.ChangeUpdateNotice}, Keys: []string{id}})) == 0 {
			m.add("C03", "C03:no-change-update-notice", map[string]interface{}{"change": id})
		}
		// C03: Err names every failed task
		F := map[int]bool{}
		for _, i := range members {
			if fv.status[i] == state.ErrorStatus {
				F[i] = true
			}
		}
		err := chg.Err()
		if cs == state.ErrorStatus {
			if err == nil {
				m.add("C03", "C03:error-change-without-err", map[string]interface{}{"change": id})
			} else {
				for f := range F {
					found := false
					for _, ph := range []string{"do", "undo"} {
						if strings.Contains(err.Error(), fmt.Sprintf("- task-%d (boom-%d-%s)", f, f%2, ph)) {
							found = true
						}
					}
					if !found {
						m.add("C03", "C03:err-does-not-name-failed-task", map[string]interface{}{"change": id, "task": f, "err": err.Error()})
					}
				}
			}
		} else if err != nil {
			m.add("C03", "C03:err-set-on-non-error-change", map[string]interface{}{"change": id, "status": cs.String()})
		}
		if (len(F) > 0) != (cs == state.ErrorStatus) && cs.Ready() {
			m.add("C03", "C03:error-status-iff-failed-task", map[string]interface{}{"change": id, "status": cs.String(), "failed": len(F)})
		}
		if !withC01Sets {
			continue
		}
		// C01: who must / may have been aborted
		must, may := h.abortSets(c, F)
		for _, i := range members {
			s := fv.status[i]
			ts := &h.spec.Tasks[i]
			switch {
			case must[i] && ts.HasUndo:
				if s != state.UndoneStatus && s != state.HoldStatus && s != state.ErrorStatus {
					m.add("C01", "C01:abort-set:undoable-task-in-failed-lane-not-reverted", map[string]interface{}{"task": i, "status": s.String(), "failed": keys(F)})
				}
			case must[i]:
				if s != state.DoneStatus && s != state.HoldStatus && s != state.ErrorStatus {
					m.add("C01", "C01:abort-set:task-without-undo-bad-final-status", map[string]interface{}{"task": i, "status": s.String()})
				}
			case !may[i]:
				if s != state.DoneStatus {
					m.add("C01", "C01:abort-set:task-in-healthy-independent-lane-not-done", map[string]interface{}{"task": i, "status": s.String(), "failed": keys(F)})
				}
			}
			if must[i] && doInv[i] == 0 && !m.resumed && s != state.HoldStatus && !F[i] {
				m.add("C01", "C01:never-started-task-not-on-hold", map[string]interface{}{"task": i, "status": s.String()})
			}
			if !s.Ready() {
				m.add("C01", "C01:task-left-pending", map[string]interface{}{"task": i, "status": s.String()})
			}
		}
		if len(F) > 0 && cs != state.ErrorStatus {
			m.add("C01", "C01:change-with-failed-task-not-in-error", map[string]interface{}{"change": id, "status": cs.String()})
		}
	}
	return fv
}

func keys(m map[int]bool) []int {
	var out []int
	for k := range m {
		out = append(out, k)
	}
	sort.Ints(out)
	return out
}
