package state_test

import (
	"fmt"
	"sort"
	"testing"
	"time"

	kit "verifkit"

	"github.com/snapcore/snapd/overlord/state"
)

type pChange struct {
	Idx      int      `json:"idx"`
	SpawnAge string   `json:"spawn_age"`
	ReadyAge string   `json:"ready_age"` // "" = unready
	Tasks    []string `json:"tasks"`     // initial statuses
	Pending  string   `json:"pending"`   // "", "true", "false": attribute "pend"
	Pending2 string   `json:"pending2"`  // same for the second registered predicate (attribute "pend2")
	Pending3 string   `json:"pending3"`  // and the third ("pend3")
	spawnAge time.Duration
	readyAge time.Duration
	id       string
	taskIDs  []string
}

type pCase struct {
	Index     int       `json:"case_index"`
	PruneWait string    `json:"prune_wait"`
	AbortWait string    `json:"abort_wait"`
	StartAge  string    `json:"start_of_operation_age"`
	Max       int       `json:"max_ready_changes"`
	Changes   []pChange `json:"changes"`
	Unlinked  []string  `json:"unlinked_task_ages"`
	Notices   []string  `json:"notice_ages"`
	Warnings  []string  `json:"warning_ages"`
}

// ages are generated at least 10 minutes away from every threshold so that
// the few milliseconds between the harness reading the clock and Prune reading
// it cannot flip a comparison.
func farAge(rnd interface{ Int63n(int64) int64 }, thresholds []time.Duration) time.Duration {
	for {
		var a time.Duration
		switch rnd.Int63n(4) {
		case 0:
			a = time.Duration(rnd.Int63n(int64(48 * time.Hour)))
		case 1:
			a = time.Duration(rnd.Int63n(int64(40 * 24 * time.Hour)))
		default:
			th := thresholds[rnd.Int63n(int64(len(thresholds)))]
			a = th + time.Duration(rnd.Int63n(int64(4*time.Hour))) - 2*time.Hour
		}
		if a < time.Minute {
			a = time.Minute
		}
		ok := true
		for _, th := range thresholds {
			d := a - th
			if d < 0 {
				d = -d
			}
			if d < 10*time.Minute {
				ok = false
			}
		}
		if ok {
			return a.Truncate(time.Second)
		}
	}
}

func runC09(t *testing.T) {
	c := kit.New("C09", "exploration")
	defer c.Done(t)
	c.Rule("random states (0-12 changes: ready with generated ready times incl. deliberate ties, unready with tasks in Do/Doing/Done, empty ones; pending-attribute predicates; unlinked tasks; notices and warnings of generated ages) and random Prune parameters (retention, abort period, limit, start of operation); the surviving changes/tasks/notices/warnings and every task status are compared with a reference model written from the statement. Non-trivial: at least one change was pruned or aborted and at least one survived; distinct = full case signature.")
	c.Assume("all generated ages are >= 10 minutes away from every threshold (Prune reads the real clock itself)")
	c.Floor("changes_pruned", 100)
	c.Floor("changes_aborted", 50)
	n := kit.Scale(4000, 40000)
	only := kit.OnlyCase()
	pws := []time.Duration{24 * time.Hour, 7 * 24 * time.Hour, 3 * time.Hour}
	aws := []time.Duration{3 * 24 * time.Hour, 7 * 24 * time.Hour, 12 * time.Hour, 14 * 24 * time.Hour}
	noticeExp := 7 * 24 * time.Hour
	warnExp := state.DefaultWarningExpireAfter
	for i := 0; i < n; i++ {
		if only >= 0 && i != only {
			continue
		}
		rnd := kit.CaseRand("c09", i)
		pw := pws[rnd.Intn(len(pws))]
		aw := aws[rnd.Intn(len(aws))]
		th := []time.Duration{pw, aw, noticeExp, warnExp}
		startAge := farAge(rnd, th)
		pc := &pCase{Index: i, PruneWait: pw.String(), AbortWait: aw.String(), StartAge: startAge.String()}
		pc.Max = []int{0, 1, 2, 3, 5, 500}[rnd.Intn(6)]
		nchg := rnd.Intn(13)
		var tieAge time.Duration
		for k := 0; k < nchg; k++ {
			ch := pChange{Idx: k, spawnAge: farAge(rnd, th)}
			switch rnd.Intn(5) {
			case 0, 1, 2: // ready
				ch.readyAge = farAge(rnd, th)
				if tieAge != 0 && rnd.Intn(3) == 0 {
					ch.readyAge = tieAge
				}
				tieAge = ch.readyAge
				if ch.readyAge > ch.spawnAge {
					ch.spawnAge = ch.readyAge
				}
				for j := rnd.Intn(4); j >= 0; j-- {
					ch.Tasks = append(ch.Tasks, []string{"Done", "Error", "Hold", "Undone"}[rnd.Intn(4)])
				}
			case 3: // unready with tasks
				for j := rnd.Intn(4); j >= 0; j-- {
					ch.Tasks = append(ch.Tasks, []string{"Do", "Doing", "Done", "Do"}[rnd.Intn(4)])
				}
				hasLive := false
				for _, s := range ch.Tasks {
					if s != "Done" {
						hasLive = true
					}
				}
				if !hasLive {
					ch.Tasks[0] = "Do"
				}
			default: // unready, empty
			}
			if ch.readyAge == 0 && rnd.Intn(3) == 0 {
				ch.Pending = []string{"true", "false"}[rnd.Intn(2)]
			}
			// several registered predicates may apply to one change and disagree:
			// the change is pending if ANY of them says so
			if ch.readyAge == 0 && rnd.Intn(3) == 0 {
				ch.Pending2 = []string{"true", "false"}[rnd.Intn(2)]
			}
			if ch.readyAge == 0 && rnd.Intn(4) == 0 {
				ch.Pending3 = []string{"true", "false"}[rnd.Intn(2)]
			}
			ch.SpawnAge = ch.spawnAge.String()
			if ch.readyAge != 0 {
				ch.ReadyAge = ch.readyAge.String()
			}
			pc.Changes = append(pc.Changes, ch)
		}
		var unlinked, notices, warnings []time.Duration
		for k := rnd.Intn(4); k > 0; k-- {
			a := farAge(rnd, th)
			unlinked = append(unlinked, a)
			pc.Unlinked = append(pc.Unlinked, a.String())
		}
		for k := rnd.Intn(4); k > 0; k-- {
			a := farAge(rnd, th)
			notices = append(notices, a)
			pc.Notices = append(pc.Notices, a.String())
		}
		for k := rnd.Intn(3); k > 0; k-- {
			a := farAge(rnd, th)
			warnings = append(warnings, a)
			pc.Warnings = append(pc.Warnings, a.String())
		}

		// ---- build the real state ------------------------------------------
		now := time.Now()
		st := state.New(nil)
		st.Lock()
		for _, attr := range []string{"pend", "pend2", "pend3"} {
			attr := attr
			st.RegisterPendingChangeByAttr(attr, func(chg *state.Change) bool {
				var v bool
				chg.Get(attr, &v)
				return v
			})
		}
		statusOf := map[string]state.Status{"Do": state.DoStatus, "Doing": state.DoingStatus, "Done": state.DoneStatus,
			"Error": state.ErrorStatus, "Hold": state.HoldStatus, "Undone": state.UndoneStatus}
		for k := range pc.Changes {
			ch := &pc.Changes[k]
			chg := st.NewChange("k", fmt.Sprintf("chg %d", k))
			ch.id = chg.ID()
			var tks []*state.Task
			for j := range ch.Tasks {
				tk := st.NewTask("kind", fmt.Sprintf("t%d-%d", k, j))
				chg.AddTask(tk)
				tks = append(tks, tk)
				ch.taskIDs = append(ch.taskIDs, tk.ID())
				state.MockTaskTimes(tk, now.Add(-ch.spawnAge), time.Time{})
			}
			// all tasks are linked before any status is set, so that the change
			// never passes through a ready state while it is being built
			for j, s := range ch.Tasks {
				tks[j].SetStatus(statusOf[s])
			}
			for attr, val := range map[string]string{"pend": ch.Pending, "pend2": ch.Pending2, "pend3": ch.Pending3} {
				switch val {
				case "true":
					chg.Set(attr, true)
				case "false":
					chg.Set(attr, false)
				}
			}
			ready := time.Time{}
			if ch.readyAge != 0 {
				ready = now.Add(-ch.readyAge)
			}
			state.MockChangeTimes(chg, now.Add(-ch.spawnAge), ready)
		}
		var unlinkedIDs []string
		for _, a := range unlinked {
			tk := st.NewTask("kind", "unlinked")
			state.MockTaskTimes(tk, now.Add(-a), time.Time{})
			unlinkedIDs = append(unlinkedIDs, tk.ID())
		}
		// the change-update notices created by the status changes above occurred "now"
		baseNotices := st.NumNotices()
		for k, a := range notices {
			st.AddNotice(nil, state.WarningNotice, fmt.Sprintf("n%d", k), &state.AddNoticeOptions{Time: now.Add(-a)})
		}
		for k, a := range warnings {
			st.AddWarning(fmt.Sprintf("warning %d", k), &state.AddWarningOptions{Time: now.Add(-a)})
		}

		st.Prune(now.Add(-startAge), pw, aw, pc.Max)

		// ---- reference -------------------------------------------------------
		bad := func(sig string, extra map[string]interface{}) {
			m := map[string]interface{}{"case_index": i, "case": pc}
			for k, v := range extra {
				m[k] = v
			}
			c.Violation("C09:"+sig, m)
		}
		var readyAges []time.Duration
		oldCount := 0
		for _, ch := range pc.Changes {
			if ch.readyAge != 0 {
				readyAges = append(readyAges, ch.readyAge)
				if ch.readyAge > pw {
					oldCount++
				}
			}
		}
		extra := len(readyAges) - oldCount - pc.Max
		if extra < 0 {
			extra = 0
		}
		wantRemovedReady := oldCount + extra
		gotRemovedReady := 0
		var survivorsReady, removedNonOld []time.Duration
		pruned, aborted, kept := 0, 0, 0
		for _, ch := range pc.Changes {
			chg := st.Change(ch.id)
			effSpawn := ch.spawnAge
			if effSpawn > startAge { // spawned before snapd started: counts from start
				effSpawn = startAge
			}
			if ch.readyAge != 0 {
				if chg == nil {
					gotRemovedReady++
					pruned++
					if ch.readyAge <= pw {
						removedNonOld = append(removedNonOld, ch.readyAge)
					}
					for _, tid := range ch.taskIDs {
						if st.Task(tid) != nil {
							bad("task-of-pruned-change-left-behind", map[string]interface{}{"change": ch.Idx})
						}
					}
				} else {
					kept++
					if ch.readyAge > pw {
						bad("ready-change-past-retention-kept", map[string]interface{}{"change": ch.Idx})
					}
					survivorsReady = append(survivorsReady, ch.readyAge)
					for j, tid := range ch.taskIDs {
						tk := st.Task(tid)
						if tk == nil {
							bad("task-of-kept-change-removed", map[string]interface{}{"change": ch.Idx})
						} else if tk.Status() != statusOf[ch.Tasks[j]] {
							bad("task-of-ready-change-modified", map[string]interface{}{"change": ch.Idx})
						}
					}
				}
				continue
			}
			// unready
			wantRemoved := len(ch.Tasks) == 0 && effSpawn > pw
			anyPending := ch.Pending == "true" || ch.Pending2 == "true" || ch.Pending3 == "true"
			wantAbort := !wantRemoved && effSpawn > aw && !anyPending && len(ch.Tasks) > 0
			if wantRemoved != (chg == nil) {
				bad("unready-change-removal-wrong", map[string]interface{}{"change": ch.Idx, "removed": chg == nil, "expected_removed": wantRemoved})
				continue
			}
			if chg == nil {
				pruned++
				continue
			}
			kept++
			if wantAbort {
				aborted++
			}
			for j, tid := range ch.taskIDs {
				tk := st.Task(tid)
				if tk == nil {
					bad("task-of-unready-change-removed", map[string]interface{}{"change": ch.Idx})
					continue
				}
				want := statusOf[ch.Tasks[j]]
				if wantAbort {
					switch want {
					case state.DoStatus:
						want = state.HoldStatus
					case state.DoingStatus:
						want = state.AbortStatus
					case state.DoneStatus:
						want = state.UndoStatus
					}
				}
				if tk.Status() != want {
					sig := "unready-change-not-aborted-after-abort-period"
					if !wantAbort {
						sig = "unready-change-aborted-too-early-or-while-pending"
					}
					bad(sig, map[string]interface{}{"change": ch.Idx, "task": j, "status": tk.Status().String(), "expected": want.String(),
						"effective_spawn_age": effSpawn.String()})
				}
			}
		}
		if gotRemovedReady != wantRemovedReady {
			bad("wrong-number-of-ready-changes-pruned", map[string]interface{}{"removed": gotRemovedReady, "expected": wantRemovedReady})
		}
		// oldest first: no removed (non-old) change is newer than a survivor
		for _, r := range removedNonOld {
			for _, s := range survivorsReady {
				if r < s { // smaller age = newer
					bad("newer-ready-change-pruned-before-older", map[string]interface{}{"removed_age": r.String(), "survivor_age": s.String()})
				}
			}
		}
		// State.Task only returns linked tasks: unlinked ones are counted
		wantTasks := 0
		for _, ch := range pc.Changes {
			if st.Change(ch.id) != nil {
				wantTasks += len(ch.taskIDs)
			}
		}
		for _, a := range unlinked {
			if a <= pw {
				wantTasks++
			}
		}
		if got := st.TaskCount(); got != wantTasks {
			bad("unlinked-task-pruning-wrong", map[string]interface{}{"task_count": got, "expected": wantTasks, "unlinked_ages": pc.Unlinked})
		}
		_ = unlinkedIDs
		wantNotices := baseNotices
		for _, a := range notices {
			if a <= noticeExp {
				wantNotices++
			}
		}
		// aborting changes may add change-update notices (status changes): allow those
		if got := st.NumNotices(); got < wantNotices || got > wantNotices+aborted {
			bad("notice-expiry-wrong", map[string]interface{}{"stored": got, "expected": wantNotices, "aborted_changes": aborted})
		}
		wantWarn := 0
		for _, a := range warnings {
			if a <= warnExp {
				wantWarn++
			}
		}
		if got := state.VerifNumWarnings(st); got != wantWarn {
			bad("warning-expiry-wrong", map[string]interface{}{"stored": got, "expected": wantWarn})
		}
		st.Unlock()
		c.Eval()
		c.Count("changes_pruned", pruned)
		c.Count("changes_aborted", aborted)
		c.Count("changes_kept", kept)
		c.Count("prune_calls", 1)
		if (pruned > 0 || aborted > 0) && kept > 0 {
			sort.Slice(readyAges, func(a, b int) bool { return readyAges[a] < readyAges[b] })
			c.Nontrivial(kit.Sig(kit.JSON(pc)))
			c.Sample(pc)
		}
	}
}
