// Shared state-engine harness for C01-C04: real State/Change/Task/TaskRunner,
// harness-owned handlers, backend and ensure-loop driver.
package state_test

import (
	"bytes"
	"fmt"
	"math/rand"
	"runtime"
	"sort"
	"sync"
	"sync/atomic"
	"time"

	"gopkg.in/tomb.v2"

	kit "verifkit"

	"github.com/snapcore/snapd/overlord/state"
)

// ---------------------------------------------------------------- case spec

type result struct {
	Kind  string        `json:"kind"` // ok | err | retry | wait
	After time.Duration `json:"after,omitempty"`
}

type taskSpec struct {
	Idx      int           `json:"idx"`
	Change   int           `json:"change"`
	HasUndo  bool          `json:"has_undo"`
	Waits    []int         `json:"waits"`
	Lanes    []int         `json:"lanes"` // indices into the case's lanes; empty = default lane
	Do       []result      `json:"do"`
	Undo     []result      `json:"undo"`
	Honours  bool          `json:"honours_tomb"`
	At       time.Duration `json:"at,omitempty"`
	halts    []int
	failsDo  bool
	failsUnd bool
}

type caseSpec struct {
	Index      int        `json:"case_index"`
	NChanges   int        `json:"n_changes"`
	NLanes     int        `json:"n_lanes"`
	Tasks      []taskSpec `json:"tasks"`
	UserAborts int        `json:"user_aborts"`
	SchedSeed  int64      `json:"sched_seed"`
	Mode       string     `json:"mode"` // controlled | free
}

type genOpts struct {
	maxTasks   int
	multiChg   bool
	userAborts bool
	waits      bool
	atTimes    bool
	failures   bool
}

func genCase(rnd *rand.Rand, idx int, o genOpts) *caseSpec {
	cs := &caseSpec{Index: idx, NChanges: 1, SchedSeed: rnd.Int63(), Mode: "controlled"}
	if o.multiChg {
		cs.NChanges = 1 + rnd.Intn(3)
	}
	n := 2 + rnd.Intn(o.maxTasks-1)
	pEdge := []float64{0.1, 0.3, 0.6}[rnd.Intn(3)]
	laneMode := rnd.Intn(4) // 0 none, 1 per chain-ish, 2 random subsets, 3 few lanes
	cs.NLanes = 0
	if laneMode != 0 {
		cs.NLanes = 1 + rnd.Intn(5)
	}
	nfail := 0
	if o.failures {
		switch x := rnd.Intn(10); {
		case x < 2:
			nfail = 0
		case x < 7:
			nfail = 1
		default:
			nfail = 2 + rnd.Intn(2)
		}
	}
	failing := map[int]bool{}
	for len(failing) < nfail && len(failing) < n {
		failing[rnd.Intn(n)] = true
	}
	for i := 0; i < n; i++ {
		ts := taskSpec{Idx: i, Change: rnd.Intn(cs.NChanges), HasUndo: rnd.Intn(5) != 0, Honours: rnd.Intn(3) != 0}
		cs.Tasks = append(cs.Tasks, ts)
	}
	for i := range cs.Tasks {
		ts := &cs.Tasks[i]
		for j := 0; j < i; j++ {
			if cs.Tasks[j].Change == ts.Change && rnd.Float64() < pEdge {
				ts.Waits = append(ts.Waits, j)
			}
		}
		switch laneMode {
		case 1: // inherit the lane of a prerequisite, else a fresh pick
			if len(ts.Waits) > 0 && rnd.Intn(4) != 0 {
				ts.Lanes = append([]int{}, cs.Tasks[ts.Waits[rnd.Intn(len(ts.Waits))]].Lanes...)
			} else {
				ts.Lanes = []int{rnd.Intn(cs.NLanes)}
			}
		case 2:
			for l := 0; l < cs.NLanes; l++ {
				if rnd.Intn(3) == 0 {
					ts.Lanes = append(ts.Lanes, l)
				}
			}
			if rnd.Intn(2) == 0 { // randomise the order lanes were joined in
				rnd.Shuffle(len(ts.Lanes), func(a, b int) { ts.Lanes[a], ts.Lanes[b] = ts.Lanes[b], ts.Lanes[a] })
			}
		case 3:
			if rnd.Intn(4) != 0 {
				ts.Lanes = []int{rnd.Intn(cs.NLanes)}
				if rnd.Intn(4) == 0 {
					ts.Lanes = append(ts.Lanes, rnd.Intn(cs.NLanes))
				}
			}
		}
		// do results
		for k := rnd.Intn(6) - 3; k > 0; k-- {
			r := result{Kind: "retry"}
			if rnd.Intn(2) == 0 {
				r.After = []time.Duration{time.Millisecond, time.Second, 5 * time.Minute, 2 * time.Hour}[rnd.Intn(4)]
			}
			ts.Do = append(ts.Do, r)
		}
		switch {
		case failing[i]:
			ts.Do = append(ts.Do, result{Kind: "err"})
			ts.failsDo = true
		case o.waits && rnd.Intn(8) == 0:
			ts.Do = append(ts.Do, result{Kind: "wait"})
		default:
			ts.Do = append(ts.Do, result{Kind: "ok"})
		}
		if ts.HasUndo {
			if rnd.Intn(6) == 0 {
				ts.Undo = append(ts.Undo, result{Kind: "retry", After: []time.Duration{0, time.Second}[rnd.Intn(2)]})
			}
			switch {
			case nfail > 0 && rnd.Intn(8) == 0:
				ts.Undo = append(ts.Undo, result{Kind: "err"})
				ts.failsUnd = true
			case o.waits && rnd.Intn(12) == 0:
				ts.Undo = append(ts.Undo, result{Kind: "wait"})
			default:
				ts.Undo = append(ts.Undo, result{Kind: "ok"})
			}
		}
		if o.atTimes && rnd.Intn(8) == 0 {
			ts.At = []time.Duration{time.Second, time.Minute, 3 * time.Hour}[rnd.Intn(3)]
		}
	}
	for i := range cs.Tasks {
		for _, w := range cs.Tasks[i].Waits {
			cs.Tasks[w].halts = append(cs.Tasks[w].halts, i)
		}
	}
	if o.userAborts && rnd.Intn(3) == 0 {
		cs.UserAborts = 1 + rnd.Intn(2)
	}
	return cs
}

func (cs *caseSpec) signature(extra ...interface{}) string {
	return kit.Sig(kit.JSON(cs.Tasks), cs.NChanges, cs.NLanes, cs.UserAborts, fmt.Sprint(extra...))
}

// ---------------------------------------------------------------- harness

type event struct {
	Seq    int64  `json:"seq"`
	Kind   string `json:"kind"`
	Task   int    `json:"task"`
	N      int    `json:"n,omitempty"`
	Result string `json:"result,omitempty"`
	Old    string `json:"old,omitempty"`
	New    string `json:"new,omitempty"`
	Note   string `json:"note,omitempty"`
	VT     int64  `json:"vt,omitempty"`
	After  int64  `json:"after,omitempty"`
}

type invocation struct {
	idx      int
	phase    string
	n        int
	gate     chan struct{}
	tomb     *tomb.Tomb
	released bool
	finished bool
	honours  bool
}

type checkpoint struct {
	seq  int64
	vt   int64
	data []byte
}

type harness struct {
	mu    sync.Mutex
	seq   int64
	log   []event
	spec  *caseSpec
	byID  map[string]int
	ids   []string
	chgID []string

	invCount map[string]int
	cur      map[int]*invocation
	world    map[int]bool
	undoFail map[int]bool
	seeded   map[int]bool // C04: effect presence unknown at restart

	controlled bool
	vclock     int64 // unix nanos (atomic)
	ensureDue  int64 // 0 none, guarded by mu
	ensures    int
	starts     int

	version         int64 // bumped under the state lock by handlers mid-work
	lastCkptVersion int64
	ckptOutOfOrder  int
	ckptStamped     int
	ckptWitness     string
	slowCkpt        bool
	midWork         bool
	ckpts           []checkpoint
	keepCkpts       bool

	st     *state.State
	runner *state.TaskRunner

	mon *monitors

	watchdog bool
	sleepRnd *rand.Rand
}

// anchored at the real current time: notice expiry inside snapd reads the real clock
var epoch = time.Now().Truncate(time.Second)

// one virtual clock shared by every harness in the process (state.timeNow is a
// package variable); cases run one at a time.
var vclockNanos int64

func vnow() time.Time { return time.Unix(0, atomic.LoadInt64(&vclockNanos)).UTC() }

func (h *harness) now() time.Time { return vnow() }

// state.Backend
// verifVersion extracts the harness's monotone version stamp from a payload.
func verifVersion(data []byte) int64 {
	k := []byte(`"verif-version":`)
	i := bytes.Index(data, k)
	if i < 0 {
		return -1
	}
	var v int64
	for _, c := range data[i+len(k):] {
		if c < '0' || c > '9' {
			break
		}
		v = v*10 + int64(c-'0')
	}
	return v
}

func (h *harness) Checkpoint(data []byte) error {
	if h.slowCkpt {
		// a slow disk: widens the window between taking the snapshot and
		// having it written
		time.Sleep(time.Duration(verifVersion(data)%4) * 300 * time.Microsecond)
	}
	// checkpoints must reach the backend in state-lock order: the stamp that
	// handlers bump under the lock never goes backwards from one write to the next
	if v := verifVersion(data); v >= 0 {
		h.mu.Lock()
		if v < h.lastCkptVersion {
			h.ckptOutOfOrder++
			if h.ckptWitness == "" {
				h.ckptWitness = fmt.Sprintf("payload with version %d written after one with version %d", v, h.lastCkptVersion)
			}
		}
		if v > h.lastCkptVersion {
			h.lastCkptVersion = v
		}
		h.ckptStamped++
		h.mu.Unlock()
	}
	if h.keepCkpts {
		cp := make([]byte, len(data))
		copy(cp, data)
		h.mu.Lock()
		h.seq++
		h.ckpts = append(h.ckpts, checkpoint{h.seq, atomic.LoadInt64(&vclockNanos), cp})
		h.mu.Unlock()
	}
	return nil
}

func (h *harness) EnsureBefore(d time.Duration) {
	due := h.now().Add(d).UnixNano()
	h.mu.Lock()
	if h.ensureDue == 0 || due < h.ensureDue {
		h.ensureDue = due
	}
	h.mu.Unlock()
}

func (h *harness) logEv(e event) {
	h.seq++
	e.Seq = h.seq
	e.VT = atomic.LoadInt64(&vclockNanos)
	h.log = append(h.log, e)
}

func pick(seq []result, n int) result {
	if len(seq) == 0 {
		return result{Kind: "ok"}
	}
	if n >= len(seq) {
		n = len(seq) - 1
	}
	return seq[n]
}

func (h *harness) handler(phase string) state.HandlerFunc {
	return func(t *state.Task, tb *tomb.Tomb) error {
		idx, ok := h.byID[t.ID()]
		if !ok {
			panic("harness: unknown task " + t.ID())
		}
		sp := &h.spec.Tasks[idx]
		key := fmt.Sprintf("%d/%s", idx, phase)
		h.mu.Lock()
		n := h.invCount[key]
		h.invCount[key]++
		inv := &invocation{idx: idx, phase: phase, n: n, gate: make(chan struct{}), tomb: tb, honours: sp.Honours}
		h.cur[idx] = inv
		h.logEv(event{Kind: phase + "-start", Task: idx, N: n})
		h.starts++
		var nap time.Duration
		if !h.controlled {
			nap = time.Duration(h.sleepRnd.Intn(3000)) * time.Microsecond
		}
		h.mu.Unlock()

		killed := false
		if h.controlled {
			if sp.Honours {
				select {
				case <-inv.gate:
				case <-tb.Dying():
					killed = true
				}
			} else {
				<-inv.gate
			}
		} else {
			if sp.Honours {
				select {
				case <-time.After(nap):
				case <-tb.Dying():
					killed = true
				}
			} else {
				time.Sleep(nap)
			}
		}
		if h.midWork {
			// real handlers take the state lock mid-work; this unlock checkpoints
			// concurrently with other handlers' and the runner's unlocks
			h.st.Lock()
			h.version++
			h.st.Set("verif-version", h.version)
			h.st.Unlock()
		}
		var res result
		if phase == "do" {
			res = pick(sp.Do, n)
		} else {
			res = pick(sp.Undo, n)
		}
		if killed {
			res = result{Kind: "retry"}
		}
		h.mu.Lock()
		switch phase + "/" + res.Kind {
		case "do/ok", "do/wait":
			h.world[idx] = true
			delete(h.seeded, idx)
		case "do/err":
			delete(h.world, idx)
			delete(h.seeded, idx)
		case "undo/ok", "undo/wait":
			delete(h.world, idx)
			delete(h.seeded, idx)
		case "undo/err":
			h.undoFail[idx] = true
		}
		h.logEv(event{Kind: phase + "-end", Task: idx, N: n, Result: res.Kind, After: int64(res.After)})
		inv.finished = true
		h.mu.Unlock()
		switch res.Kind {
		case "err":
			// few distinct texts: several failed tasks often share the same message
			return fmt.Errorf("boom-%d-%s", idx%2, phase)
		case "retry":
			return &state.Retry{After: res.After}
		case "wait":
			if phase == "do" {
				return &state.Wait{Reason: "reboot", WaitedStatus: state.DoneStatus}
			}
			return &state.Wait{Reason: "reboot", WaitedStatus: state.UndoneStatus}
		}
		return nil
	}
}

func newHarness(cs *caseSpec) *harness {
	h := &harness{spec: cs, byID: map[string]int{}, invCount: map[string]int{}, cur: map[int]*invocation{},
		world: map[int]bool{}, undoFail: map[int]bool{}, seeded: map[int]bool{}, controlled: cs.Mode == "controlled",
		sleepRnd: rand.New(rand.NewSource(cs.SchedSeed ^ 0x5eed))}
	return h
}

func (h *harness) attachRunner() {
	h.runner = state.NewTaskRunner(h.st)
	h.runner.AddHandler("wu", h.handler("do"), h.handler("undo"))
	h.runner.AddHandler("nu", h.handler("do"), nil)
}

// build creates the state, the changes and tasks of the case.
func (h *harness) build() {
	cs := h.spec
	h.st = state.New(h)
	h.attachRunner()
	st := h.st
	st.Lock()
	defer st.Unlock()
	h.mon = newMonitors(h)
	h.mon.install()
	var chgs []*state.Change
	for c := 0; c < cs.NChanges; c++ {
		chg := st.NewChange(fmt.Sprintf("kind%d", c), fmt.Sprintf("change %d", c))
		chgs = append(chgs, chg)
		h.chgID = append(h.chgID, chg.ID())
	}
	lanes := make([]int, cs.NLanes)
	for l := range lanes {
		lanes[l] = st.NewLane()
	}
	tasks := make([]*state.Task, len(cs.Tasks))
	for i := range cs.Tasks {
		ts := &cs.Tasks[i]
		kind := "nu"
		if ts.HasUndo {
			kind = "wu"
		}
		t := st.NewTask(kind, fmt.Sprintf("task-%d", i))
		tasks[i] = t
		h.byID[t.ID()] = i
		h.ids = append(h.ids, t.ID())
		for _, w := range ts.Waits {
			t.WaitFor(tasks[w])
		}
		for _, l := range ts.Lanes {
			t.JoinLane(lanes[l])
		}
		chgs[ts.Change].AddTask(t)
		if ts.At != 0 {
			t.At(h.now().Add(ts.At))
		}
	}
	h.EnsureBefore(0)
}

// ---------------------------------------------------------------- driver

func (h *harness) tombIDs() []string { return state.VerifTombIDs(h.runner) }

// sync waits until every runner goroutine is parked at its gate (and will stay
// there) and every returned handler's bookkeeping has finished.
func (h *harness) sync() bool {
	for iter := 0; ; iter++ {
		ids := h.tombIDs()
		stable := true
		h.mu.Lock()
		for _, id := range ids {
			inv := h.cur[h.byID[id]]
			if inv == nil || inv.finished || inv.released || (inv.honours && !inv.tomb.Alive()) {
				stable = false
				break
			}
		}
		h.mu.Unlock()
		if stable {
			return true
		}
		if iter < 200 {
			runtime.Gosched()
		} else {
			time.Sleep(20 * time.Microsecond)
		}
		if iter > 3000000 { // ~1 min of polling: harness watchdog, never a verdict
			h.watchdog = true
			return false
		}
	}
}

func (h *harness) blocked() []*invocation {
	ids := h.tombIDs()
	var out []*invocation
	h.mu.Lock()
	for _, id := range ids {
		inv := h.cur[h.byID[id]]
		if inv != nil && !inv.released && !inv.finished {
			out = append(out, inv)
		}
	}
	h.mu.Unlock()
	sort.Slice(out, func(a, b int) bool { return out[a].idx < out[b].idx })
	return out
}

func (h *harness) release(inv *invocation) {
	h.mu.Lock()
	inv.released = true
	h.logEv(event{Kind: "release", Task: inv.idx, N: inv.n, Note: inv.phase})
	h.mu.Unlock()
	close(inv.gate)
}

func (h *harness) doEnsure(note string) {
	h.mu.Lock()
	h.ensureDue = 0
	h.ensures++
	h.logEv(event{Kind: "ensure", Task: -1, Note: note})
	h.mu.Unlock()
	h.runner.Ensure()
}

func (h *harness) waitTasks() []*state.Task {
	var out []*state.Task
	for _, id := range h.ids {
		t := h.st.Task(id)
		if t != nil && t.Status() == state.WaitStatus {
			out = append(out, t)
		}
	}
	return out
}

type runOutcome struct {
	actions   int
	livelock  bool
	sched     []string
	maxOpen   int
	aborts    int
	resolves  int
	clockJump int
}

// runControlled drives the case to quiescence; the action sequence is the
// interleaving.
func (h *harness) runControlled(rnd *rand.Rand) runOutcome {
	var out runOutcome
	bound := 60*len(h.spec.Tasks) + 200
	abortsLeft := h.spec.UserAborts
	idle := 0
	for {
		if !h.sync() {
			return out
		}
		h.st.Lock()
		h.mon.observe("after-action")
		waits := h.waitTasks()
		var abortable []*state.Change
		if abortsLeft > 0 {
			for _, id := range h.chgID {
				if c := h.st.Change(id); c != nil && !c.Status().Ready() {
					abortable = append(abortable, c)
				}
			}
		}
		h.st.Unlock()
		bl := h.blocked()
		if len(bl) > out.maxOpen {
			out.maxOpen = len(bl)
		}
		h.mu.Lock()
		due := h.ensureDue
		h.mu.Unlock()
		now := h.now().UnixNano()

		type action struct {
			kind string
			w    int
		}
		var acts []action
		if due != 0 && due <= now {
			acts = append(acts, action{"ensure", 6})
		}
		if len(bl) > 0 {
			acts = append(acts, action{"release", 6})
			if len(bl) > 1 {
				acts = append(acts, action{"burst", 2})
			}
		}
		if due > now {
			acts = append(acts, action{"clock", 2})
			if due-now > int64(time.Millisecond) {
				acts = append(acts, action{"clock-part", 1})
			}
		}
		if len(waits) > 0 {
			acts = append(acts, action{"resolve", 1})
		}
		if len(abortable) > 0 {
			acts = append(acts, action{"abort", 1})
		}
		if len(acts) == 0 {
			// nothing requested: the overlord's periodic ensure pass. Two such
			// passes in a row that start nothing, change no status and request
			// nothing mean logical quiescence.
			h.st.Lock()
			before := h.mon.taskTrans
			h.st.Unlock()
			atomic.StoreInt64(&vclockNanos, now+int64(5*time.Minute))
			h.doEnsure("periodic")
			if !h.sync() {
				return out
			}
			h.st.Lock()
			after := h.mon.taskTrans
			h.st.Unlock()
			h.mu.Lock()
			due2 := h.ensureDue
			h.mu.Unlock()
			out.actions++
			if out.actions > bound {
				out.livelock = true
				return out
			}
			if after == before && len(h.blocked()) == 0 && due2 == 0 {
				idle++
				if idle >= 2 {
					break
				}
			} else {
				idle = 0
			}
			out.sched = append(out.sched, "P")
			continue
		}
		idle = 0
		acts = append(acts, action{"spurious-ensure", 1})
		out.actions++
		if out.actions > bound {
			out.livelock = true
			return out
		}
		tot := 0
		for _, a := range acts {
			tot += a.w
		}
		x := rnd.Intn(tot)
		var a action
		for _, c := range acts {
			if x < c.w {
				a = c
				break
			}
			x -= c.w
		}
		switch a.kind {
		case "ensure", "spurious-ensure":
			if a.kind == "spurious-ensure" {
				// a periodic ensure pass does not cancel an earlier request
				h.mu.Lock()
				saved := h.ensureDue
				h.mu.Unlock()
				h.doEnsure("spurious")
				h.mu.Lock()
				if saved != 0 && (h.ensureDue == 0 || saved < h.ensureDue) && saved > now {
					h.ensureDue = saved
				}
				h.mu.Unlock()
			} else {
				h.doEnsure("due")
			}
			out.sched = append(out.sched, "E")
		case "release":
			inv := bl[rnd.Intn(len(bl))]
			h.release(inv)
			out.sched = append(out.sched, fmt.Sprintf("R%d%s", inv.idx, inv.phase[:1]))
		case "burst":
			k := 2 + rnd.Intn(len(bl)-1)
			rnd.Shuffle(len(bl), func(i, j int) { bl[i], bl[j] = bl[j], bl[i] })
			s := "B"
			for _, inv := range bl[:k] {
				h.release(inv)
				s += fmt.Sprintf("%d%s,", inv.idx, inv.phase[:1])
			}
			out.sched = append(out.sched, s)
		case "clock":
			atomic.StoreInt64(&vclockNanos, due)
			out.clockJump++
			out.sched = append(out.sched, "C")
		case "clock-part":
			atomic.StoreInt64(&vclockNanos, now+(due-now)/2)
			out.sched = append(out.sched, "c")
		case "resolve":
			h.st.Lock()
			t := waits[rnd.Intn(len(waits))]
			h.mu.Lock()
			h.logEv(event{Kind: "resolve-wait", Task: h.byID[t.ID()], Note: t.WaitedStatus().String()})
			h.mu.Unlock()
			t.SetStatus(t.WaitedStatus())
			h.st.EnsureBefore(0)
			h.st.Unlock()
			out.resolves++
			out.sched = append(out.sched, fmt.Sprintf("W%d", h.byID[t.ID()]))
		case "abort":
			h.st.Lock()
			c := abortable[rnd.Intn(len(abortable))]
			if !c.Status().Ready() { // what daemon.abortChange checks
				h.mu.Lock()
				h.logEv(event{Kind: "user-abort", Task: -1, Note: c.ID()})
				h.mu.Unlock()
				c.Abort()
				h.st.EnsureBefore(0) // ensureStateSoon
				abortsLeft--
				out.aborts++
			}
			h.st.Unlock()
			out.sched = append(out.sched, "A"+c.ID())
		}
	}
	h.st.Lock()
	h.mon.observe("final")
	h.st.Unlock()
	return out
}

// runFree lets handlers sleep for seeded sub-3ms durations while several
// goroutines race Ensure passes; used for the race detector and for lock
// hand-offs that the controlled mode serialises.
func (h *harness) runFree(rnd *rand.Rand) runOutcome {
	var out runOutcome
	var wg sync.WaitGroup
	stop := make(chan struct{})
	var passes int64
	for g := 0; g < 3; g++ {
		wg.Add(1)
		go func(g int) {
			defer wg.Done()
			for {
				select {
				case <-stop:
					return
				default:
				}
				h.mu.Lock()
				due := h.ensureDue
				h.mu.Unlock()
				if due != 0 && due <= h.now().UnixNano() {
					atomic.AddInt64(&passes, 1)
					h.doEnsure(fmt.Sprintf("g%d", g))
				} else {
					time.Sleep(100 * time.Microsecond)
				}
			}
		}(g)
	}
	abortsLeft := h.spec.UserAborts
	idleRounds := 0
	lastIdleTrans := -1
	for iter := 0; ; iter++ {
		time.Sleep(300 * time.Microsecond)
		tombs := h.tombIDs()
		h.mu.Lock()
		due := h.ensureDue
		h.mu.Unlock()
		now := h.now().UnixNano()
		h.st.Lock()
		h.mon.observe("free-poll")
		waits := h.waitTasks()
		if len(waits) > 0 && rnd.Intn(3) == 0 {
			t := waits[rnd.Intn(len(waits))]
			h.mu.Lock()
			h.logEv(event{Kind: "resolve-wait", Task: h.byID[t.ID()], Note: t.WaitedStatus().String()})
			h.mu.Unlock()
			t.SetStatus(t.WaitedStatus())
			h.st.EnsureBefore(0)
			out.resolves++
		}
		if abortsLeft > 0 && rnd.Intn(6) == 0 {
			for _, id := range h.chgID {
				if c := h.st.Change(id); c != nil && !c.Status().Ready() {
					h.mu.Lock()
					h.logEv(event{Kind: "user-abort", Task: -1, Note: c.ID()})
					h.mu.Unlock()
					c.Abort()
					h.st.EnsureBefore(0)
					abortsLeft--
					out.aborts++
					break
				}
			}
		}
		nwaits := len(h.waitTasks())
		// progress = status transitions plus handler invocations: a task
		// retried with After=0 is re-run without any status transition
		h.mu.Lock()
		trans := h.mon.taskTrans + h.starts
		h.mu.Unlock()
		h.st.Unlock()
		if len(tombs) > out.maxOpen {
			out.maxOpen = len(tombs)
		}
		if len(tombs) == 0 && due > now {
			atomic.StoreInt64(&vclockNanos, due)
			out.clockJump++
		}
		if len(tombs) == 0 && due == 0 && nwaits == 0 {
			if trans == lastIdleTrans {
				idleRounds++
			} else {
				idleRounds = 0
			}
			lastIdleTrans = trans
			if idleRounds >= 2 {
				break
			}
			// the overlord's periodic ensure pass
			atomic.StoreInt64(&vclockNanos, now+int64(5*time.Minute))
			h.doEnsure("periodic")
		}
		if iter > 200000 { // ~1 min: watchdog, inconclusive
			h.watchdog = true
			break
		}
	}
	close(stop)
	wg.Wait()
	h.runner.Wait()
	out.actions = int(atomic.LoadInt64(&passes))
	h.st.Lock()
	h.mon.observe("final")
	h.st.Unlock()
	return out
}

func readState(h *harness, data []byte) error {
	st, err := state.ReadState(h, bytes.NewReader(data))
	if err != nil {
		return err
	}
	h.st = st
	return nil
}
