package state_test

import (
	"encoding/json"
	"fmt"
	"sort"
	"strings"
	"sync/atomic"
	"testing"

	kit "verifkit"

	"github.com/snapcore/snapd/overlord/state"
)

type cpTask struct {
	ID           string   `json:"id"`
	Status       int      `json:"status"`
	WaitedStatus int      `json:"waited-status"`
	WaitTasks    []string `json:"wait-tasks"`
	Change       string   `json:"change"`
}

type cpState struct {
	Changes map[string]json.RawMessage `json:"changes"`
	Tasks   map[string]cpTask          `json:"tasks"`
}

// runC04: every checkpoint of an execution is a crash point. The state is
// reloaded from the checkpoint bytes into a fresh State + TaskRunner and driven
// to quiescence under another schedule.
func runC04(t *testing.T) {
	c := kit.New("C04", "fault_enumeration")
	defer c.Done(t)
	chks := map[string]*kit.Check{"C04": c, "C01": c, "C02": c, "C03": c}
	c.Rule("for each generated change (random DAG, lanes, failing/retrying/waiting handlers) the uninterrupted run is recorded once; then for EVERY checkpoint the state backend received (each modifying state unlock = one crash point; quick tier: every 3rd for graphs > 8 tasks) the checkpoint bytes are reloaded with ReadState into a fresh runner and driven to quiescence under a different seeded schedule. Monitors: no do handler for a task the checkpoint records as finished, no undo handler for one recorded Undone/Hold/Error, every task recorded Doing/Undoing is run again, no task/change id lost or duplicated, the resumed run satisfies the C01/C02/C03 oracles, and (cases with at most one failing task) the change ends in the same status as the uninterrupted run. Non-trivial: the checkpoint has at least one task in flight (Doing/Undoing/Abort) or a mix of finished and unstarted tasks; distinct = (case, checkpoint statuses) signature.")
	c.Assume("crash model: the process stops right after a checkpoint was handed to the backend; everything later is lost (torn file writes are C06's subject)")
	c.Assume("task work is idempotent: an effect of a task that was running at the crash may or may not be present (both are seeded)")
	c.Floor("crash_points", 200)
	opts := genOpts{maxTasks: kit.Scale(10, 16), waits: true, atTimes: true, failures: true}
	n := kit.Scale(120, 260)
	only := kit.OnlyCase()
	// free-running cases with handlers that lock/modify/unlock the state
	// mid-work over a slow backend: checkpoints must be written in lock order,
	// otherwise the state file can go back in time and a restart redoes work
	nFree := kit.Scale(80, 200)
	for i := 0; i < nFree; i++ {
		if only >= 0 {
			break
		}
		rnd := kit.CaseRand("c04-free", i)
		cs := genCase(rnd, 100000+i, genOpts{maxTasks: 12, waits: false, atTimes: false, failures: true})
		cs.Mode = "free"
		atomic.StoreInt64(&vclockNanos, epoch.UnixNano())
		h := newHarness(cs)
		h.midWork, h.slowCkpt = true, true
		h.build()
		out := h.runFree(kit.CaseRand("c04-free-sched", i))
		_ = out
		c.Eval()
		c.Count("free_running_cases_with_mid_work_unlocks", 1)
		c.Count("checkpoints_with_version_stamp", h.ckptStamped)
		if h.watchdog {
			c.Inconclusive(fmt.Sprintf("free case %d: watchdog", i))
			continue
		}
		if h.ckptOutOfOrder > 0 {
			c.Violation("C04:checkpoint-written-out-of-order", map[string]interface{}{"case_index": cs.Index, "case": cs,
				"count": h.ckptOutOfOrder, "first": h.ckptWitness})
		}
		if h.ckptStamped > 3 {
			c.Nontrivial(cs.signature("free-midwork"))
		}
	}
	for i := 0; i < n; i++ {
		if only >= 0 && i != only {
			continue
		}
		rnd := kit.CaseRand("c04", i)
		o := opts
		if i%3 == 0 {
			o.maxTasks = 5
		}
		cs := genCase(rnd, i, o)
		base := runCase(cs, true, true)
		report(chks, cs, base)
		if base.h.watchdog || base.out.livelock {
			continue
		}
		nfailSpec := 0
		for k := range cs.Tasks {
			if cs.Tasks[k].failsDo || cs.Tasks[k].failsUnd {
				nfailSpec++
			}
		}
		step := 1
		if kit.Quick() && len(cs.Tasks) > 8 {
			step = 3
		}
		c.Count("uninterrupted_runs", 1)
		c.Count("checkpoints_captured", len(base.h.ckpts))
		for ci := 0; ci < len(base.h.ckpts); ci += step {
			cp := base.h.ckpts[ci]
			var parsed cpState
			if err := json.Unmarshal(cp.data, &parsed); err != nil {
				c.Violation("C04:checkpoint-not-json", map[string]interface{}{"case_index": i, "checkpoint": ci, "err": err.Error()})
				continue
			}
			cs2 := *cs
			cs2.SchedSeed = cs.SchedSeed*31 + int64(ci) + 7
			h2 := newHarness(&cs2)
			atomic.StoreInt64(&vclockNanos, cp.vt)
			if err := readState(h2, cp.data); err != nil {
				c.Violation("C04:checkpoint-does-not-reload", map[string]interface{}{"case_index": i, "checkpoint": ci, "err": err.Error()})
				continue
			}
			h2.byID = base.h.byID
			h2.ids = base.h.ids
			h2.chgID = base.h.chgID
			h2.attachRunner()
			seedRnd := kit.CaseRand("c04-seed", i*1000+ci)
			cpStatus := map[int]int{}
			inflight, finished, unstarted := 0, 0, 0
			h2.st.Lock()
			h2.mon = newMonitors(h2)
			h2.mon.resumed = true
			h2.mon.install()
			// ids: reloaded == recorded
			var got, want []string
			for _, tk := range h2.st.Tasks() {
				got = append(got, tk.ID())
			}
			for id := range parsed.Tasks {
				want = append(want, id)
			}
			sort.Strings(got)
			sort.Strings(want)
			if strings.Join(got, ",") != strings.Join(want, ",") || len(h2.st.Changes()) != len(parsed.Changes) {
				c.Violation("C04:ids-differ-after-reload", map[string]interface{}{"case_index": i, "checkpoint": ci, "reloaded": got, "recorded": want})
			}
			for id, pt := range parsed.Tasks {
				idx, ok := h2.byID[id]
				if !ok {
					continue
				}
				cpStatus[idx] = pt.Status
				switch state.Status(pt.Status) {
				case state.DoneStatus, state.UndoStatus:
					h2.world[idx] = true
					finished++
				case state.WaitStatus:
					if state.Status(pt.WaitedStatus) == state.DoneStatus || pt.WaitedStatus == 0 {
						h2.world[idx] = true
					}
					finished++
				case state.DoingStatus, state.AbortStatus, state.UndoingStatus:
					if seedRnd.Intn(2) == 0 {
						h2.world[idx] = true
					}
					h2.seeded[idx] = true
					inflight++
				case state.ErrorStatus:
					h2.seeded[idx] = true
					finished++
				case state.DefaultStatus, state.DoStatus:
					unstarted++
				default:
					finished++
				}
				if state.Status(pt.Status) == state.DoneStatus || (state.Status(pt.Status) == state.WaitStatus && state.Status(pt.WaitedStatus) != state.UndoneStatus) {
					h2.mon.preDone[idx] = true
				}
				if state.Status(pt.Status) == state.UndoneStatus || (state.Status(pt.Status) == state.WaitStatus && state.Status(pt.WaitedStatus) == state.UndoneStatus) {
					h2.mon.preUndone[idx] = true
				}
			}
			h2.st.Unlock()
			h2.EnsureBefore(0) // the ensure pass after startup
			out := h2.runControlled(kit.CaseRand("c04-sched", i*1000+ci))
			res := caseResult{h: h2, out: out}
			if !h2.watchdog && !out.livelock {
				res.fv = h2.finalOracles(true)
			}
			c.Eval()
			c.Count("crash_points", 1)
			countEvents(c, res)
			// re-tag foreign-property violations so the signature says where they came from
			for k := range h2.mon.viols {
				h2.mon.viols[k].Sig = "C04:resumed-run:" + h2.mon.viols[k].Sig
				h2.mon.viols[k].Prop = "C04"
			}
			witness := func(extra map[string]interface{}) map[string]interface{} {
				m := map[string]interface{}{"case_index": i, "checkpoint": ci, "case": cs, "checkpoint_status": cpStatus, "schedule": strings.Join(out.sched, " ")}
				for k, v := range extra {
					m[k] = v
				}
				return m
			}
			if h2.watchdog || out.livelock {
				c.Inconclusive(fmt.Sprintf("case %d checkpoint %d: resumed run did not reach quiescence within the step bound", i, ci))
				continue
			}
			report(map[string]*kit.Check{"C04": c}, &cs2, res)
			doInv, undoInv, aborted := map[int]int{}, map[int]int{}, map[int]bool{}
			for _, e := range h2.log {
				if e.Kind == "do-start" {
					doInv[e.Task]++
				} else if e.Kind == "undo-start" {
					undoInv[e.Task]++
				} else if e.Kind == "status" && (e.New == "Abort" || e.New == "Hold" || e.New == "Error") {
					// aborted (by another task's failure) before it came up for re-running
					aborted[e.Task] = true
				}
			}
			for idx, s := range cpStatus {
				st := state.Status(s)
				if doInv[idx] > 0 && st != state.DefaultStatus && st != state.DoStatus && st != state.DoingStatus {
					c.Violation("C04:finished-task-run-again", witness(map[string]interface{}{"task": idx, "recorded_status": st.String()}))
				}
				if undoInv[idx] > 0 && (st == state.UndoneStatus || st == state.HoldStatus || st == state.ErrorStatus) {
					c.Violation("C04:undone-task-undone-again", witness(map[string]interface{}{"task": idx, "recorded_status": st.String()}))
				}
				if st == state.DoingStatus && doInv[idx] == 0 && !aborted[idx] {
					c.Violation("C04:running-task-not-run-again", witness(map[string]interface{}{"task": idx}))
				}
				if st == state.UndoingStatus && undoInv[idx] == 0 && !aborted[idx] {
					c.Violation("C04:undoing-task-not-undone-again", witness(map[string]interface{}{"task": idx}))
				}
			}
			h2.st.Lock()
			if len(h2.st.Tasks()) != len(parsed.Tasks) || len(h2.st.Changes()) != len(parsed.Changes) {
				c.Violation("C04:task-or-change-count-changed", witness(nil))
			}
			h2.st.Unlock()
			if nfailSpec <= 1 && cs.UserAborts == 0 {
				c.Count("outcome_comparisons", 1)
				if res.fv.chg[0] != base.fv.chg[0] {
					c.Violation("C04:outcome-differs-from-uninterrupted-run", witness(map[string]interface{}{
						"uninterrupted": base.fv.chg[0].String(), "resumed": res.fv.chg[0].String()}))
				}
			}
			if inflight > 0 || (finished > 0 && unstarted > 0) {
				var ss []string
				for k := 0; k < len(cs.Tasks); k++ {
					ss = append(ss, fmt.Sprint(cpStatus[k]))
				}
				c.Nontrivial(cs.signature(strings.Join(ss, ",")))
				if inflight > 0 {
					c.Count("crash_points_with_task_in_flight", 1)
				}
				if ci%7 == 3 {
					c.Sample(map[string]interface{}{"case_index": i, "checkpoint": ci, "of": len(base.h.ckpts), "tasks": cs.Tasks,
						"checkpoint_status": cpStatus, "resumed_schedule": strings.Join(out.sched, " ")})
				}
			}
		}
	}
}
