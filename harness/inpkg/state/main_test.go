package state_test

import (
	"fmt"
	"os"
	"strings"
	"sync/atomic"
	"testing"

	kit "verifkit"

	"github.com/snapcore/snapd/overlord/state"
)

func TestVerifState(t *testing.T) {
	restore := state.VerifSetTimeNow(vnow)
	defer restore()
	atomic.StoreInt64(&vclockNanos, epoch.UnixNano())
	switch prop := os.Getenv("VERIF_PROP"); prop {
	case "C01", "C02":
		runC0102(t)
	case "C03":
		runC03(t)
	case "C04":
		runC04(t)
	case "C09":
		runC09(t)
	default:
		t.Fatalf("VERIF_PROP=%q not served by this harness", prop)
	}
}

type caseResult struct {
	h   *harness
	out runOutcome
	fv  finalView
}

// runCase executes one case and evaluates all oracles.
func runCase(cs *caseSpec, withSets bool, keepCkpts bool) caseResult {
	atomic.StoreInt64(&vclockNanos, epoch.UnixNano())
	h := newHarness(cs)
	h.keepCkpts = keepCkpts
	h.build()
	rnd := kit.CaseRand("sched", int(cs.SchedSeed%1000003))
	var out runOutcome
	if cs.Mode == "controlled" {
		out = h.runControlled(rnd)
	} else {
		out = h.runFree(rnd)
	}
	var fv finalView
	if !h.watchdog && !out.livelock {
		fv = h.finalOracles(withSets)
	}
	return caseResult{h, out, fv}
}

func report(chks map[string]*kit.Check, cs *caseSpec, res caseResult) {
	for _, v := range res.h.mon.viols {
		c := chks[v.Prop]
		if c == nil {
			continue
		}
		log := res.h.log
		if len(log) > 400 {
			log = log[len(log)-400:]
		}
		c.Violation(v.Sig, map[string]interface{}{"case_index": cs.Index, "mode": cs.Mode, "case": cs, "detail": v.Detail,
			"schedule": strings.Join(res.out.sched, " "), "event_log_tail": log})
	}
	if res.h.watchdog {
		for _, c := range chks {
			c.Inconclusive(fmt.Sprintf("case %d (%s): harness watchdog fired", cs.Index, cs.Mode))
		}
	}
	if res.out.livelock {
		for _, c := range chks {
			c.Inconclusive(fmt.Sprintf("case %d (%s): step bound exceeded without reaching quiescence (possible livelock)", cs.Index, cs.Mode))
		}
	}
}

func countEvents(c *kit.Check, res caseResult) {
	h := res.h
	inv := 0
	for _, e := range h.log {
		if e.Kind == "do-start" || e.Kind == "undo-start" {
			inv++
		}
	}
	c.Count("handler_invocations", inv)
	c.Count("task_status_transitions", h.mon.taskTrans)
	c.Count("change_status_notifications", h.mon.chgTrans)
	c.Count("start_transition_checks", h.mon.startChecks)
	c.Count("change_status_observations", h.mon.statusObs)
	c.Count("ensure_passes", h.ensures)
	c.Count("driver_actions", res.out.actions)
	c.Count("wait_resolutions", res.out.resolves)
	c.Count("user_aborts", res.out.aborts)
	c.Count("clock_jumps", res.out.clockJump)
	c.Max("max_handlers_open_at_once", res.out.maxOpen)
}

func summarize(cs *caseSpec, res caseResult) map[string]interface{} {
	st := map[string]string{}
	for i, s := range res.fv.status {
		st[fmt.Sprint(i)] = s.String()
	}
	return map[string]interface{}{"case_index": cs.Index, "mode": cs.Mode, "tasks": cs.Tasks, "n_lanes": cs.NLanes,
		"schedule": strings.Join(res.out.sched, " "), "final_task_status": st}
}

func runC0102(t *testing.T) {
	c1 := kit.New("C01", "exploration")
	c2 := kit.New("C02", "exploration")
	defer c1.Done(t)
	defer c2.Done(t)
	chks := map[string]*kit.Check{"C01": c1, "C02": c2}
	rule := "random acyclic task graphs (2..N tasks, random wait edges, lanes: none / inherited / random subsets incl. multi-lane tasks / few), per-task handler scripts (retries with/without delay, failure in do and/or undo, Wait results, tasks without undo, handlers that ignore or honour the tomb, At-times), executed by the real TaskRunner under (a) a seeded scheduler that chooses every Ensure pass, handler completion, burst, clock step and wait resolution (the action sequence is the interleaving) and (b) free-running handlers with racing Ensure passes under the race detector. "
	c1.Rule(rule + "Non-trivial for C01: at least one task ended in Error and at least one task was undone or put on hold; distinct = (graph, scripts, action schedule / final statuses) signature.")
	c2.Rule(rule + "Non-trivial for C02: the graph has at least one wait edge and at least one start transition was checked while some other task was unfinished; distinct = (graph, scripts, schedule) signature.")
	for _, c := range chks {
		c.Assume("handlers eventually return; effects are idempotent sets (do adds, undo removes, a failed do cleans up after itself)")
		c.Assume("controlled mode serialises runner bookkeeping; races inside lock hand-offs are exercised by the free-running mode under -race only")
	}
	c1.Floor("handler_invocations", 500)
	c2.Floor("start_transition_checks", 500)
	opts := genOpts{maxTasks: kit.Scale(14, 40), waits: true, atTimes: true, failures: true}
	nCtl := kit.Scale(1500, 4000)
	nFree := kit.Scale(100, 300)
	only := kit.OnlyCase()
	for i := 0; i < nCtl+nFree; i++ {
		if only >= 0 && i != only {
			continue
		}
		rnd := kit.CaseRand("c0102", i)
		o := opts
		if i%5 == 0 {
			o.maxTasks = 6 // small graphs: dense coverage of orders
		}
		cs := genCase(rnd, i, o)
		if i >= nCtl {
			cs.Mode = "free"
		}
		res := runCase(cs, true, false)
		report(chks, cs, res)
		c1.Eval()
		c2.Eval()
		countEvents(c1, res)
		countEvents(c2, res)
		nErr, nRev, edges := 0, 0, 0
		fin := ""
		for k := range cs.Tasks {
			s := res.fv.status[k]
			fin += s.String()[:2]
			if s == state.ErrorStatus {
				nErr++
			}
			if s == state.UndoneStatus || s == state.HoldStatus {
				nRev++
			}
			edges += len(cs.Tasks[k].Waits)
		}
		if nErr > 0 && nRev > 0 {
			c1.Nontrivial(cs.signature(fin, strings.Join(res.out.sched, "")))
			c1.Count("cases_with_failure_and_undo", 1)
			c1.Sample(summarize(cs, res))
		}
		if edges > 0 && res.h.mon.startChecks > 1 {
			c2.Nontrivial(cs.signature(strings.Join(res.out.sched, "")))
			c2.Sample(summarize(cs, res))
		}
		if cs.Mode == "free" {
			c1.Count("free_running_cases", 1)
			c2.Count("free_running_cases", 1)
		}
	}
}

func runC03(t *testing.T) {
	c3 := kit.New("C03", "exploration")
	defer c3.Done(t)
	chks := map[string]*kit.Check{"C03": c3}
	c3.Rule("1-3 concurrent changes over random task graphs with failures, retries, Wait results and user aborts issued only on unready changes (followed by an ensure request, as the REST API does), driven by the seeded scheduler (and free-running under the race detector); after every driver action each change's (IsReady, Status, ReadyTime) is observed: Status is compared with an independent implementation of the documented aggregate, a latch enforces ready-once and ready-time immutability, and at logical quiescence (no handler running, no ensure requested, nothing scheduled, no task in Wait) every change must be ready, its last notified status must equal the final one, a change-update notice must exist and Err() must name every failed task. Non-trivial: the case had a failure, a user abort or a Wait resolution; distinct = (graphs, scripts, schedule) signature.")
	c3.Assume("handlers eventually return; user aborts are only issued on changes whose Status() is not ready, in the same lock hold (what daemon.abortChange does)")
	c3.Floor("change_status_observations", 1000)
	opts := genOpts{maxTasks: kit.Scale(12, 30), multiChg: true, userAborts: true, waits: true, atTimes: true, failures: true}
	nCtl := kit.Scale(1500, 4000)
	nFree := kit.Scale(100, 300)
	only := kit.OnlyCase()
	for i := 0; i < nCtl+nFree; i++ {
		if only >= 0 && i != only {
			continue
		}
		rnd := kit.CaseRand("c03", i)
		cs := genCase(rnd, i, opts)
		if i >= nCtl {
			cs.Mode = "free"
		}
		res := runCase(cs, false, false)
		report(chks, cs, res)
		c3.Eval()
		countEvents(c3, res)
		nErr := 0
		for k := range cs.Tasks {
			if res.fv.status[k] == state.ErrorStatus {
				nErr++
			}
		}
		if nErr > 0 || res.out.aborts > 0 || res.out.resolves > 0 {
			c3.Nontrivial(cs.signature(strings.Join(res.out.sched, "")))
			c3.Sample(summarize(cs, res))
		}
		if cs.Mode == "free" {
			c3.Count("free_running_cases", 1)
		}
	}
}
