// C15, second unit — the same bounds decided end to end through the two
// production callers the statement names: the gate-auto-refresh hook handler
// (overlord/hookstate/hooks.go) and `snapctl refresh --hold/--proceed`
// (overlord/hookstate/ctlcmd/refresh.go).
//
// The real HookManager runs real gate-auto-refresh hook tasks; the hook
// "script" is a mocked hook runner that does what a shell script could do:
// call ctlcmd.Run(ctx, ["refresh", "--hold"|"--proceed"]) or nothing, then exit
// 0 or non-zero. A statement-only model (episode start per (held, holder),
// last refresh per snap, 48 h / 90 d by value) judges snapstate.HeldSnaps
// after every hook run and at probe instants, and whether a hook run that
// happens once a bound is reached leaves the hold in place.
//
// Time: snapstate's clock cannot be replaced from this package, so a clock
// advance by d is emulated by moving every stored instant ("snaps-hold"
// first-held / hold-until, every snap's LastRefreshTime) d into the past, as
// /verif/seeded/C15/zz_seed_demo_test.go does. The model lives in the same
// frame: its instants are real instants, shifted by the same d, and every
// instant snapd picked itself (first-held, the "now" of HeldSnaps) is only
// known to the model as an interval [before the call, after the call]. All
// verdicts are definite in interval terms; the speed of the machine only
// decides how close to a bound a verdict is still possible.
package hookstate_test

import (
	"errors"
	"fmt"
	"math"
	"math/rand"
	"os"
	"sort"
	"strings"
	"sync"
	"time"

	. "gopkg.in/check.v1"
	"gopkg.in/tomb.v2"

	kit "verifkit"

	"github.com/snapcore/snapd/overlord/hookstate"
	"github.com/snapcore/snapd/overlord/hookstate/ctlcmd"
	"github.com/snapcore/snapd/overlord/snapstate"
	"github.com/snapcore/snapd/overlord/snapstate/snapstatetest"
	"github.com/snapcore/snapd/overlord/state"
	"github.com/snapcore/snapd/snap"
	"github.com/snapcore/snapd/snap/snaptest"
)

// The bounds of the statement, by value.
const (
	c15hOtherBound = 48 * time.Hour
	c15hTotalBound = 90 * 24 * time.Hour
)

type verifC15HookSuite struct {
	gateAutoRefreshHookSuite
}

var _ = Suite(&verifC15HookSuite{})

// snap-a (hook, base: base-snap-a), base-snap-a and snap-b come from the
// embedded suite's SetUpTest.
const c15hSnapC = `name: snap-c
version: 1
base: base-snap-a
hooks:
    gate-auto-refresh:
`

const c15hSnapD = `name: snap-d
version: 1
base: base-snap-d
hooks:
    gate-auto-refresh:
`

const c15hBaseD = `name: base-snap-d
version: 1
type: base
`

const c15hKernel = `name: kernel-k
version: 1
type: kernel
`

var (
	c15hGating = []string{"snap-a", "snap-c", "snap-d"}
	c15hAll    = []string{"snap-a", "snap-c", "snap-d", "base-snap-a", "base-snap-d", "kernel-k", "snap-b"}
	c15hBase   = map[string]string{"snap-a": "base-snap-a", "snap-c": "base-snap-a", "snap-d": "base-snap-d"}
)

// ---- model ------------------------------------------------------------------------

type c15hIval struct{ Lo, Hi time.Time }

type c15hEpisode struct {
	Start c15hIval `json:"start"`
	Live  bool     `json:"live"`
	Ended string   `json:"ended,omitempty"`
	Runs  int      `json:"hook-runs"`
}

type c15hKey struct{ Held, Holder string }

type c15hScript struct {
	Snap string `json:"snap"`
	// hold | proceed | none | hold-twice (opt-in)
	Call string `json:"call"`
	// zero | nonzero | status (exit with the status of snapctl, "set -e")
	Exit string `json:"exit"`
	// filled in by the run
	Snapctl string `json:"snapctl,omitempty"`
	HookErr bool   `json:"hook-failed,omitempty"`
}

type c15hOp struct {
	Kind       string       `json:"op"`
	Scripts    []c15hScript `json:"scripts,omitempty"`
	Candidates []string     `json:"candidates,omitempty"`
	Snap       string       `json:"snap,omitempty"`
	Advance    string       `json:"advance,omitempty"`
	Elapsed    string       `json:"virtual-elapsed"`
	HeldAfter  []string     `json:"held-after,omitempty"`
	shape      string
}

type c15hRun struct {
	s   *verifC15HookSuite
	c   *C
	chk *kit.Check
	idx int
	r   *rand.Rand
	st  *state.State

	gating      []string
	lastRefresh map[string]time.Time
	ep          map[c15hKey]*c15hEpisode
	elapsed     time.Duration
	ops         []c15hOp
	setup       map[string]string

	mu      sync.Mutex
	scripts map[string]*c15hScript

	established, atBound int
	failed               bool
}

func (h *c15hRun) dump() map[string]interface{} {
	eps := map[string]*c15hEpisode{}
	for k, e := range h.ep {
		eps[k.Held+" held-by "+k.Holder] = e
	}
	lr := map[string]string{}
	for n, t := range h.lastRefresh {
		lr[n] = t.Format(time.RFC3339Nano)
	}
	return map[string]interface{}{"episodes": eps, "last-refresh": lr}
}

func (h *c15hRun) violation(sig string, extra map[string]interface{}) {
	h.failed = true
	var raw interface{}
	h.st.Get("snaps-hold", &raw)
	w := map[string]interface{}{
		"unit":            "hooks",
		"case_index":      h.idx,
		"setup":           h.setup,
		"ops":             h.ops,
		"real-now":        time.Now().Format(time.RFC3339Nano),
		"virtual-elapsed": h.elapsed.String(),
		"model":           h.dump(),
		"snaps-hold":      raw,
	}
	for k, v := range extra {
		w[k] = v
	}
	h.chk.Violation(sig, w)
}

func (h *c15hRun) broken(format string, args ...interface{}) {
	h.failed = true
	h.chk.Inconclusive(fmt.Sprintf("hooks unit, case %d: ", h.idx) + fmt.Sprintf(format, args...))
}

// ---- emulated clock ----------------------------------------------------------------

// shift moves the clock d forward (d may be negative to undo a probe) by
// moving every stored instant and every instant of the model d back.
func (h *c15hRun) shift(d time.Duration) {
	var gating map[string]map[string]map[string]interface{}
	err := h.st.Get("snaps-hold", &gating)
	if err != nil && !errors.Is(err, state.ErrNoState) {
		h.broken("cannot read snaps-hold: %v", err)
		return
	}
	if err == nil {
		for _, holds := range gating {
			for _, hold := range holds {
				for _, key := range []string{"first-held", "hold-until"} {
					str, _ := hold[key].(string)
					t, perr := time.Parse(time.RFC3339Nano, str)
					if perr != nil {
						h.broken("cannot parse %s %q: %v", key, str, perr)
						return
					}
					hold[key] = t.Add(-d).Format(time.RFC3339Nano)
				}
			}
		}
		h.st.Set("snaps-hold", gating)
	}
	for n, t := range h.lastRefresh {
		h.lastRefresh[n] = t.Add(-d)
	}
	for _, e := range h.ep {
		e.Start.Lo = e.Start.Lo.Add(-d)
		e.Start.Hi = e.Start.Hi.Add(-d)
	}
	h.writeLastRefresh()
	h.elapsed += d
}

func (h *c15hRun) writeLastRefresh() {
	// one read-modify-write of the "snaps" entry (same effect as Get/Set of
	// every SnapState with LastRefreshTime changed)
	var snaps map[string]map[string]interface{}
	if err := h.st.Get("snaps", &snaps); err != nil {
		h.broken("cannot get snaps: %v", err)
		return
	}
	for _, n := range c15hAll {
		if snaps[n] == nil {
			h.broken("snap %s is not in the state", n)
			return
		}
		snaps[n]["last-refresh-time"] = h.lastRefresh[n].Format(time.RFC3339Nano)
	}
	h.st.Set("snaps", snaps)
}

// ---- observation ----------------------------------------------------------------------

type c15hObs struct {
	level snapstate.HoldLevel
	p0    time.Time // before the HeldSnaps call
	p1    time.Time // after it
	held  map[string][]string
}

// read calls the real HeldSnaps for both levels.
func (h *c15hRun) read(probe bool) []c15hObs {
	var out []c15hObs
	for _, level := range []snapstate.HoldLevel{snapstate.HoldAutoRefresh, snapstate.HoldGeneral} {
		p0 := time.Now()
		held, err := snapstate.HeldSnaps(h.st, level)
		p1 := time.Now()
		if err != nil {
			h.violation("C15:heldsnaps-error", map[string]interface{}{"error": err.Error()})
			return out
		}
		h.chk.Count("hook_heldsnaps_calls", 1)
		if probe {
			h.chk.Count("hook_probes", 1)
		}
		out = append(out, c15hObs{level, p0, p1, held})
	}
	return out
}

func c15hReported(obs []c15hObs) map[c15hKey]bool {
	reported := map[c15hKey]bool{}
	for _, o := range obs {
		if o.level != snapstate.HoldAutoRefresh {
			continue
		}
		for x, holders := range o.held {
			for _, g := range holders {
				reported[c15hKey{x, g}] = true
			}
		}
	}
	return reported
}

// judge applies the two bounds of the statement to what HeldSnaps answered.
func (h *c15hRun) judge(obs []c15hObs, probe bool) {
	reported := c15hReported(obs)
	for _, o := range obs {
		for x, holders := range o.held {
			for _, g := range holders {
				h.chk.Count("hook_gating_hold_reported", 1)
				extra := map[string]interface{}{"held": x, "holder": g, "probe": probe, "level": int(o.level)}
				e := h.ep[c15hKey{x, g}]
				if e == nil {
					h.violation("C15:reported-hold-never-requested:snap", extra)
					continue
				}
				extra["episode-start"] = e.Start
				extra["last-refresh"] = h.lastRefresh[x]
				if g != x && o.p0.After(e.Start.Hi.Add(c15hOtherBound)) {
					extra["over"] = o.p0.Sub(e.Start.Hi.Add(c15hOtherBound)).String()
					h.violation("C15:held-past-48h-of-first-hold", extra)
				}
				if o.p0.After(h.lastRefresh[x].Add(c15hTotalBound)) {
					extra["over"] = o.p0.Sub(h.lastRefresh[x].Add(c15hTotalBound)).String()
					sig := "C15:held-past-90d-of-last-refresh:other"
					if g == x {
						sig = "C15:held-past-90d-of-last-refresh:self"
					}
					h.violation(sig, extra)
				}
			}
		}
		if o.level == snapstate.HoldAutoRefresh {
			for k, e := range h.ep {
				if !e.Live || reported[k] {
					continue
				}
				if (k.Held != k.Holder && o.p1.After(e.Start.Hi.Add(c15hOtherBound))) || o.p1.After(h.lastRefresh[k.Held].Add(c15hTotalBound)) {
					h.chk.Count("hook_live_episode_past_bound_not_reported", 1)
				}
			}
		}
	}
}

// observe = read + judge; returns the (held, holder) pairs reported at
// auto-refresh level.
func (h *c15hRun) observe(probe bool) map[c15hKey]bool {
	obs := h.read(probe)
	h.judge(obs, probe)
	return c15hReported(obs)
}

func (h *c15hRun) bounds() []time.Time {
	var out []time.Time
	keys := make([]c15hKey, 0, len(h.ep))
	for k, e := range h.ep {
		if e.Live {
			keys = append(keys, k)
		}
	}
	sort.Slice(keys, func(i, j int) bool {
		if keys[i].Held != keys[j].Held {
			return keys[i].Held < keys[j].Held
		}
		return keys[i].Holder < keys[j].Holder
	})
	seen := map[int64]bool{}
	add := func(t time.Time) {
		if !seen[t.UnixNano()] {
			seen[t.UnixNano()] = true
			out = append(out, t)
		}
	}
	for _, k := range keys {
		if k.Held != k.Holder {
			add(h.ep[k].Start.Hi.Add(c15hOtherBound))
		}
		add(h.lastRefresh[k.Held].Add(c15hTotalBound))
	}
	return out
}

var c15hOffsets = []time.Duration{-time.Hour, -10 * time.Second, 10 * time.Second, time.Hour}

// sweep probes HeldSnaps around every bound of every live episode and at one
// far instant: the clock is moved forward from probe instant to probe instant
// and finally back to where it was.
func (h *c15hRun) sweep() {
	now := time.Now()
	var ds []time.Duration
	for _, b := range h.bounds() {
		for _, off := range c15hOffsets {
			if d := b.Add(off).Sub(now); d > 0 {
				ds = append(ds, d)
			}
		}
	}
	ds = append(ds, c15hTotalBound+time.Duration(1+h.r.Intn(10*24))*time.Hour)
	sort.Slice(ds, func(i, j int) bool { return ds[i] < ds[j] })
	var moved time.Duration
	for _, d := range ds {
		if h.failed {
			break
		}
		if d-moved < time.Second && moved > 0 {
			continue
		}
		h.shift(d - moved)
		moved = d
		h.observe(true)
	}
	h.shift(-moved)
}

// ---- operations --------------------------------------------------------------------------

func (h *c15hRun) record(op c15hOp) {
	op.Elapsed = h.elapsed.String()
	h.ops = append(h.ops, op)
}

// hookInvoke is the mocked hook runner: the "script" of the gating snap.
func (h *c15hRun) hookInvoke(ctx *hookstate.Context, tomb *tomb.Tomb) ([]byte, error) {
	h.mu.Lock()
	sc := h.scripts[ctx.InstanceName()]
	h.mu.Unlock()
	if sc == nil || ctx.HookName() != "gate-auto-refresh" {
		return nil, fmt.Errorf("harness: unexpected hook %s of %s", ctx.HookName(), ctx.InstanceName())
	}
	var callErr error
	call := func(arg string) error {
		_, _, err := ctlcmd.Run(ctx, []string{"refresh", arg}, 0)
		return err
	}
	switch sc.Call {
	case "hold", "hold-twice":
		callErr = call("--hold")
		if callErr != nil && sc.Call == "hold-twice" {
			callErr = call("--hold")
		}
	case "proceed":
		callErr = call("--proceed")
	}
	h.mu.Lock()
	switch {
	case sc.Call == "none":
		sc.Snapctl = ""
	case callErr == nil:
		sc.Snapctl = "ok"
	case strings.Contains(callErr.Error(), "cannot hold"):
		sc.Snapctl = "refused"
	default:
		sc.Snapctl = "error: " + callErr.Error()
	}
	fail := sc.Exit == "nonzero" || (sc.Exit == "status" && callErr != nil)
	sc.HookErr = fail
	h.mu.Unlock()
	if fail {
		out := "hook failed"
		if callErr != nil {
			out = "error: " + callErr.Error()
		}
		return []byte(out), fmt.Errorf("exit status 1")
	}
	return nil, nil
}

// opRound is one auto-refresh attempt: refresh-candidates are set and the
// gate-auto-refresh hooks of the given gating snaps run, chained, in one change.
func (h *c15hRun) opRound(scripts []c15hScript, candidates []string) {
	st := h.st
	cands := map[string]interface{}{}
	for _, n := range candidates {
		cands[n] = mockRefreshCandidate(n, "", "edge", "v2", snap.Revision{N: 7})
	}
	st.Set("refresh-candidates", cands)

	h.mu.Lock()
	h.scripts = map[string]*c15hScript{}
	for i := range scripts {
		h.scripts[scripts[i].Snap] = &scripts[i]
	}
	h.mu.Unlock()

	change := st.NewChange("auto-refresh-gating", "verif C15 hook round")
	var prev *state.Task
	var tasks []*state.Task
	for _, sc := range scripts {
		t := hookstate.SetupGateAutoRefreshHook(st, sc.Snap)
		if prev != nil {
			t.WaitFor(prev)
		}
		change.AddTask(t)
		tasks = append(tasks, t)
		prev = t
	}

	t0 := time.Now()
	st.Unlock()
	err := h.s.o.Settle(2 * time.Minute)
	st.Lock()
	t1 := time.Now()
	if err != nil {
		h.broken("Settle: %v", err)
		return
	}
	if change.Status() != state.DoneStatus {
		var logs []string
		for _, t := range tasks {
			logs = append(logs, t.Log()...)
		}
		h.broken("hook change is %s: %s", change.Status(), strings.Join(logs, "; "))
		return
	}

	h.chk.Count("hook_rounds", 1)
	// what HeldSnaps says right after the hooks: first used to update the
	// episode bookkeeping (a hook run is one hold request), then judged
	obs := h.read(false)
	if h.failed {
		return
	}
	reported := c15hReported(obs)

	op := c15hOp{Kind: "hooks", Scripts: scripts, Candidates: candidates}
	shapes := []string{}
	for _, sc := range scripts {
		g := sc.Snap
		kind := sc.Call + "/exit-" + sc.Exit
		h.chk.Count("hook_runs", 1)
		h.chk.Count("hook_script_"+sc.Call+"_exit-"+sc.Exit, 1)
		switch sc.Snapctl {
		case "ok":
			h.chk.Count("hook_snapctl_"+sc.Call+"_ok", 1)
		case "refused":
			h.chk.Count("hook_snapctl_hold_refused", 1)
		case "":
		default:
			h.chk.Count("hook_snapctl_other_error", 1)
		}
		if sc.HookErr {
			h.chk.Count("hook_error_path_runs", 1)
			switch {
			case sc.Snapctl == "refused":
				h.chk.Count("hook_error_path_after_refused_hold", 1)
			case sc.Call == "none":
				h.chk.Count("hook_error_path_without_snapctl", 1)
			case sc.Call == "proceed":
				h.chk.Count("hook_error_path_after_proceed", 1)
			default:
				h.chk.Count("hook_error_path_after_accepted_hold", 1)
			}
		}
		hit := ""
		for _, x := range c15hAll {
			k := c15hKey{x, g}
			e := h.ep[k]
			rep := reported[k]
			live := e != nil && e.Live
			// was a bound of the statement already reached when the hook started?
			reached48 := live && x != g && !t0.Before(e.Start.Hi.Add(c15hOtherBound))
			reached90 := (live || rep) && !t0.Before(h.lastRefresh[x].Add(c15hTotalBound))
			if reached48 || reached90 {
				b := "48h"
				if !reached48 {
					b = "90d"
				}
				if hit == "" {
					hit = b
				}
				h.atBound++
				h.chk.Count("hook_runs_with_bound_reached_"+b, 1)
				if rep {
					sub := kind
					if sc.Snapctl == "refused" {
						sub += "/snapctl-refused"
					}
					h.record(op)
					h.violation("C15:hook-run-leaves-hold-after-bound:"+b+":"+sub, map[string]interface{}{
						"held": x, "holder": g, "script": sc, "hook-started": t0.Format(time.RFC3339Nano),
						"episode-start": e, "last-refresh": h.lastRefresh[x].Format(time.RFC3339Nano)})
					return
				}
				h.chk.Count("hook_runs_with_bound_reached_hold_gone_after", 1)
			}
			switch {
			case rep && live:
				e.Runs++
				h.chk.Count("hook_runs_renewing_an_episode", 1)
				h.chk.Max("max_hook_runs_in_one_episode", e.Runs)
			case rep && !live:
				h.ep[k] = &c15hEpisode{Start: c15hIval{t0, t1}, Live: true, Runs: 1}
				h.established++
				h.chk.Count("hook_episodes", 1)
				if sc.HookErr && sc.Call != "hold" && sc.Call != "hold-twice" {
					h.chk.Count("hook_episodes_started_by_error_path", 1)
				}
				if x == g {
					h.chk.Count("hook_episodes_on_self", 1)
				}
			case !rep && live:
				e.Live = false
				switch {
				case sc.Snapctl == "refused":
					e.Ended = "refused-hold"
				case reached48 || reached90:
					e.Ended = "refused-by-error-path-or-proceed-at-bound"
				case sc.Call == "proceed" && !sc.HookErr, sc.Call == "none" && !sc.HookErr:
					e.Ended = "proceed"
				default:
					e.Ended = "not-reported-after-run"
				}
				h.chk.Count("hook_episodes_ended_"+e.Ended, 1)
			}
		}
		sh := g + ":" + kind + ":" + sc.Snapctl
		if hit != "" {
			sh += "!" + hit
		}
		shapes = append(shapes, sh)
	}
	for k := range reported {
		op.HeldAfter = append(op.HeldAfter, k.Held+"<-"+k.Holder)
	}
	sort.Strings(op.HeldAfter)
	op.shape = "hooks[" + strings.Join(shapes, ",") + "]{" + strings.Join(candidates, "+") + "}"
	h.record(op)
	h.judge(obs, false)
}

// opRefresh emulates the refresh of a snap the way snapstate does it for the
// hold state (gating holds on the snap forgotten, last refresh stamped); the
// real reset path is exercised by the snapstate unit, it is not reachable
// from this package.
func (h *c15hRun) opRefresh(x string) {
	var gating map[string]map[string]interface{}
	err := h.st.Get("snaps-hold", &gating)
	if err == nil {
		for holder := range gating[x] {
			if holder != "system" {
				delete(gating[x], holder)
			}
		}
		if len(gating[x]) == 0 {
			delete(gating, x)
		}
		h.st.Set("snaps-hold", gating)
	}
	h.lastRefresh[x] = time.Now()
	h.writeLastRefresh()
	was := false
	for k, e := range h.ep {
		if k.Held == x && e.Live {
			e.Live = false
			e.Ended = "refreshed"
			was = true
			h.chk.Count("hook_episodes_ended_refreshed", 1)
		}
	}
	h.chk.Count("hook_refreshes", 1)
	if was {
		h.chk.Count("hook_refreshes_of_held_snap", 1)
	}
	h.record(c15hOp{Kind: "refresh", Snap: x, shape: fmt.Sprintf("refresh/%s/%v", x, was)})
}

func c15hBucket(d time.Duration) int {
	s := int64(d / time.Minute)
	b := 0
	for s > 0 {
		s >>= 1
		b++
	}
	return b
}

func (h *c15hRun) opAdvance(d time.Duration, how string) {
	h.shift(d)
	h.chk.Count("hook_clock_advances", 1)
	h.chk.Count("hook_clock_advances_"+how, 1)
	h.record(c15hOp{Kind: "advance", Advance: d.String(), shape: fmt.Sprintf("adv/%s/%d", how, c15hBucket(d))})
}

// ---- generation ------------------------------------------------------------------------------

func (h *c15hRun) logDur(min, max time.Duration) time.Duration {
	d := time.Duration(float64(min) * math.Pow(float64(max)/float64(min), h.r.Float64()))
	return d.Truncate(time.Second)
}

var c15hScriptKinds = []struct {
	call, exit string
	w          int
}{
	{"hold", "zero", 22}, {"hold", "status", 26}, {"hold", "nonzero", 8},
	{"proceed", "zero", 8}, {"proceed", "nonzero", 6},
	{"none", "zero", 8}, {"none", "nonzero", 22},
}

func (h *c15hRun) genScript(g string) c15hScript {
	if os.Getenv("VERIF_C15_DOUBLE_HOLD") != "" && h.r.Intn(4) == 0 {
		return c15hScript{Snap: g, Call: "hold-twice", Exit: "status"}
	}
	total := 0
	for _, k := range c15hScriptKinds {
		total += k.w
	}
	n := h.r.Intn(total)
	for _, k := range c15hScriptKinds {
		if n < k.w {
			return c15hScript{Snap: g, Call: k.call, Exit: k.exit}
		}
		n -= k.w
	}
	panic("unreachable")
}

func (h *c15hRun) step() {
	switch q := h.r.Intn(100); {
	case q < 50:
		// hooks of one, some or all gating snaps
		var gs []string
		switch w := h.r.Intn(10); {
		case w < 4:
			gs = []string{h.gating[h.r.Intn(len(h.gating))]}
		case w < 6 && len(h.gating) > 2:
			p := h.r.Perm(len(h.gating))[:2]
			sort.Ints(p)
			gs = []string{h.gating[p[0]], h.gating[p[1]]}
		default:
			gs = append(gs, h.gating...)
		}
		cset := map[string]bool{}
		if h.r.Intn(100) < 45 {
			cset["kernel-k"] = true
		}
		for _, g := range gs {
			// every gating snap whose hook runs is affected by something
			switch h.r.Intn(4) {
			case 0:
				cset[g] = true
			case 1:
				cset[c15hBase[g]] = true
			case 2:
				cset[g], cset[c15hBase[g]] = true, true
			default:
				if !cset["kernel-k"] {
					cset[c15hBase[g]] = true
				}
			}
		}
		if h.r.Intn(100) < 20 {
			cset["snap-b"] = true
		}
		var cands []string
		for _, n := range c15hAll {
			if cset[n] {
				cands = append(cands, n)
			}
		}
		scripts := make([]c15hScript, 0, len(gs))
		for _, g := range gs {
			scripts = append(scripts, h.genScript(g))
		}
		h.opRound(scripts, cands)
		if h.failed {
			return
		}
		h.sweep()
		// the auto-refresh then goes ahead with every candidate nobody holds
		if !h.failed && h.r.Intn(100) < 65 {
			rep := h.observe(false)
			for _, n := range cands {
				heldBy := false
				for k := range rep {
					if k.Held == n {
						heldBy = true
					}
				}
				if !heldBy {
					h.opRefresh(n)
				}
			}
			h.observe(false)
		}
	case q < 86:
		now := time.Now()
		var d time.Duration
		how := "random"
		switch w := h.r.Intn(100); {
		case w < 30:
			var ahead []time.Time
			for _, b := range h.bounds() {
				if b.Add(6 * time.Hour).After(now) {
					ahead = append(ahead, b)
				}
			}
			if len(ahead) > 0 {
				b := ahead[h.r.Intn(len(ahead))]
				offs := []time.Duration{-time.Hour, -time.Minute, time.Minute, time.Minute, time.Hour, 5 * time.Hour}
				if dd := b.Add(offs[h.r.Intn(len(offs))]).Sub(now); dd > 0 {
					d, how = dd, "to-bound"
				}
			}
		case w < 65:
			d = h.logDur(time.Hour, 30*time.Hour)
		case w < 80:
			d = h.logDur(30*time.Hour, 80*time.Hour)
		case w < 92:
			d = h.logDur(4*24*time.Hour, 45*24*time.Hour)
		}
		if d <= 0 {
			d = h.logDur(time.Minute, time.Hour)
		}
		h.opAdvance(d, how)
		h.observe(false)
	default:
		// a (manual) refresh of a snap, preferably a held one
		var held []string
		for k, e := range h.ep {
			if e.Live {
				held = append(held, k.Held)
			}
		}
		sort.Strings(held)
		x := c15hAll[h.r.Intn(len(c15hAll)-1)]
		if len(held) > 0 && h.r.Intn(100) < 70 {
			x = held[h.r.Intn(len(held))]
		}
		h.opRefresh(x)
		h.observe(false)
		h.sweep()
	}
}

func (s *verifC15HookSuite) c15hInstall(c *C, yaml, name, typ string) {
	si := &snap.SideInfo{RealName: name, SnapID: name + "-id1", Revision: snap.R(1)}
	snaptest.MockSnap(c, yaml, si)
	snapstate.Set(s.state, name, &snapstate.SnapState{
		Active:   true,
		Sequence: snapstatetest.NewSequenceFromSnapSideInfos([]*snap.SideInfo{si}),
		Current:  snap.R(1),
		SnapType: typ,
	})
}

func (s *verifC15HookSuite) c15hHistory(c *C, chk *kit.Check, idx int) {
	r := kit.CaseRand("c15hooks", idx)
	h := &c15hRun{s: s, c: c, chk: chk, idx: idx, r: r, st: s.state, lastRefresh: map[string]time.Time{},
		ep: map[c15hKey]*c15hEpisode{}, setup: map[string]string{}}
	restore := hookstate.MockRunHook(h.hookInvoke)
	defer restore()

	h.st.Lock()
	defer h.st.Unlock()
	s.c15hInstall(c, c15hSnapC, "snap-c", "app")
	s.c15hInstall(c, c15hSnapD, "snap-d", "app")
	s.c15hInstall(c, c15hBaseD, "base-snap-d", "base")
	s.c15hInstall(c, c15hKernel, "kernel-k", "kernel")

	p := r.Perm(len(c15hGating))[:2+r.Intn(2)]
	sort.Ints(p)
	for _, i := range p {
		h.gating = append(h.gating, c15hGating[i])
	}
	h.setup["gating"] = strings.Join(h.gating, ",")
	now := time.Now()
	for _, n := range c15hAll {
		var age time.Duration
		switch q := r.Intn(100); {
		case q < 55:
			age = h.logDur(time.Hour, 30*24*time.Hour)
		case q < 80:
			age = h.logDur(30*24*time.Hour, 86*24*time.Hour)
		default:
			age = c15hTotalBound + time.Duration(r.Intn(8*24)-6*24)*time.Hour + time.Duration(r.Intn(3600))*time.Second
		}
		h.lastRefresh[n] = now.Add(-age)
		h.setup[n+" refreshed"] = age.String() + " ago"
	}
	h.writeLastRefresh()

	nops := kit.Scale(16, 30) + r.Intn(kit.Scale(12, 30))
	for i := 0; i < nops && !h.failed; i++ {
		h.step()
	}
	chk.Eval()
	chk.Count("hook_operations", len(h.ops))
	if h.established > 0 && h.atBound > 0 {
		shapes := []string{h.setup["gating"]}
		for _, o := range h.ops {
			shapes = append(shapes, o.shape)
		}
		chk.Nontrivial(kit.Sig("hooks", strings.Join(shapes, "|")))
	}
	chk.Sample(map[string]interface{}{"unit": "hooks", "case_index": idx, "setup": h.setup, "ops": h.ops})
}

func (s *verifC15HookSuite) TestVerifC15Hooks(c *C) {
	chk := kit.New("C15", "exploration")
	defer chk.Done(c)
	chk.Rule("[unit hooks] A case is a generated history for 2-3 gating snaps (snap-a, snap-c on base-snap-a; snap-d on base-snap-d; kernel-k affects all) of 16-60 operations: auto-refresh attempts in which the real HookManager runs the gate-auto-refresh hooks of one, two or all gating snaps in one change, each with a mocked hook script {snapctl refresh --hold | --proceed | nothing} x {exit 0 | exit non-zero | exit with snapctl's status} (via the real ctlcmd.Run) over random refresh-candidates; after an attempt the candidates nobody holds are usually refreshed; manual refreshes of held snaps; emulated clock advances (1 h..45 d, or landing -1h/-1min/+1min/+1h/+5h around a bound of a live episode). Non-trivial: a hold was established through the hook layer AND at least one hook ran when a bound of a live episode had already been reached. Distinct by the sequence of operation shapes (scripts with snapctl result, candidates, bucketed advances, which bound was hit).")
	chk.Assume("[unit hooks] snapstate's clock cannot be replaced from package hookstate_test: a clock advance by d is emulated by shifting first-held / hold-until in 'snaps-hold' and every snap's LastRefreshTime d into the past; instants chosen by snapd are known to the model as [before call, after call] intervals and verdicts are only given when definite")
	chk.Assume("[unit hooks] one snapctl call per hook run (a second --hold after a refused one in the same run is generated only with VERIF_C15_DOUBLE_HOLD=1); the refresh of a snap is emulated by editing 'snaps-hold' and LastRefreshTime (the real reset path is covered by the snapstate unit); a hook run is one hold request: the episode bookkeeping is updated from HeldSnaps after the run, a hold that is refused and re-established within one run continues the old episode")
	n := kit.Scale(60, 400)
	if only := kit.OnlyCase(); only >= 0 {
		chk.MinDistinct(0)
		s.c15hHistory(c, chk, only)
		return
	}
	chk.Floor("hook_runs", 500)
	chk.Floor("hook_episodes", 300)
	chk.Floor("hook_snapctl_hold_ok", 200)
	chk.Floor("hook_snapctl_hold_refused", 30)
	chk.Floor("hook_error_path_after_refused_hold", 30)
	chk.Floor("hook_error_path_without_snapctl", 100)
	chk.Floor("hook_runs_with_bound_reached_48h", 30)
	chk.Floor("hook_runs_with_bound_reached_90d", 10)
	chk.Floor("hook_probes", 3000)
	chk.Floor("hook_refreshes_of_held_snap", 30)
	chk.MinDistinct(20)
	for idx := 0; idx < n; idx++ {
		if idx > 0 {
			// a fresh overlord, state and snaps for every history
			s.TearDownTest(c)
			s.SetUpTest(c)
		}
		s.c15hHistory(c, chk, idx)
		if chk.Violations() > 20 {
			break
		}
	}
}
