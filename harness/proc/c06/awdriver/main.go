// awdriver performs the atomic-write operations of ONE scenario through
// snapd's real osutil helpers. It is a plain main program (not a go test
// binary), so osutil.snapdUnsafeIO is false and the helpers really fsync.
//
//	awdriver <scenario.json>
//
// The scenario lists the operations; around every operation the driver issues
// marker syscalls (faccessat on a path that never exists) so that the offline
// checker can find operation boundaries in the strace log:
//
//	/@@C06/BEGIN/<i>           just before helper i is called
//	/@@C06/END/<i>/ok|err      just after it returned
//
// Exit status: 0 every operation returned nil, 3 some operation returned an
// error (expected under errno injection), 2 bad usage.
//
// Nothing here decides anything about the property: the driver only calls the
// helpers and reports their return value.
package main

import (
	"encoding/base64"
	"encoding/json"
	"fmt"
	"io"
	"os"
	"runtime"
	"syscall"
	"time"

	"github.com/snapcore/snapd/osutil"
	"github.com/snapcore/snapd/osutil/sys"
)

type op struct {
	Kind     string `json:"kind"`
	Target   string `json:"target"`   // file name given to the helper
	DataB64  string `json:"data_b64"` // new content
	Perm     uint32 `json:"perm"`
	Follow   bool   `json:"follow"`
	Chunk    int    `json:"chunk"` // reader / Write chunk size
	UID      int64  `json:"uid"`   // -1 = NoChown
	GID      int64  `json:"gid"`   // -1 = NoChown
	MTime    int64  `json:"mtime"` // unix seconds, 0 = none
	CommitAs string `json:"commit_as"`
	LinkTo   string `json:"link_to"` // AtomicSymlink target text
	Source   string `json:"source"`  // AtomicRename old name
}

type scenario struct {
	Ops []op `json:"ops"`
}

func init() {
	// all syscalls of the main goroutine are issued by the initial thread
	runtime.LockOSThread()
}

func mark(s string) {
	syscall.Access("/@@C06/"+s, 0)
}

// plainReader hides WriterTo/ReaderFrom shortcuts so that io.Copy really
// streams in chunks (several write syscalls).
type plainReader struct {
	data  []byte
	chunk int
}

func (r *plainReader) Read(p []byte) (int, error) {
	if len(r.data) == 0 {
		return 0, io.EOF
	}
	n := r.chunk
	if n <= 0 || n > len(p) {
		n = len(p)
	}
	if n > len(r.data) {
		n = len(r.data)
	}
	copy(p, r.data[:n])
	r.data = r.data[n:]
	return n, nil
}

func ids(o op) (sys.UserID, sys.GroupID) {
	uid := sys.UserID(osutil.NoChown)
	gid := sys.GroupID(osutil.NoChown)
	if o.UID >= 0 {
		uid = sys.UserID(o.UID)
	}
	if o.GID >= 0 {
		gid = sys.GroupID(o.GID)
	}
	return uid, gid
}

func writeChunks(aw *osutil.AtomicFile, data []byte, chunk int) error {
	if chunk <= 0 {
		chunk = len(data)
	}
	for len(data) > 0 {
		n := chunk
		if n > len(data) {
			n = len(data)
		}
		if _, err := aw.Write(data[:n]); err != nil {
			return err
		}
		data = data[n:]
	}
	return nil
}

func run(o op) error {
	data, err := base64.StdEncoding.DecodeString(o.DataB64)
	if err != nil {
		return err
	}
	var flags osutil.AtomicWriteFlags
	if o.Follow {
		flags |= osutil.AtomicWriteFollow
	}
	perm := os.FileMode(o.Perm)
	uid, gid := ids(o)
	switch o.Kind {
	case "writefile":
		return osutil.AtomicWriteFile(o.Target, data, perm, flags)
	case "write-reader":
		return osutil.AtomicWrite(o.Target, &plainReader{data: data, chunk: o.Chunk}, perm, flags)
	case "writefile-chown":
		return osutil.AtomicWriteFileChown(o.Target, data, perm, flags, uid, gid)
	case "write-reader-chown":
		return osutil.AtomicWriteChown(o.Target, &plainReader{data: data, chunk: o.Chunk}, perm, flags, uid, gid)
	case "atomicfile":
		// the long-hand use: NewAtomicFile, several Write calls, optional
		// SetModTime, Commit or CommitAs, deferred Cancel
		aw, err := osutil.NewAtomicFile(o.Target, perm, flags, uid, gid)
		if err != nil {
			return err
		}
		defer aw.Cancel()
		if err := writeChunks(aw, data, o.Chunk); err != nil {
			return err
		}
		if o.MTime != 0 {
			aw.SetModTime(time.Unix(o.MTime, 0))
		}
		if o.CommitAs != "" {
			return aw.CommitAs(o.CommitAs)
		}
		return aw.Commit()
	case "atomicfile-cancel":
		// write, then give up: the target must never change
		aw, err := osutil.NewAtomicFile(o.Target, perm, flags, uid, gid)
		if err != nil {
			return err
		}
		if err := writeChunks(aw, data, o.Chunk); err != nil {
			aw.Cancel()
			return err
		}
		return aw.Cancel()
	case "symlink":
		return osutil.AtomicSymlink(o.LinkTo, o.Target)
	case "rename":
		return osutil.AtomicRename(o.Source, o.Target)
	}
	return fmt.Errorf("unknown op kind %q", o.Kind)
}

func main() {
	if len(os.Args) != 2 {
		fmt.Fprintln(os.Stderr, "usage: awdriver scenario.json")
		os.Exit(2)
	}
	b, err := os.ReadFile(os.Args[1])
	if err != nil {
		fmt.Fprintln(os.Stderr, err)
		os.Exit(2)
	}
	var sc scenario
	if err := json.Unmarshal(b, &sc); err != nil {
		fmt.Fprintln(os.Stderr, err)
		os.Exit(2)
	}
	rc := 0
	for i, o := range sc.Ops {
		mark(fmt.Sprintf("BEGIN/%d", i))
		err := run(o)
		if err != nil {
			mark(fmt.Sprintf("END/%d/err", i))
			rc = 3
		} else {
			mark(fmt.Sprintf("END/%d/ok", i))
		}
	}
	os.Exit(rc)
}
