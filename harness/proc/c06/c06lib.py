"""C06 offline checker: strace log -> two-layer (volatile / durable) file model
-> crash-state enumeration for every prefix of the relevant syscalls.

Nothing in here runs snapd code or knows how snapd writes files; it only knows
POSIX-ish semantics of the traced syscalls and the persistence model:

  * file DATA of an inode is durable only up to the last successful
    fsync/fdatasync of an fd open on that inode; every write/truncate after it
    is "pending" and may or may not be on disk after a crash (any subset, a
    dropped write under a kept later one leaves zeros);
  * a DIRECTORY OPERATION (create, rename, unlink, symlink) is durable only
    after a successful fsync of an fd open on (one of) the director(ies) it
    changed; until then it may or may not be on disk after a crash (any subset
    of the pending operations, applied in program order; rename is atomic);
  * fsync of a file does NOT make its directory entry durable; metadata
    (owner, mode, times) is not modelled.

For every crash point the checker enumerates those states and reads the target
NAME in each (following symlinks, or readlink for the symlink helper).
"""
import os
import re

TRACE_SET = ("openat,write,pwrite64,fsync,fdatasync,close,rename,renameat,renameat2,"
             "unlinkat,fchown,fchownat,fchmod,utimensat,ftruncate,symlinkat,faccessat,faccessat2")

MARK = "/@@C06/"
TMP_RE = re.compile(r"\.[A-Za-z0-9]{12}~$")


class TraceError(Exception):
    pass


# --------------------------------------------------------------------------
# strace parsing

def _split_args(s):
    """Splits a syscall argument list at top-level commas. Strings are fully
    hex-escaped (-xx), so a '"' always opens/closes a string."""
    out, depth, cur = [], 0, []
    i, n = 0, len(s)
    while i < n:
        ch = s[i]
        if ch == '"':
            j = s.find('"', i + 1)
            if j < 0:
                j = n - 1
            cur.append(s[i:j + 1])
            i = j + 1
            continue
        if ch == '/' and s.startswith('/*', i):
            j = s.find('*/', i)
            i = (j + 2) if j >= 0 else n
            continue
        if ch in '([{':
            depth += 1
            cur.append(ch)
        elif ch in ')]}':
            depth -= 1
            cur.append(ch)
        elif ch == ',' and depth == 0:
            out.append(''.join(cur).strip())
            cur = []
        else:
            cur.append(ch)
        i += 1
    if cur or out:
        out.append(''.join(cur).strip())
    return out


def decode_str(a):
    """'"\\x41\\x42"' -> b'AB'; returns None for NULL / non-strings."""
    a = a.strip()
    if not a.startswith('"'):
        return None
    end = a.rfind('"')
    body = a[1:end]
    if a[end + 1:].startswith('...'):
        raise TraceError("truncated string in trace (raise -s)")
    if body == '':
        return b''
    if not body.startswith('\\x'):
        raise TraceError("string not hex-escaped: %r" % body[:40])
    return bytes.fromhex(body.replace('\\x', ''))


RET_RE = re.compile(r"^(-?\d+|\?|0x[0-9a-f]+)(?:\s+([A-Z0-9_]+))?(.*)$")


def parse_trace(path):
    """Returns (events, exits). events: list of dicts in log order:
    tid, name, args (raw strings), ret (int|None), errno, injected, unfinished."""
    events = []
    exits = {}
    pending = {}
    with open(path, errors='replace') as f:
        for lineno, line in enumerate(f, 1):
            line = line.rstrip('\n')
            m = re.match(r"^(\d+)\s+(.*)$", line)
            if not m:
                continue
            tid = int(m.group(1))
            rest = m.group(2)
            if rest.startswith('+++'):
                exits[tid] = rest
                continue
            if rest.startswith('---'):
                continue
            if rest.startswith('<...'):
                mm = re.match(r"^<\.\.\. (\w+) resumed>(.*)$", rest)
                if not mm or tid not in pending:
                    continue
                rest = pending.pop(tid) + mm.group(2)
            elif rest.endswith('<unfinished ...>'):
                pending[tid] = rest[:-len('<unfinished ...>')].rstrip()
                continue
            p = rest.find('(')
            if p < 0:
                continue
            name = rest[:p]
            q = rest.rfind(' = ')
            head = rest[:q].rstrip() if q >= 0 else ''
            if q < 0 or not head.endswith(')'):
                # killed inside the call: no result
                events.append(dict(tid=tid, name=name, args=_split_args(rest[p + 1:]), ret=None, errno=None,
                                   injected=False, unfinished=True, line=lineno))
                continue
            args = _split_args(head[p + 1:-1])
            rm = RET_RE.match(rest[q + 3:].strip())
            ret, errno, injected = None, None, False
            if rm:
                try:
                    ret = int(rm.group(1), 0)
                except ValueError:
                    # "= ?": the thread was killed inside the call
                    events.append(dict(tid=tid, name=name, args=args, ret=None, errno=None,
                                       injected=False, unfinished=True, line=lineno))
                    continue
                if ret is not None and ret < 0:
                    errno = rm.group(2)
                injected = '(INJECTED)' in rm.group(3)
            events.append(dict(tid=tid, name=name, args=args, ret=ret, errno=errno, injected=injected,
                               unfinished=False, line=lineno))
    # calls cut by a kill: they were entered but never returned
    for tid, rest in pending.items():
        p = rest.find('(')
        if p < 0:
            continue
        events.append(dict(tid=tid, name=rest[:p], args=_split_args(rest[p + 1:]), ret=None, errno=None,
                           injected=False, unfinished=True, line=10 ** 9))
    return events, exits


# --------------------------------------------------------------------------
# model

class Inode:
    __slots__ = ("id", "kind", "dur", "pend", "vol", "link", "born")

    def __init__(self, id, kind, content=b"", link=None, born=False):
        self.id = id
        self.kind = kind            # 'file' | 'symlink'
        self.dur = bytes(content)   # data as of the last fsync (b"" for a new file)
        self.vol = bytearray(content)
        self.pend = []              # ('w', off, bytes) | ('t', size) since last fsync
        self.link = link
        self.born = born            # created inside the trace


def apply_data(base, ops):
    b = bytearray(base)
    for op in ops:
        if op[0] == 'w':
            off, data = op[1], op[2]
            if len(b) < off:
                b.extend(b"\0" * (off - len(b)))
            b[off:off + len(data)] = data
        else:
            size = op[1]
            if len(b) > size:
                del b[size:]
            else:
                b.extend(b"\0" * (size - len(b)))
    return bytes(b)


def subsets(n, cap_full=6):
    """Index subsets of n pending ops. Complete (2^n) up to cap_full; beyond it
    every prefix, every 'all but one', every single one, and none/all."""
    if n <= cap_full:
        for mask in range(1 << n):
            yield [i for i in range(n) if mask >> i & 1]
        return
    seen = set()
    cands = [list(range(k)) for k in range(n + 1)]
    cands += [[i for i in range(n) if i != j] for j in range(n)]
    cands += [[j] for j in range(n)]
    cands += [list(range(k, n)) for k in range(1, n)]
    for c in cands:
        t = tuple(c)
        if t not in seen:
            seen.add(t)
            yield c


class Model:
    def __init__(self, sc, cwd):
        self.sc = sc
        self.cwd = cwd
        self.root = sc["root"]
        self.target = self.abspath(sc["target"])
        self.read_mode = sc.get("read_mode", "content")
        self.dirs = set(self.abspath(d) for d in sc["dirs"])
        self.inodes = {}
        self.vol_ns = {}
        self.dur_ns = {}
        self.dirops = []   # pending: dict(dirs=set, eff=[(path, ino|None)], what=str)
        self.fds = {}
        self.next_ino = 1
        self.counters = {}
        self.inconclusive = []
        for rel, spec in sorted(sc["init"].items()):
            p = self.abspath(os.path.join(self.root, rel))
            if "file" in spec:
                ino = self.new_inode('file', spec["file"])
            else:
                ino = self.new_inode('symlink', link=spec["symlink"])
            self.vol_ns[p] = ino.id
            self.dur_ns[p] = ino.id

    # -- helpers
    def count(self, k, n=1):
        self.counters[k] = self.counters.get(k, 0) + n

    def abspath(self, p):
        if not p.startswith('/'):
            p = os.path.join(self.cwd, p)
        return os.path.normpath(p)

    def inroot(self, p):
        return p == self.root or p.startswith(self.root + '/')

    def new_inode(self, kind, content=b"", link=None, born=False):
        ino = Inode(self.next_ino, kind, content, link, born)
        self.next_ino += 1
        self.inodes[ino.id] = ino
        return ino

    def lookup(self, ns, path, follow=True):
        for _ in range(12):
            i = ns.get(path)
            if i is None:
                return None, path
            node = self.inodes[i]
            if node.kind == 'symlink' and follow:
                t = node.link
                path = os.path.normpath(t if t.startswith('/') else os.path.join(os.path.dirname(path), t))
                continue
            return i, path
        return None, path

    def role(self, path):
        """Abstract role of a path, for signatures and injection targeting."""
        if path in self.dirs:
            return 'dir'
        if path == self.target:
            return 'target'
        _, real = self.lookup(self.vol_ns, self.target, self.read_mode == 'content')
        if path == real:
            return 'target-real'
        if TMP_RE.search(path):
            return 'tmp'
        if self.inroot(path):
            return 'other'
        return 'outside'

    # -- reading the target name in a given namespace
    def read_name(self, ns):
        """-> ('absent',) | ('link', text) | ('file', ino)"""
        if self.read_mode == 'readlink':
            i = ns.get(self.target)
            if i is None:
                return ('absent',)
            node = self.inodes[i]
            if node.kind == 'symlink':
                return ('link', node.link)
            return ('file', i)
        i, _ = self.lookup(ns, self.target, True)
        if i is None:
            return ('absent',)
        return ('file', i)

    def volatile_value(self):
        r = self.read_name(self.vol_ns)
        if r[0] == 'file':
            return ('data', bytes(self.inodes[r[1]].vol))
        return r

    def crash_states(self):
        """Yields (value, lost_description) for every enumerated durable state.
        value: ('absent',) | ('link', text) | ('data', bytes)"""
        nd = len(self.dirops)
        if nd > 12:
            self.inconclusive.append("more than 12 pending directory operations")
            return
        for keep in subsets(nd, cap_full=12):
            ns = dict(self.dur_ns)
            for k in keep:
                for path, ino in self.dirops[k]["eff"]:
                    if ino is None:
                        ns.pop(path, None)
                    else:
                        ns[path] = ino
            lost_d = [self.dirops[k]["what"] for k in range(nd) if k not in keep]
            r = self.read_name(ns)
            if r[0] != 'file':
                yield r, dict(lost_dirops=lost_d)
                continue
            node = self.inodes[r[1]]
            npend = len(node.pend)
            for dk in subsets(npend):
                ops = [node.pend[j] for j in dk]
                val = apply_data(node.dur, ops)
                yield ('data', val), dict(lost_dirops=lost_d, kept_data_ops=len(dk), pending_data_ops=npend)
                # torn variant: the last kept write only half on disk
                if ops and ops[-1][0] == 'w' and len(ops[-1][2]) > 1:
                    half = ('w', ops[-1][1], ops[-1][2][:len(ops[-1][2]) // 2])
                    yield ('data', apply_data(node.dur, ops[:-1] + [half])), dict(
                        lost_dirops=lost_d, kept_data_ops=len(dk), pending_data_ops=npend, torn_last_write=True)

    # -- replay of one event; returns abstract description or None if irrelevant
    def path_arg(self, dirfd, patharg):
        b = decode_str(patharg)
        if b is None:
            return None
        p = b.decode('utf-8', 'surrogateescape')
        if p.startswith('/'):
            return os.path.normpath(p)
        if dirfd.strip() == 'AT_FDCWD':
            return self.abspath(p)
        try:
            fd = int(dirfd)
        except ValueError:
            return None
        ent = self.fds.get(fd)
        if ent and ent["type"] == 'dir':
            return os.path.normpath(os.path.join(ent["path"], p))
        return None

    def add_dirop(self, what, eff, dirs):
        self.dirops.append(dict(what=what, eff=eff, dirs=set(dirs)))

    def step(self, ev, violations):
        """Apply one syscall event. Returns an abstract tuple when the event is
        relevant to the scenario directory, else None. Spec-rule violations are
        appended to `violations` as (clause, detail)."""
        name, args, ret = ev["name"], ev["args"], ev["ret"]
        ok = ret is not None and ret >= 0
        res = 'ok' if ok else ('unfinished' if ev["unfinished"] else 'err:%s' % ev["errno"])
        if name == 'openat':
            path = self.path_arg(args[0], args[1])
            if path is None or not self.inroot(path):
                return None
            flags = set(args[2].split('|'))
            if '__O_TMPFILE' in flags or 'O_TMPFILE' in flags:
                self.inconclusive.append("O_TMPFILE used; the model does not cover it")
            role = self.role(path)
            fl = '|'.join(sorted(f for f in flags if f in ('O_WRONLY', 'O_RDWR', 'O_CREAT', 'O_EXCL', 'O_TRUNC', 'O_APPEND', 'O_RDONLY')))
            if path in self.dirs:
                if ok:
                    self.fds[ret] = dict(type='dir', path=path)
                return ('openat', role, fl, res)
            writable = bool(flags & {'O_WRONLY', 'O_RDWR'})
            excl = 'O_CREAT' in flags and 'O_EXCL' in flags
            ino, real = self.lookup(self.vol_ns, path, follow=not excl and 'O_NOFOLLOW' not in flags)
            tgt_ino, _ = self.lookup(self.vol_ns, self.target, True)
            if ino is not None and ino == tgt_ino and (writable or 'O_TRUNC' in flags):
                # rule: the target is never opened for writing / truncation in place
                violations.append(("target-opened-for-writing-in-place", dict(path=path, flags=sorted(flags), result=res)))
            if not ok:
                return ('openat', role, fl, res)
            if ino is None:
                if 'O_CREAT' not in flags:
                    self.inconclusive.append("open of a name unknown to the model succeeded: %s" % path)
                    return ('openat', role, fl, res)
                node = self.new_inode('file', b"", born=True)
                self.vol_ns[real] = node.id
                self.add_dirop('create %s' % self.role(real), [(real, node.id)], [os.path.dirname(real)])
                ino = node.id
            node = self.inodes[ino]
            if 'O_TRUNC' in flags and writable and len(node.vol) > 0:
                node.pend.append(('t', 0))
                node.vol = bytearray()
            self.fds[ret] = dict(type='file', ino=ino, off=0, append='O_APPEND' in flags, role=role)
            return ('openat', role, fl, res)
        if name in ('write', 'pwrite64'):
            try:
                fd = int(args[0])
            except ValueError:
                return None
            ent = self.fds.get(fd)
            if not ent or ent["type"] != 'file':
                return None
            if ok and ret > 0:
                data = decode_str(args[1])[:ret]
                node = self.inodes[ent["ino"]]
                if name == 'pwrite64':
                    off = int(args[3])
                else:
                    off = len(node.vol) if ent["append"] else ent["off"]
                    ent["off"] = off + ret
                node.pend.append(('w', off, data))
                if len(node.vol) < off:
                    node.vol.extend(b"\0" * (off - len(node.vol)))
                node.vol[off:off + len(data)] = data
            return (name, ent["role"], res)
        if name == 'ftruncate':
            ent = self.fds.get(int(args[0]))
            if not ent or ent["type"] != 'file':
                return None
            if ok:
                node = self.inodes[ent["ino"]]
                size = int(args[1])
                node.pend.append(('t', size))
                node.vol = bytearray(apply_data(bytes(node.vol), [('t', size)]))
            return (name, ent["role"], res)
        if name in ('fsync', 'fdatasync'):
            ent = self.fds.get(int(args[0]))
            if not ent:
                return None
            if ent["type"] == 'file':
                if ok:
                    node = self.inodes[ent["ino"]]
                    node.dur = bytes(node.vol)
                    node.pend = []
                return (name, ent["role"], res)
            if ok:
                keep = []
                for op in self.dirops:
                    if ent["path"] in op["dirs"]:
                        for path, ino in op["eff"]:
                            if ino is None:
                                self.dur_ns.pop(path, None)
                            else:
                                self.dur_ns[path] = ino
                    else:
                        keep.append(op)
                self.dirops = keep
            return (name, 'dir', res)
        if name == 'close':
            try:
                fd = int(args[0])
            except ValueError:
                return None
            ent = self.fds.get(fd)
            if not ent:
                return None
            if ok:
                del self.fds[fd]
            # a failed close (only under injection) keeps the fd: the kernel never saw it
            return (name, ent.get("role", 'dir'), res)
        if name in ('fchown', 'fchmod'):
            ent = self.fds.get(int(args[0]))
            if not ent:
                return None
            return (name, ent.get("role", 'dir'), res)
        if name in ('utimensat', 'fchownat'):
            path = self.path_arg(args[0], args[1])
            if path is None or not self.inroot(path):
                return None
            return (name, self.role(path), res)
        if name in ('rename', 'renameat', 'renameat2'):
            if name == 'rename':
                src = self.path_arg('AT_FDCWD', args[0])
                dst = self.path_arg('AT_FDCWD', args[1])
            else:
                src = self.path_arg(args[0], args[1])
                dst = self.path_arg(args[2], args[3])
            if src is None or dst is None or not (self.inroot(src) or self.inroot(dst)):
                return None
            if name == 'renameat2' and len(args) > 4 and args[4] not in ('0', ''):
                self.inconclusive.append("renameat2 with flags %s is not modelled" % args[4])
            rs, rd = self.role(src), self.role(dst)
            ino = self.vol_ns.get(src)
            if ino is not None and rd in ('target', 'target-real') and (ok or ev["unfinished"]):
                node = self.inodes[ino]
                if node.kind == 'file' and node.pend:
                    # rule: the rename source was fsynced after its last write
                    violations.append(("renamed-over-target-before-fsync",
                                       dict(src=src, dst=dst, unsynced_ops=len(node.pend), result=res)))
            if ok:
                if ino is None:
                    self.inconclusive.append("rename of a name unknown to the model: %s" % src)
                else:
                    del self.vol_ns[src]
                    self.vol_ns[dst] = ino
                    self.add_dirop('rename %s->%s' % (rs, rd), [(src, None), (dst, ino)],
                                   [os.path.dirname(src), os.path.dirname(dst)])
            return (name, rs, rd, res)
        if name == 'unlinkat':
            path = self.path_arg(args[0], args[1])
            if path is None or not self.inroot(path):
                return None
            r = self.role(path)
            if ok:
                if path in self.vol_ns:
                    del self.vol_ns[path]
                    self.add_dirop('unlink %s' % r, [(path, None)], [os.path.dirname(path)])
                else:
                    self.inconclusive.append("unlink of a name unknown to the model: %s" % path)
            return (name, r, res)
        if name == 'symlinkat':
            text = decode_str(args[0])
            path = self.path_arg(args[1], args[2])
            if path is None or not self.inroot(path):
                return None
            r = self.role(path)
            if ok:
                node = self.new_inode('symlink', link=text.decode('utf-8', 'surrogateescape'), born=True)
                self.vol_ns[path] = node.id
                self.add_dirop('symlink %s' % r, [(path, node.id)], [os.path.dirname(path)])
            return (name, r, res)
        return None

    def snapshot_volatile(self):
        """{abs path: ('data', bytes) | ('link', text)} of the volatile layer."""
        out = {}
        for p, i in self.vol_ns.items():
            node = self.inodes[i]
            out[p] = ('link', node.link) if node.kind == 'symlink' else ('data', bytes(node.vol))
        return out


def marker(ev):
    """-> ('BEGIN', i) | ('END', i, ok:bool) | None"""
    if ev["name"] not in ('faccessat', 'faccessat2') or len(ev["args"]) < 2:
        return None
    try:
        b = decode_str(ev["args"][1])
    except TraceError:
        return None
    if not b or not b.startswith(MARK.encode()):
        return None
    parts = b.decode().split('/')[2:]
    if parts[0] == 'BEGIN':
        return ('BEGIN', int(parts[1]))
    if parts[0] == 'END':
        return ('END', int(parts[1]), parts[2] == 'ok')
    return None


def describe(val, news=None, olds=None):
    if val[0] == 'data':
        import hashlib
        return "data len=%d sha=%s head=%r" % (len(val[1]), hashlib.sha256(val[1]).hexdigest()[:12], val[1][:24])
    return repr(val)


def classify(val, allowed_old, new, history):
    """Subclass of a disallowed on-disk value."""
    if val[0] == 'absent':
        return 'target-absent'
    if val in history:
        return 'stale-older-content'
    if val[0] == 'data' and new is not None and new[0] == 'data':
        if len(val[1]) < len(new[1]) and new[1].startswith(val[1]):
            return 'truncated-new-content'
        for o in allowed_old:
            if o[0] == 'data' and len(val[1]) < len(o[1]) and o[1].startswith(val[1]):
                return 'truncated-old-content'
    return 'torn-or-foreign-content'


def check_trace(sc, cwd, events, news, enumerate_states=True):
    """Replays `events` into the model.

    sc: scenario (root, dirs, init, target, read_mode); news: function i -> new
    value for operation i (('data', bytes) | ('link', text) | None when the
    operation must leave the target unchanged), may raise KeyError when unknown.

    Returns dict: violations [(clause, detail)], relevant [(event index, abstract,
    tid, name)], counters, inconclusive, final (volatile snapshot), allowed_final,
    ops [(i, ok|None)], shapes (abstract prefix shapes)."""
    m = Model(sc, cwd)
    out_viol = []
    relevant = []
    init_val = m.volatile_value()
    S = [init_val]           # values the target may hold before the next operation
    history = []             # values that were superseded by a successful operation
    cur = None               # operation in progress
    cur_new = None
    ops = []
    prefixes = 0
    states = 0
    nontrivial_points = 0
    shape = []
    shapes = []
    driver_tid = None

    def allowed_now():
        a = list(S)
        if cur is not None and cur_new is not None:
            a.append(cur_new)
        return a

    def check_point(where, idx):
        nonlocal prefixes, states, nontrivial_points
        prefixes += 1
        allowed = allowed_now()
        n = 0
        bad = {}
        for val, lost in m.crash_states():
            n += 1
            if val not in allowed:
                sub = classify(val, S, cur_new if cur is not None else None, history)
                if sub not in bad:
                    bad[sub] = dict(where=where, event_index=idx, op=cur, observed=describe(val), lost=lost,
                                    allowed=[describe(a) for a in allowed], prefix_shape=list(shape))
        states += n
        if n > 1:
            nontrivial_points += 1
            shapes.append((tuple(shape), n))
        for sub, d in bad.items():
            out_viol.append(("crash-state:" + sub, d))

    for idx, ev in enumerate(events):
        mk = marker(ev)
        if mk:
            if mk[0] == 'BEGIN':
                driver_tid = ev["tid"]
                cur = mk[1]
                try:
                    cur_new = news(cur)
                except KeyError:
                    cur_new = None
                    m.inconclusive.append("no expected content for operation %d" % cur)
                v = m.volatile_value()
                if v not in S:
                    m.inconclusive.append("model: target value at BEGIN %d is not one of the expected values" % cur)
                shape.append('BEGIN')
                if enumerate_states:
                    check_point('begin', idx)
            else:
                okflag = mk[2]
                ops.append((mk[1], okflag))
                shape.append('END:ok' if okflag else 'END:err')
                if okflag:
                    if cur_new is not None:
                        history.extend(x for x in S if x != cur_new)
                        S = [cur_new]
                    # new content must be durable on return: nothing older reachable
                    cur = None
                    if enumerate_states:
                        before = len(out_viol)
                        check_point('return-ok', idx)
                        # re-label "old content still reachable after a successful return"
                        for k in range(before, len(out_viol)):
                            cl, d = out_viol[k]
                            if cl in ('crash-state:stale-older-content', 'crash-state:target-absent'):
                                out_viol[k] = ('not-durable-on-return', d)
                else:
                    if cur_new is not None and cur_new not in S:
                        S = S + [cur_new]
                    cur = None
                    if enumerate_states:
                        check_point('return-err', idx)
                cur_new = None
            continue
        if driver_tid is None:
            # before the first operation: process start-up (and child processes
            # spawned by package initialisation); nothing touches the scenario
            # directory yet
            m.count('syscalls_before_first_operation')
            continue
        if ev["unfinished"]:
            # entered, never returned (process killed at syscall entry): not
            # applied to the model; its abstract role is kept for the caller
            ab = m.step(ev, [])
            if ab is not None:
                relevant.append((idx, ab, ev["tid"], ev["name"]))
            continue
        rv = []
        ab = m.step(ev, rv)
        if ab is None:
            m.count('irrelevant_syscalls')
            continue
        m.count('relevant_syscalls')
        relevant.append((idx, ab, ev["tid"], ev["name"]))
        shape.append('/'.join(str(x) for x in ab))
        for cl, d in rv:
            d = dict(d)
            d.update(event_index=idx, op=cur, prefix_shape=list(shape))
            out_viol.append((cl, d))
        if enumerate_states:
            check_point('after:' + ab[0], idx)

    return dict(violations=out_viol, relevant=relevant, counters=m.counters, inconclusive=m.inconclusive,
                final=m.snapshot_volatile(), allowed_final=allowed_now(), ops=ops, prefixes=prefixes,
                states=states, nontrivial_points=nontrivial_points, shapes=shapes, driver_tid=driver_tid,
                model=m, in_op=cur)
