#!/usr/bin/env python3
"""C06 runner (placement "script"):  run.py C06 <tier> <seed>

Builds, from $VERIF_REPO at check time,
  * awdriver        plain Go main calling the real osutil atomic helpers
  * overlord.test   the overlord package's test binary with the in-package
                    driver harness/inpkg/c06 (real overlordStateBackend)
runs every generated scenario under strace (clean, then with a SIGKILL or an
errno injected at every relevant syscall), feeds the traces to the offline
checker (c06lib.py) and inspects the real directory afterwards.
"""
import base64
import concurrent.futures
import hashlib
import json
import os
import random
import re
import shutil
import subprocess
import sys
import threading
import time

sys.dont_write_bytecode = True
sys.path.insert(0, os.path.dirname(os.path.abspath(__file__)))
import c06lib  # noqa: E402

PID = sys.argv[1] if len(sys.argv) > 1 else "C06"
TIER = sys.argv[2] if len(sys.argv) > 2 else os.environ.get("VERIF_TIER", "quick")
SEED = int(sys.argv[3]) if len(sys.argv) > 3 else int(os.environ.get("VERIF_SEED", "1"))
HOME = os.environ.get("VERIF_HOME", "/verif")
REPO = os.path.abspath(os.environ.get("VERIF_REPO", "/repo"))
WORK = os.environ.get("VERIF_WORK", os.path.join(HOME, ".work", PID))
PARTS = os.environ.get("VERIF_PARTS", os.path.join(WORK, "parts"))
REPLAYS = os.environ.get("VERIF_REPLAYS", os.path.join(HOME, "replays"))
QUICK = TIER != "thorough"
ONLY = os.environ.get("VERIF_ONLY_CASE")
T0 = time.time()

LOCK = threading.Lock()
COUNTERS = {}
SIGS = set()
SAMPLES = []
INCONCLUSIVE = []
VIOL_SIGS = {}
KNOWN = {}
KNOWN_DESC = {}
VIOLATIONS = 0
EVALS = 0


def count(k, n=1):
    with LOCK:
        COUNTERS[k] = COUNTERS.get(k, 0) + n


def cmax(k, n):
    with LOCK:
        if n > COUNTERS.get(k, 0):
            COUNTERS[k] = n


def inconclusive(msg):
    with LOCK:
        if msg not in INCONCLUSIVE:
            INCONCLUSIVE.append(msg)


def sig_hash(*parts):
    h = hashlib.sha256()
    for p in parts:
        h.update(("%s\0" % (p,)).encode())
    return h.hexdigest()[:16]


def load_findings():
    try:
        fs = json.load(open(os.path.join(HOME, "known_findings.json")))
    except Exception:
        return []
    return [f for f in fs if f.get("property") == PID]


FINDINGS = load_findings()


def jsonable(v):
    if isinstance(v, bytes):
        return "bytes len=%d sha=%s head=%r" % (len(v), hashlib.sha256(v).hexdigest()[:12], v[:24])
    if isinstance(v, dict):
        return {str(k): jsonable(x) for k, x in v.items()}
    if isinstance(v, (list, tuple, set)):
        return [jsonable(x) for x in v]
    return v


def violation(sig, witness):
    """Same protocol as kit.Check.Violation."""
    global VIOLATIONS
    with LOCK:
        for f in FINDINGS:
            if f.get("status") != "open":
                continue
            fs = f["signature"]
            if fs == sig or (fs.endswith("*") and sig.startswith(fs[:-1])):
                KNOWN[fs] = KNOWN.get(fs, 0) + 1
                KNOWN_DESC[fs] = f.get("description", "")
                return False
        VIOLATIONS += 1
        VIOL_SIGS[sig] = VIOL_SIGS.get(sig, 0) + 1
        if VIOL_SIGS[sig] > 1 or len(VIOL_SIGS) > 8:
            return True
        os.makedirs(REPLAYS, exist_ok=True)
        path = os.path.join(REPLAYS, "%s-seed%d-%s-s0-%s.json" % (PID, SEED, TIER, sig_hash(sig)))
        with open(path, "w") as f:
            json.dump({"property": PID, "seed": SEED, "tier": TIER, "shard": "0/1", "signature": sig,
                       "witness": jsonable(witness)}, f, indent=1)
        print("VIOLATION property=%s replay=%s" % (PID, path))
        print("  signature: %s" % sig)
        sys.stdout.flush()
        return True


# --------------------------------------------------------------------------
# build

def genmod(kind, out):
    src = open(os.path.join(REPO, "go.mod")).read()
    extra = ["", "require verifkit v0.0.0", "replace verifkit => %s/kit" % HOME,
             "require github.com/anishathalye/porcupine v1.3.0"]
    if kind == "ext":
        src = re.sub(r"(?m)^module .*$", "module verif", src, count=1)
        extra += ["require github.com/snapcore/snapd v0.0.0", "replace github.com/snapcore/snapd => %s" % REPO]
    with open(out, "w") as f:
        f.write(src + "\n".join(extra) + "\n")
    sums = open(os.path.join(REPO, "go.sum")).read()
    es = os.path.join(HOME, "lib", "extra.sum")
    if os.path.exists(es):
        sums += open(es).read()
    with open(re.sub(r"\.mod$", ".sum", out), "w") as f:
        f.write(sums)


def build():
    pre = os.environ.get("VERIF_C06_PREBUILT")  # development only: reuse binaries
    if pre and os.path.exists(os.path.join(pre, "awdriver")) and os.path.exists(os.path.join(pre, "overlord.test")):
        return os.path.join(pre, "awdriver"), os.path.join(pre, "overlord.test")
    env = dict(os.environ)
    env.update({"GOFLAGS": "-mod=mod", "GOPROXY": "off", "GOSUMDB": "off", "GOTOOLCHAIN": "local"})
    bindir = os.path.join(WORK, "bin")
    os.makedirs(bindir, exist_ok=True)
    extmod = os.path.join(WORK, "ext.mod")
    genmod("ext", extmod)
    inmod = os.path.join(WORK, "inpkg.mod")
    genmod("inpkg", inmod)
    awd = os.path.join(bindir, "awdriver")
    # NB: neither path contains "go-build", so osutil.IsTestBinary() is false in
    # both binaries; the backend driver additionally runs with SNAPD_UNSAFE_IO=0.
    bet = os.path.join(bindir, "overlord.test")
    ov = {}
    srcdir = os.path.join(HOME, "harness", "inpkg", "c06")
    for fn in sorted(os.listdir(srcdir)):
        if fn.endswith(".go"):
            tgt = os.path.join(REPO, "overlord", "zz_verif_" + fn)
            if os.path.exists(tgt):
                print("BROKEN overlay target exists in repo:", tgt)
                return None
            ov[tgt] = os.path.join(srcdir, fn)
    ovf = os.path.join(WORK, "overlay.json")
    json.dump({"Replace": ov}, open(ovf, "w"))
    cmds = [
        (["go", "build", "-modfile=" + extmod, "-o", awd, "./harness/proc/c06/awdriver"], HOME, os.path.join(WORK, "build-awdriver.log")),
        (["go", "test", "-c", "-overlay", ovf, "-modfile=" + inmod, "-vet=off", "-tags", "verif", "-o", bet, "./overlord"], REPO,
         os.path.join(WORK, "build-overlord.log")),
    ]
    procs = []
    for cmd, cwd, log in cmds:
        f = open(log, "w")
        procs.append((subprocess.Popen(cmd, cwd=cwd, env=env, stdout=f, stderr=subprocess.STDOUT), f, log))
    okall = True
    for p, f, log in procs:
        rc = p.wait()
        f.close()
        if rc != 0:
            sys.stdout.write(open(log).read()[-6000:])
            okall = False
    if not okall or not os.path.exists(awd) or not os.path.exists(bet):
        print("BROKEN property=%s harness does not build against %s" % (PID, REPO))
        return None
    return awd, bet


# --------------------------------------------------------------------------
# scenarios (pure function of seed and tier)

def gen_scenarios():
    rnd = random.Random("C06/%d/scenarios" % SEED)
    out = []

    def blob(cls):
        if cls == "tiny":
            n = rnd.randint(1, 64)
        elif cls == "page":
            n = rnd.choice([4095, 4096, 4097, 8192])
        elif cls == "chunk":
            n = 32768 * rnd.randint(1, 2) + rnd.choice([-1, 0, 1, 517])
        elif cls == "big":
            n = rnd.randint(40000, 120000) if QUICK else rnd.randint(100000, 400000)
        else:
            n = rnd.randint(65, 3000)
        return rnd.randbytes(n)

    def anycls():
        return rnd.choice(["tiny", "small", "page", "chunk", "small", "big" if not QUICK else "page"])

    def name():
        return rnd.choice(["state.json", "data.cfg", "f", "profile.snap.app", "grubenv", "a.b.c", "x~"])

    def perm():
        return rnd.choice([0o600, 0o644, 0o640, 0o755])

    def add(**kw):
        kw.setdefault("driver", "aw")
        kw.setdefault("read_mode", "content")
        kw.setdefault("dirs", ["."])
        kw.setdefault("relative", False)
        kw["idx"] = len(out)
        out.append(kw)

    def b64(b):
        return base64.b64encode(b).decode()

    reps = 1 if QUICK else 3
    for rep in range(reps):
        # both preconditions in thorough; in quick the seed picks one per kind
        def pres():
            return [rnd.choice(["existing", "absent"])] if QUICK else ["existing", "absent"]

        for pre in pres():  # AtomicWriteFile
            n = name(); new = blob(anycls())
            add(kind="writefile", family="atomicfile", pre=pre, target=n,
                init={n: {"file": blob(anycls())}} if pre == "existing" else {},
                ops=[dict(kind="writefile", target=n, data_b64=b64(new), perm=perm())], news=[("data", new)])
        for pre in pres():  # AtomicWrite streaming a reader in chunks
            n = name(); new = blob("chunk" if QUICK else rnd.choice(["chunk", "big"]))
            add(kind="write-reader", family="atomicfile", pre=pre, target=n,
                init={n: {"file": blob("big" if pre == "existing" else "tiny")}} if pre == "existing" else {},
                ops=[dict(kind="write-reader", target=n, data_b64=b64(new), perm=perm(),
                          chunk=rnd.choice([0, 4096, 8192, 16384]))], news=[("data", new)])
        for pre in pres():  # AtomicWriteFollow through a symlink (absolute / relative / dangling)
            new = blob(anycls())
            linkabs = rnd.random() < 0.5
            init = {"link.cfg": {"symlink": ("@ROOT@/real/data.cfg" if linkabs else "real/data.cfg")}}
            if pre == "existing":
                init["real/data.cfg"] = {"file": blob(anycls())}
            add(kind="writefile-follow", family="atomicfile", pre=pre + ("-abslink" if linkabs else "-rellink"),
                target="link.cfg", dirs=[".", "real"], init=init,
                ops=[dict(kind="writefile", target="link.cfg", data_b64=b64(new), perm=perm(), follow=True)],
                news=[("data", new)])
        # replacing a symlink by a regular file (no follow)
        new = blob(anycls())
        add(kind="writefile-over-symlink", family="atomicfile", pre="existing-symlink", target="f.cfg", dirs=[".", "real"],
            init={"real/old.cfg": {"file": blob(anycls())}, "f.cfg": {"symlink": "real/old.cfg"}},
            ops=[dict(kind="writefile", target="f.cfg", data_b64=b64(new), perm=perm())], news=[("data", new)])
        for pre in pres():  # AtomicFile long-hand with SetModTime, several Write calls
            n = name(); new = blob("page" if QUICK else anycls())
            add(kind="atomicfile-mtime", family="atomicfile", pre=pre, target=n,
                init={n: {"file": blob(anycls())}} if pre == "existing" else {},
                ops=[dict(kind="atomicfile", target=n, data_b64=b64(new), perm=perm(), uid=-1, gid=-1,
                          mtime=rnd.randint(1, 2 ** 31 - 1), chunk=rnd.choice([0, 1500, 4096]))], news=[("data", new)])
        for pre in pres():  # chown variants (the sandbox runs as root)
            n = name(); new = blob(anycls())
            k = rnd.choice(["writefile-chown", "write-reader-chown", "atomicfile"])
            add(kind="chown:" + k, family="atomicfile", pre=pre, target=n,
                init={n: {"file": blob(anycls())}} if pre == "existing" else {},
                ops=[dict(kind=k, target=n, data_b64=b64(new), perm=perm(), uid=rnd.choice([0, 1000, -1]),
                          gid=rnd.choice([0, 1000]), chunk=8192, mtime=rnd.choice([0, 1234567890]))], news=[("data", new)])
        for pre in pres():  # CommitAs: final name differs from the name given to NewAtomicFile
            new = blob(anycls())
            add(kind="atomicfile-commitas", family="atomicfile", pre=pre, target="final.bin",
                init={"final.bin": {"file": blob(anycls())}} if pre == "existing" else {},
                ops=[dict(kind="atomicfile", target="staging.bin", commit_as="final.bin", data_b64=b64(new), perm=perm(),
                          uid=-1, gid=-1, chunk=rnd.choice([0, 700]))], news=[("data", new)])
        # Cancel instead of Commit: target must never change
        n = name()
        add(kind="atomicfile-cancel", family="atomicfile", pre="existing", target=n, init={n: {"file": blob(anycls())}},
            ops=[dict(kind="atomicfile-cancel", target=n, data_b64=b64(blob(anycls())), perm=perm(), uid=-1, gid=-1, chunk=512)],
            news=[None])
        # two consecutive writes in one process: during the second, only B or C
        n = name(); b1 = blob(anycls()); b2 = blob(anycls())
        pre = rnd.choice(["existing", "absent"])
        add(kind="double-writefile", family="atomicfile", pre=pre, target=n,
            init={n: {"file": blob(anycls())}} if pre == "existing" else {},
            ops=[dict(kind="writefile", target=n, data_b64=b64(b1), perm=0o600),
                 dict(kind="writefile", target=n, data_b64=b64(b2), perm=0o600)], news=[("data", b1), ("data", b2)])
        # cwd-relative target
        n = name(); new = blob(anycls())
        pre = rnd.choice(["existing", "absent"])
        add(kind="writefile-relative", family="atomicfile", pre=pre, target=n, relative=True,
            init={n: {"file": blob(anycls())}} if pre == "existing" else {},
            ops=[dict(kind="writefile", target=n, data_b64=b64(new), perm=perm())], news=[("data", new)])
        # empty new content over a non-empty file
        n = name()
        add(kind="writefile-empty", family="atomicfile", pre="existing", target=n, init={n: {"file": blob("small")}},
            ops=[dict(kind="writefile", target=n, data_b64="", perm=perm())], news=[("data", b"")])
        for pre in pres():  # AtomicSymlink
            lt = rnd.choice(["../x/current", "/snap/core/1234", "rev-%d" % rnd.randint(1, 9999)])
            add(kind="symlink", family="atomicrename", pre=pre, target="current", read_mode="readlink",
                init={"current": {"symlink": "rev-old-%d" % rnd.randint(1, 99)}} if pre == "existing" else {},
                ops=[dict(kind="symlink", target="current", link_to=lt)], news=[("link", lt)])
        for pre in pres():  # AtomicRename, same directory and across directories
            src = blob(anycls())
            cross = rnd.random() < 0.5
            s, d = ("a/src.bin", "b/dst.bin") if cross else ("a/src.bin", "a/dst.bin")
            init = {s: {"file": src}}
            if pre == "existing":
                init[d] = {"file": blob(anycls())}
            add(kind="rename", family="atomicrename", pre=pre + ("-crossdir" if cross else "-samedir"), target=d,
                dirs=[".", "a", "b"], init=init, ops=[dict(kind="rename", source=s, target=d)], news=[("data", src)])
        # ---- the real state backend
        for pre in pres():
            nops = rnd.choice([1, 2])
            datas = [json.dumps({"data": {"k%d" % i: base64.b64encode(blob(anycls())).decode()}, "last-change-id": i}).encode()
                     for i in range(nops)]
            add(kind="backend-checkpoint", family="checkpoint", driver="be", mode="checkpoint", pre=pre, target="state.json",
                init={"state.json": {"file": json.dumps({"data": {"old": base64.b64encode(blob(anycls())).decode()}}).encode()}}
                if pre == "existing" else {},
                datas=datas, news=[("data", d) for d in datas])
        pre = rnd.choice(["existing", "absent"])
        nk = rnd.choice([2, 3])
        add(kind="backend-state-unlock", family="checkpoint", driver="be", mode="state-unlock", pre=pre, target="state.json",
            init={"state.json": {"file": b'{"data":{"old":true}}'}} if pre == "existing" else {},
            keys=["key-%d" % i for i in range(nk)],
            values=[base64.b64encode(blob(anycls())).decode() for _ in range(nk)], news=None)
    return out


# --------------------------------------------------------------------------
# one traced run

def materialize(sc, rundir):
    """Creates the initial tree; returns the concrete scenario for the checker
    and the driver's scenario file path."""
    root = os.path.join(rundir, "root")
    for d in sc["dirs"]:
        os.makedirs(os.path.normpath(os.path.join(root, d)), exist_ok=True)
    init = {}
    for rel, spec in sc["init"].items():
        p = os.path.join(root, rel)
        if "file" in spec:
            with open(p, "wb") as f:
                f.write(spec["file"])
            init[rel] = {"file": spec["file"]}
        else:
            t = spec["symlink"].replace("@ROOT@", root)
            os.symlink(t, p)
            init[rel] = {"symlink": t}

    def P(rel):
        return os.path.join("root", rel) if sc["relative"] else os.path.join(root, rel)

    conc = dict(root=root, dirs=[os.path.normpath(os.path.join(root, d)) for d in sc["dirs"]], init=init,
                target=P(sc["target"]), read_mode=sc["read_mode"])
    scf = os.path.join(rundir, "scenario.json")
    if sc["driver"] == "aw":
        ops = []
        for o in sc["ops"]:
            o = dict(o)
            o["target"] = P(o["target"])
            if o.get("source"):
                o["source"] = P(o["source"])
            if o.get("commit_as"):
                o["commit_as"] = P(o["commit_as"])
            o.setdefault("uid", -1)
            o.setdefault("gid", -1)
            ops.append(o)
        json.dump({"ops": ops}, open(scf, "w"))
    else:
        exp = os.path.join(rundir, "expect")
        os.makedirs(exp, exist_ok=True)
        d = {"mode": sc["mode"], "path": P(sc["target"]), "expect_dir": exp}
        if sc["mode"] == "checkpoint":
            d["data_b64"] = [base64.b64encode(x).decode() for x in sc["datas"]]
        else:
            d["keys"] = sc["keys"]
            d["values"] = sc["values"]
        json.dump(d, open(scf, "w"))
    return conc, scf


def listing(root):
    out = {}
    for dp, dns, fns in os.walk(root):
        for fn in fns:
            p = os.path.join(dp, fn)
            if os.path.islink(p):
                out[p] = ("link", os.readlink(p))
            else:
                with open(p, "rb") as f:
                    out[p] = ("data", f.read())
        for dn in dns:
            p = os.path.join(dp, dn)
            if os.path.islink(p):
                out[p] = ("link", os.readlink(p))
    return out


def read_real(conc, rundir):
    t = conc["target"]
    if not t.startswith("/"):
        t = os.path.join(rundir, t)
    try:
        if conc["read_mode"] == "readlink":
            if os.path.islink(t):
                return ("link", os.readlink(t))
            if not os.path.lexists(t):
                return ("absent",)
        with open(t, "rb") as f:
            return ("data", f.read())
    except FileNotFoundError:
        return ("absent",)


def news_fn(sc, rundir):
    if sc["news"] is not None:
        def f(i):
            if i >= len(sc["news"]):
                raise KeyError(i)
            return sc["news"][i]
        return f

    def g(i):
        p = os.path.join(rundir, "expect", "expected.%d" % i)
        if not os.path.exists(p):
            raise KeyError(i)
        return ("data", open(p, "rb").read())
    return g


def traced_run(bins, sc, tag, inject=None):
    rundir = os.path.join(WORK, "sc%03d" % sc["idx"], tag)
    shutil.rmtree(rundir, ignore_errors=True)
    os.makedirs(rundir)
    conc, scf = materialize(sc, rundir)
    trace = os.path.join(rundir, "trace.txt")
    cmd = ["strace", "-f", "-s", "2000000", "-xx", "-o", trace, "-e", "trace=" + c06lib.TRACE_SET]
    if not (inject and "signal=" in inject):
        cmd.insert(1, "--seccomp-bpf")  # cheaper; but strace does not deliver injected signals in that mode
    if inject:
        cmd += ["-e", "inject=" + inject]
    env = dict(os.environ)
    env["GOMAXPROCS"] = "1"
    env.pop("GOFLAGS", None)
    if sc["driver"] == "aw":
        env.pop("SNAPD_UNSAFE_IO", None)
        cmd += [bins[0], scf]
    else:
        env["SNAPD_UNSAFE_IO"] = "0"
        env["VERIF_C06_SCENARIO"] = scf
        cmd += [bins[1], "-test.run", "^TestVerifC06$", "-test.timeout", "0"]
    with open(os.path.join(rundir, "out.log"), "w") as f:
        try:
            rc = subprocess.call(cmd, cwd=rundir, env=env, stdout=f, stderr=subprocess.STDOUT, timeout=600)
        except subprocess.TimeoutExpired:
            inconclusive("watchdog: a traced run did not finish in 600 s")
            return None
    count("process_runs")
    try:
        events, exits = c06lib.parse_trace(trace)
    except (c06lib.TraceError, OSError) as e:
        inconclusive("trace unreadable: %s" % e)
        return None
    return dict(rundir=rundir, conc=conc, events=events, exits=exits, rc=rc, listing=listing(conc["root"]),
                real=read_real(conc, rundir), out=open(os.path.join(rundir, "out.log"), errors="replace").read()[-2000:])


def sc_summary(sc):
    d = {k: sc[k] for k in ("idx", "kind", "family", "pre", "driver", "target", "read_mode", "relative") if k in sc}
    d["init"] = {k: ({"file_len": len(v["file"])} if "file" in v else v) for k, v in sc["init"].items()}
    if sc.get("ops"):
        d["ops"] = [{k: (v if k != "data_b64" else "len=%d" % len(base64.b64decode(v))) for k, v in o.items()} for o in sc["ops"]]
    if sc.get("datas"):
        d["checkpoint_sizes"] = [len(x) for x in sc["datas"]]
    if sc.get("keys"):
        d["keys"] = sc["keys"]
    return d


CONTENT_SYSCALLS = ("write", "pwrite64", "fsync", "fdatasync", "rename", "renameat", "renameat2", "openat", "symlinkat")
ERRNOS = {"write": ["ENOSPC", "EIO"], "pwrite64": ["ENOSPC", "EIO"], "fsync": ["EIO", "ENOSPC"], "fdatasync": ["EIO"],
          "rename": ["ENOSPC", "EIO"], "renameat": ["ENOSPC", "EIO"], "renameat2": ["ENOSPC", "EIO"],
          "openat": ["ENOSPC", "EACCES"], "close": ["EIO"], "symlinkat": ["ENOSPC"], "fchown": ["EPERM"],
          "utimensat": ["EPERM"], "unlinkat": []}


def report(sc, clause, detail, run=None):
    sig = "%s:%s:%s" % (PID, clause, sc["family"])
    w = {"case_index": sc["idx"], "scenario": sc_summary(sc), "detail": detail}
    if run is not None:
        w["rundir"] = run["rundir"]
        w["trace_tail"] = trace_tail(run)
    violation(sig, w)


def trace_tail(run, n=40):
    try:
        lines = open(os.path.join(run["rundir"], "trace.txt"), errors="replace").read().splitlines()
    except OSError:
        return []
    return [ln[:300] for ln in lines[-n:]]


def compare_model_real(res, run):
    """Does the model's volatile layer equal the real directory after the run?"""
    model = res["final"]
    real = run["listing"]
    return model == real


def with_unfinished_applied(events):
    out = []
    main_tid = events[0]["tid"] if events else None
    for ev in events:
        if ev["unfinished"] and ev["tid"] == main_tid:
            ev = dict(ev)
            ev["unfinished"] = False
            if ev["name"] in ("write", "pwrite64"):
                try:
                    ev["ret"] = len(c06lib.decode_str(ev["args"][1]) or b"")
                except Exception:
                    ev["ret"] = 0
            elif ev["name"] == "openat":
                ev["ret"] = 9999
            else:
                ev["ret"] = 0
        out.append(ev)
    return out


def do_scenario(bins, sc):
    global EVALS
    count("scenarios")
    clean = traced_run(bins, sc, "clean")
    if clean is None:
        return []
    if clean["rc"] != 0:
        inconclusive("scenario %d (%s): clean run exited %s: %s" % (sc["idx"], sc["kind"], clean["rc"], clean["out"][-300:]))
        return []
    nf = news_fn(sc, clean["rundir"])
    res = c06lib.check_trace(clean["conc"], clean["rundir"], clean["events"], nf, True)
    count("traces_clean")
    if sc["driver"] == "be":
        count("traces_real_state_backend")
    absorb(sc, res, clean, "clean")
    nops_expected = len(sc["news"]) if sc["news"] is not None else len(sc["keys"])
    if len(res["ops"]) != nops_expected or not all(ok for _, ok in res["ops"]):
        inconclusive("scenario %d (%s): clean run did not complete its operations: %s" % (sc["idx"], sc["kind"], res["ops"]))
        return []
    # the model against reality, and reality against the statement
    final_check(sc, res, clean, killed=False)
    with LOCK:
        if len(SAMPLES) < 4 and sc["idx"] % 5 == 0:
            SAMPLES.append({"scenario": sc_summary(sc),
                            "relevant_syscalls": ["/".join(str(x) for x in ab) for _, ab, _, _ in res["relevant"]],
                            "crash_points": res["prefixes"], "durable_states_enumerated": res["states"]})

    # ---- injection plan from the clean trace
    ev = clean["events"]
    tid = res["driver_tid"]
    marks = [i for i, e in enumerate(ev) if c06lib.marker(e)]
    lo, hi = marks[0], marks[-1]
    plan = []
    rel_pos = 0
    for (idx, ab, etid, name) in res["relevant"]:
        if not (lo < idx < hi):
            continue
        pos = rel_pos
        rel_pos += 1
        if etid != tid:
            count("relevant_syscalls_off_driver_thread")
            continue
        k = sum(1 for e in ev[:idx + 1] if e["tid"] == etid and e["name"] == name)
        plan.append(dict(pos=pos, ab=ab, name=name, when=k))
    nrel = rel_pos
    # long runs of the same abstract syscall (a big file streamed in many writes) are
    # thinned for the REAL injections: quick first/middle/last, thorough first 3, last 3
    # and 2 seeded ones in between. (The model enumeration above covers every prefix.)
    groups = {}
    for p in plan:
        groups.setdefault(p["ab"], []).append(p)
    keep = set()
    trnd = random.Random("C06/%d/thin/%d" % (SEED, sc["idx"]))
    for ab, g in groups.items():
        if QUICK:
            sel = sorted(set([0, len(g) // 2, len(g) - 1]))
        elif len(g) <= 8:
            sel = range(len(g))
        else:
            sel = [0, 1, 2, len(g) - 3, len(g) - 2, len(g) - 1] + trnd.sample(range(3, len(g) - 3), 2)
        for j in sel:
            keep.add(g[j]["pos"])
    if len(keep) < len(plan):
        count("injection_positions_thinned", len(plan) - len(keep))
    plan = [p for p in plan if p["pos"] in keep]
    clean_abs = [ab for (idx, ab, etid, name) in res["relevant"] if lo < idx < hi]
    jobs = []
    for p in plan:
        jobs.append(("kill", p, None))
        ers = ERRNOS.get(p["name"], [])
        if QUICK and ers:
            # one errno per position in quick, alternating by seed and position
            ers = [ers[(SEED + p["pos"]) % len(ers)]]
        if sc.get("mode") == "state-unlock":
            # State.Unlock retries a failed checkpoint after a 3 s sleep: keep the count low
            if QUICK and p["name"] not in ("fsync", "rename", "renameat", "renameat2"):
                ers = []
            ers = ers[:1]
        for e in ers:
            jobs.append(("errno", p, e))
    return [(sc, kind, p, e, clean_abs) for (kind, p, e) in jobs]


def do_job(bins, job):
    sc, kind, p, e, clean_abs = job
    if kind == "kill":
        inj = "%s:signal=SIGKILL:when=%d" % (p["name"], p["when"])
        tag = "kill-%02d" % p["pos"]
    else:
        inj = "%s:error=%s:when=%d" % (p["name"], e, p["when"])
        tag = "errno-%02d-%s" % (p["pos"], e)
    run = traced_run(bins, sc, tag, inj)
    if run is None:
        return
    judge_injected(sc, run, kind, p, e, clean_abs, tid_hint=None)
    if VIOLATIONS == 0 and not os.environ.get("VERIF_C06_KEEP"):
        shutil.rmtree(run["rundir"], ignore_errors=True)


def absorb(sc, res, run, what):
    """Folds one model-checked trace into the evidence and reports its violations."""
    global EVALS
    with LOCK:
        EVALS += res["prefixes"]
        for shape, n in res["shapes"]:
            SIGS.add(sig_hash(sc["kind"], sc["pre"].split("-")[0], shape, n))
    count("crash_prefixes_enumerated", res["prefixes"])
    count("durable_states_enumerated", res["states"])
    count("crash_points_with_several_durable_states", res["nontrivial_points"])
    for k, v in res["counters"].items():
        count(k, v)
    for (_, ab, _, _) in res["relevant"]:
        if ab[0] in ("fsync", "fdatasync") and ab[-1] == "ok":
            count("fsync_dir_seen" if ab[1] == "dir" else "fsync_file_seen")
        if ab[0].startswith("rename") and ab[-1] == "ok":
            count("renames_seen")
    cmax("max_relevant_syscalls_in_one_trace", len(res["relevant"]))
    for msg in res["inconclusive"]:
        inconclusive("scenario %d (%s, %s): %s" % (sc["idx"], sc["kind"], what, msg))
    for clause, detail in res["violations"]:
        report(sc, clause, detail, run)


def final_check(sc, res, run, killed):
    """After the process is gone: (1) the real target holds an allowed value,
    (2) the model's volatile layer equals the real directory."""
    count("real_fs_checks")
    if run["real"] not in res["allowed_final"]:
        report(sc, "process-crash:real-file-neither-old-nor-new" if killed else "real-file-neither-old-nor-new",
               dict(observed=c06lib.describe(run["real"]), allowed=[c06lib.describe(a) for a in res["allowed_final"]],
                    ops=res["ops"]), run)
    if compare_model_real(res, run):
        count("model_agrees_with_real_directory")
        return True
    if killed:
        nf = news_fn(sc, run["rundir"])
        res2 = c06lib.check_trace(run["conc"], run["rundir"], with_unfinished_applied(run["events"]), nf, False)
        if compare_model_real(res2, run):
            count("model_agrees_with_real_directory")
            count("killed_syscall_had_taken_effect")
            return True
    a, b = res["final"], run["listing"]
    diff = sorted(set(k for k in set(a) | set(b) if a.get(k) != b.get(k)))
    inconclusive("scenario %d (%s): model and real directory disagree after %s: %s" % (
        sc["idx"], sc["kind"], os.path.basename(run["rundir"]), [os.path.basename(x) for x in diff][:4]))
    return False


ELSEWHERE = []


def note_elsewhere(sc, kind, p, got, extra=""):
    with LOCK:
        if len(ELSEWHERE) < 12:
            ELSEWHERE.append("%s sc%d %s: wanted #%d %s, hit %s" % (kind, sc["idx"], sc["kind"], p["pos"],
                                                                 "/".join(str(x) for x in p["ab"]),
                                                                 "/".join(str(x) for x in got) if got else "a syscall outside the scenario directory") + " " + extra)


def judge_injected(sc, run, kind, p, errno, clean_abs, tid_hint):
    global EVALS
    ev = run["events"]
    nf = news_fn(sc, run["rundir"])
    main_tid = ev[0]["tid"] if ev else None   # strace's first line is the exec'd main thread, which runs the ops
    killed = "killed by SIGKILL" in run["exits"].get(main_tid, "")
    res = c06lib.check_trace(run["conc"], run["rundir"], ev, nf, kind == "errno")
    marks = [i for i, e in enumerate(ev) if c06lib.marker(e)]
    lo = marks[0] if marks else 10 ** 9
    rel = [(idx, ab, name) for (idx, ab, _, name) in res["relevant"] if idx > lo]
    with LOCK:
        EVALS += 1
    if kind == "kill":
        if not killed:
            count("injections_not_fired")
            if run["rc"] == 0:
                final_check(sc, res, run, killed=False)  # an ordinary complete run
            return
        count("kill_injections_fired")
        # (strace sometimes repeats the cut-off call under another thread's id when the
        # whole process dies: only the main thread's unfinished call is the injected one)
        rel = [(idx, ab, name) for (idx, ab, name) in rel if not (ev[idx]["unfinished"] and ev[idx]["tid"] != main_tid)]
        hit = [(j, idx, ab) for j, (idx, ab, name) in enumerate(rel) if ev[idx]["unfinished"]]
        if hit and hit[-1][0] == p["pos"] and hit[-1][2][:-1] == p["ab"][:-1]:
            count("kill_injections_on_intended_syscall")
            with LOCK:
                SIGS.add(sig_hash("kill", sc["kind"], sc["pre"].split("-")[0], tuple(clean_abs[:p["pos"] + 1])))
        else:
            count("kill_injections_elsewhere")
            note_elsewhere(sc, "kill", p, hit[-1][2] if hit else None, "pos=%s nrel=%d" % (hit[-1][0] if hit else None, len(rel)))
            if os.environ.get("VERIF_C06_KEEP"):
                shutil.copy(os.path.join(run["rundir"], "trace.txt"), os.path.join(WORK, "elsewhere-sc%d-kill-%d.txt" % (sc["idx"], p["pos"])))
        final_check(sc, res, run, killed=True)
        n = sum(1 for path in run["listing"] if c06lib.TMP_RE.search(path))
        if n:
            count("temps_left_after_kill", n)
        return
    # errno
    # (a child process spawned during package init gets its own k-th call tampered with: not ours)
    inj = [(i, e) for i, e in enumerate(ev) if e["injected"] and e["tid"] == main_tid]
    if not inj:
        count("injections_not_fired")
        if run["rc"] == 0 and not killed:
            final_check(sc, res, run, killed=False)  # an ordinary complete run
        return
    count("errno_injections_fired")
    count("traces_errno_model_checked")
    absorb(sc, res, run, "errno %s at %s" % (errno, "/".join(str(x) for x in p["ab"])))
    i_inj = inj[0][0]
    hit = [(j, idx, ab) for j, (idx, ab, name) in enumerate(rel) if idx == i_inj]
    on_target = bool(hit) and hit[0][0] == p["pos"] and hit[0][2][:-1] == p["ab"][:-1]
    if on_target:
        count("errno_injections_on_intended_syscall")
        with LOCK:
            SIGS.add(sig_hash("errno", errno, sc["kind"], sc["pre"].split("-")[0], tuple(clean_abs[:p["pos"] + 1])))
    else:
        count("errno_injections_elsewhere")
        note_elsewhere(sc, "errno", p, hit[0][2] if hit else None)
    if killed or run["rc"] not in (0, 3):
        inconclusive("scenario %d (%s): driver died under errno injection (rc=%s): %s" % (sc["idx"], sc["kind"], run["rc"], run["out"][-200:]))
        return
    final_check(sc, res, run, killed=False)
    if hit:
        # which operation was in flight?
        op = None
        for i in marks:
            mk = c06lib.marker(ev[i])
            if i < i_inj and mk[0] == "BEGIN":
                op = mk[1]
            if i < i_inj and mk[0] == "END":
                op = None
        if op is not None:
            ended = [ok for (i, ok) in res["ops"] if i == op]
            ab = hit[0][2]
            content_relevant = ab[0] in CONTENT_SYSCALLS or (ab[0] == "close" and ab[1] != "dir")
            if ab[0] == "openat" and ab[1] not in ("tmp", "dir"):
                content_relevant = False
            if content_relevant and ended and ended[0]:
                report(sc, "errno:error-not-reported",
                       dict(injected="%s -> %s" % ("/".join(str(x) for x in ab), errno), op=op, ops=res["ops"]), run)
            elif ended and not ended[0]:
                count("errors_reported_to_caller")
    if res["in_op"] is None:
        left = [os.path.basename(path) for path in run["listing"] if c06lib.TMP_RE.search(path)]
        if left:
            report(sc, "errno:temp-left-behind", dict(left=left, injected="%s:%s" % (p["name"], errno), ops=res["ops"]), run)
        else:
            count("errno_runs_without_leftover_temp")


# --------------------------------------------------------------------------

def write_part(exhaustive):
    os.makedirs(PARTS, exist_ok=True)
    part = {
        "property_id": PID, "level": "fault_enumeration", "tier": TIER, "seed": SEED, "shard": "0/1",
        "evaluations": EVALS, "sigs": sorted(SIGS), "distinct_enumerated": 0, "counters": COUNTERS,
        "samples": jsonable(SAMPLES),
        "rule": ("cases = (scenario trace, crash point): scenarios are a pure function of the seed (helper variant x target "
                 "precondition x seeded names/sizes/contents/chunking/perm); for every clean trace and every errno-injected trace "
                 "EVERY prefix of the syscalls touching the scenario directory is a crash point at which all durable states of the "
                 "persistence model are enumerated; plus one real SIGKILL run and one real errno run per (thinned in quick) relevant "
                 "syscall. evaluations = crash prefixes enumerated + injected process runs. A case is non-trivial when the crash point "
                 "has more than one reachable durable state (something un-synced is pending), or an injection really fired on the "
                 "intended syscall; distinct = distinct (variant, precondition, abstract syscall-role sequence up to the point, "
                 "number of states) signatures, sizes and random names abstracted away."),
        "assumptions": [
            "persistence model (ext4-like): data durable only after fsync of the inode; create/rename/unlink/symlink durable only "
            "after fsync of a directory they changed; any subset of pending operations may survive; rename is atomic; a cross-directory "
            "rename is one unit that becomes durable with either directory's fsync; storage does not reorder inside fsynced data",
            "strace reports the syscalls in program order for the (thread-locked, GOMAXPROCS=1) driver goroutine; the model's final "
            "volatile state is compared with the real directory after every run (counter model_agrees_with_real_directory)",
            "the pre-existing target and rename sources are assumed durable before the helper is called",
            "SIGKILL injected by strace arrives at syscall entry: process-crash points are 'before syscall k' for every relevant k",
        ],
        "notes": {"injections_that_hit_elsewhere": ELSEWHERE, "tmpdir_fs": WORK, "strace": "strace --seccomp-bpf -f -s 2000000 -xx -e trace=" + c06lib.TRACE_SET},
        "exhaustive": exhaustive, "violations": VIOLATIONS, "violation_signatures": VIOL_SIGS,
        "known_findings": KNOWN, "known_descriptions": KNOWN_DESC, "inconclusive": INCONCLUSIVE,
        "wall_s": round(time.time() - T0, 2),
    }
    with open(os.path.join(PARTS, "%s.part0.json" % PID), "w") as f:
        json.dump(part, f)


def main():
    os.makedirs(WORK, exist_ok=True)
    bins = build()
    if bins is None:
        return 2
    tb = time.time()
    scs = gen_scenarios()
    if ONLY is not None:
        scs = [s for s in scs if str(s["idx"]) == ONLY]
    workers = int(os.environ.get("VERIF_C06_WORKERS", str(min(16, os.cpu_count() or 4))))
    jobs = []

    def guarded(what, fn, *a):
        try:
            return fn(*a)
        except Exception as e:  # a checker bug must not pass silently
            import traceback
            traceback.print_exc()
            inconclusive("%s: checker error %r" % (what, e))
            return None

    with concurrent.futures.ThreadPoolExecutor(max_workers=workers) as ex:
        # the (slow to start) backend scenarios first
        order = sorted(scs, key=lambda s: (s["driver"] != "be", s["idx"]))
        futs = [ex.submit(guarded, "scenario %d (%s)" % (sc["idx"], sc["kind"]), do_scenario, bins, sc) for sc in order]
        for fu in futs:
            jobs += fu.result() or []
    COUNTERS["injection_runs_planned"] = len(jobs)
    with concurrent.futures.ThreadPoolExecutor(max_workers=workers) as ex:
        jobs.sort(key=lambda j: (j[0]["driver"] != "be", j[0]["idx"]))
        futs = [ex.submit(guarded, "scenario %d (%s) %s at %s" % (j[0]["idx"], j[0]["kind"], j[1], j[2]["pos"]), do_job, bins, j)
                for j in jobs]
        for fu in futs:
            fu.result()
    if VIOLATIONS == 0 and not os.environ.get("VERIF_C06_KEEP"):
        for sc in scs:
            shutil.rmtree(os.path.join(WORK, "sc%03d" % sc["idx"]), ignore_errors=True)
    COUNTERS["build_s"] = int(tb - T0)
    tm = os.times()
    COUNTERS["checker_cpu_s"] = int(tm.user + tm.system)
    COUNTERS["children_cpu_s"] = int(tm.children_user + tm.children_system)
    floors = {"traces_clean": 10, "traces_real_state_backend": 2, "crash_prefixes_enumerated": 150,
              "durable_states_enumerated": 300, "kill_injections_on_intended_syscall": 40,
              "errno_injections_on_intended_syscall": 40, "fsync_file_seen": 10, "fsync_dir_seen": 10,
              "model_agrees_with_real_directory": 50}
    if ONLY is None:
        for k, n in floors.items():
            if COUNTERS.get(k, 0) < n:
                inconclusive("monitor counter %s=%d below floor %d" % (k, COUNTERS.get(k, 0), n))
        if len(SIGS) < 2:
            inconclusive("only %d distinct non-trivial cases" % len(SIGS))
    # exhaustive for the finite set it claims: every prefix of every observed trace
    # was enumerated unless a trace was dropped (then something is inconclusive)
    write_part(exhaustive=not INCONCLUSIVE)
    for k in sorted(KNOWN):
        print("KNOWN-FINDING: property=%s %s [%s, seen %d times]" % (PID, KNOWN_DESC[k], k, KNOWN[k]))
    for r in INCONCLUSIVE:
        print("INCONCLUSIVE property=%s %s" % (PID, r))
    status = "violated" if VIOLATIONS else ("inconclusive" if INCONCLUSIVE else "held")
    print("VERIF-RESULT property=%s status=%s evaluations=%d distinct_nontrivial=%d violations=%d counters=%s" % (
        PID, status, EVALS, len(SIGS), VIOLATIONS, json.dumps(COUNTERS, sort_keys=True)))
    sys.stdout.flush()
    if VIOLATIONS:
        return 1
    if INCONCLUSIVE:
        return 3
    return 0


if __name__ == "__main__":
    sys.exit(main())
