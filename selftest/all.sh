#!/bin/bash
# selftest/all.sh <ID>... : run every mutant of the given properties, summary in selftest/results/<ID>.txt
cd /verif
mkdir -p selftest/results
for id in "$@"; do
  : > selftest/results/$id.txt
  for m in selftest/mutants/$id/*.patch; do
    selftest/run.sh $id $m 2>&1 | grep -E "^SELFTEST|signature" | tr '\n' ' ' >> selftest/results/$id.txt; echo >> selftest/results/$id.txt
  done
done
