#!/bin/bash
# selftest/run.sh <ID> <patch-file> [extra check args]
# Applies one mutant/seeded patch to a scratch copy of /repo, runs the property's
# quick check against the copy and reports whether the monitor fired.
# exit 0 = detected (check exited 1 with a VIOLATION line); 1 = missed; 2 = broken.
set -u
ID=$1; PATCH=$(readlink -f "$2"); shift 2
S=/var/tmp/verif-scratch-$ID-$$
trap 'rm -rf "$S"' EXIT
mkdir -p "$S"
rsync -a --exclude .git /repo/ "$S/repo/"
( cd "$S/repo" && patch -p1 --no-backup-if-mismatch -s < "$PATCH" ) || { echo "SELFTEST $ID $(basename $PATCH): patch does not apply"; exit 2; }
export GOFLAGS=-mod=mod GOPROXY=off GOSUMDB=off GOTOOLCHAIN=local
VERIF_REPO="$S/repo" VERIF_WORKROOT="$S/work" VERIF_EVIDENCE_DIR="$S/evidence" VERIF_REPLAYS="$S/replays" \
  /verif/check "$ID" "$@" > "$S/out.log" 2>&1
rc=$?
grep -E '^(VIOLATION|  signature|KNOWN-FINDING|INCONCLUSIVE|BROKEN|VERIF-RESULT)' "$S/out.log" | head -8
if [ $rc -eq 1 ] && grep -q '^VIOLATION property='"$ID" "$S/out.log"; then
  echo "SELFTEST $ID $(basename $PATCH): DETECTED"; exit 0
elif [ $rc -eq 0 ] || [ $rc -eq 3 ]; then
  echo "SELFTEST $ID $(basename $PATCH): MISSED (rc=$rc)"; exit 1
else
  tail -20 "$S/out.log"; echo "SELFTEST $ID $(basename $PATCH): BROKEN (rc=$rc)"; exit 2
fi
