#!/usr/bin/env python3
"""mkmut.py <ID> <name> <repo-relative-file> <<< JSON [[old,new],...]  -> selftest/mutants/<ID>/<name>.patch"""
import sys, json, os, subprocess, tempfile
pid, name, rel = sys.argv[1:4]
pairs = json.loads(sys.stdin.read(), strict=False)
src = open(os.path.join('/repo', rel)).read()
new = src
for old, rep in pairs:
    assert new.count(old) >= 1, "pattern not found: %r" % old
    new = new.replace(old, rep, 1)
d = tempfile.mkdtemp()
os.makedirs(os.path.join(d, 'a', os.path.dirname(rel))); os.makedirs(os.path.join(d, 'b', os.path.dirname(rel)))
open(os.path.join(d, 'a', rel), 'w').write(src); open(os.path.join(d, 'b', rel), 'w').write(new)
out = subprocess.run(['diff', '-u', os.path.join('a', rel), os.path.join('b', rel)], cwd=d, capture_output=True, text=True).stdout
os.makedirs('/verif/selftest/mutants/%s' % pid, exist_ok=True)
open('/verif/selftest/mutants/%s/%s.patch' % (pid, name), 'w').write(out)
print('wrote', name, len(out.splitlines()), 'lines')
