module verifkit

go 1.18
