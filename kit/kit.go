// Package kit is the small shared library of the /verif harnesses: seeded
// PRNG streams, tiers, evidence parts, violation/replay files and the
// known-findings matcher. It has no dependencies outside the standard library
// so it can be linked into any snapd test binary through a replace directive.
package kit

import (
	"crypto/sha256"
	"encoding/hex"
	"encoding/json"
	"fmt"
	"math/rand"
	"os"
	"path/filepath"
	"sort"
	"strconv"
	"strings"
	"sync"
	"time"
)

// Home is the /verif directory.
func Home() string {
	if h := os.Getenv("VERIF_HOME"); h != "" {
		return h
	}
	return "/verif"
}

// Repo is the tree under test.
func Repo() string {
	if h := os.Getenv("VERIF_REPO"); h != "" {
		return h
	}
	return "/repo"
}

// Seed is VERIF_SEED (default 1).
func Seed() int64 {
	if s := os.Getenv("VERIF_SEED"); s != "" {
		if n, err := strconv.ParseInt(s, 10, 64); err == nil {
			return n
		}
	}
	return 1
}

// Tier is "quick" or "thorough".
func Tier() string {
	if os.Getenv("VERIF_TIER") == "thorough" {
		return "thorough"
	}
	return "quick"
}

func Quick() bool { return Tier() == "quick" }

// Scale picks the quick or the thorough size. The thorough size is what ONE
// shard does; shards multiply it.
func Scale(quick, thorough int) int {
	if Quick() {
		return quick
	}
	return thorough
}

// Shard returns (index, count) from VERIF_SHARD="i/n" (default 0/1).
func Shard() (int, int) {
	s := os.Getenv("VERIF_SHARD")
	if s == "" {
		return 0, 1
	}
	parts := strings.SplitN(s, "/", 2)
	if len(parts) != 2 {
		return 0, 1
	}
	i, e1 := strconv.Atoi(parts[0])
	n, e2 := strconv.Atoi(parts[1])
	if e1 != nil || e2 != nil || n <= 0 || i < 0 || i >= n {
		return 0, 1
	}
	return i, n
}

// OnlyCase returns the case index to replay, or -1.
func OnlyCase() int {
	if s := os.Getenv("VERIF_ONLY_CASE"); s != "" {
		if n, err := strconv.Atoi(s); err == nil {
			return n
		}
	}
	return -1
}

// WorkDir is a scratch directory for this property run (created).
func WorkDir(id string) string {
	d := os.Getenv("VERIF_WORK")
	if d == "" {
		d = filepath.Join(Home(), ".work", id)
	}
	os.MkdirAll(d, 0755)
	return d
}

func hash64(s string) int64 {
	h := sha256.Sum256([]byte(s))
	var v int64
	for i := 0; i < 8; i++ {
		v = v<<8 | int64(h[i])
	}
	return v
}

// NewRand returns a PRNG that is a pure function of (seed, shard, stream).
func NewRand(stream string) *rand.Rand {
	i, _ := Shard()
	return rand.New(rand.NewSource(hash64(fmt.Sprintf("%d/%d/%s", Seed(), i, stream))))
}

// CaseRand returns a PRNG for one numbered case of a stream, so that a case can
// be regenerated from {seed, shard, stream, index} alone.
func CaseRand(stream string, idx int) *rand.Rand {
	i, _ := Shard()
	return rand.New(rand.NewSource(hash64(fmt.Sprintf("%d/%d/%s#%d", Seed(), i, stream, idx))))
}

// Sig hashes any structural description into a short signature.
func Sig(parts ...interface{}) string {
	h := sha256.New()
	for _, p := range parts {
		fmt.Fprintf(h, "%v\x00", p)
	}
	return hex.EncodeToString(h.Sum(nil)[:8])
}

type finding struct {
	Property    string `json:"property"`
	Signature   string `json:"signature"`
	Status      string `json:"status"`
	Commit      string `json:"commit,omitempty"`
	Description string `json:"description"`
}

func loadFindings() []finding {
	b, err := os.ReadFile(filepath.Join(Home(), "known_findings.json"))
	if err != nil {
		return nil
	}
	var fs []finding
	if err := json.Unmarshal(b, &fs); err != nil {
		fmt.Printf("BROKEN known_findings.json: %v\n", err)
		return nil
	}
	return fs
}

// Check accumulates what one property's monitors observed in this process.
type Check struct {
	mu        sync.Mutex
	ID        string
	Level     string
	start     time.Time
	evals     int64
	distinctN int64
	sigs      map[string]struct{}
	counters  map[string]int64
	samples   []interface{}
	maxSample int
	rule      string
	assume    []string
	notes     map[string]interface{}
	exhaust   bool

	violations   int
	violSigs     map[string]int
	known        map[string]int
	knownDesc    map[string]string
	inconclusive []string
	findings     []finding
	finished     bool
	minDistinct  int
	minEvents    map[string]int64
}

var (
	allMu  sync.Mutex
	allChk []*Check
)

// New starts a check for property id at the given evidence level
// ("exploration" or "fault_enumeration").
func New(id, level string) *Check {
	c := &Check{ID: id, Level: level, start: time.Now(), sigs: map[string]struct{}{},
		counters: map[string]int64{}, maxSample: 4, notes: map[string]interface{}{},
		violSigs: map[string]int{}, known: map[string]int{}, knownDesc: map[string]string{},
		minDistinct: 2, minEvents: map[string]int64{}}
	for _, f := range loadFindings() {
		if f.Property == id {
			c.findings = append(c.findings, f)
		}
	}
	allMu.Lock()
	allChk = append(allChk, c)
	allMu.Unlock()
	return c
}

func (c *Check) Rule(s string)   { c.mu.Lock(); c.rule = s; c.mu.Unlock() }
func (c *Check) Assume(s string) { c.mu.Lock(); c.assume = append(c.assume, s); c.mu.Unlock() }
func (c *Check) Exhaustive()     { c.mu.Lock(); c.exhaust = true; c.mu.Unlock() }
func (c *Check) Note(k string, v interface{}) {
	c.mu.Lock()
	c.notes[k] = v
	c.mu.Unlock()
}

// Floor declares that fewer than n events of the named counter make the run
// inconclusive.
func (c *Check) Floor(counter string, n int64) {
	c.mu.Lock()
	c.minEvents[counter] = n
	c.mu.Unlock()
}

// MinDistinct sets the floor for distinct non-trivial cases (default 2).
func (c *Check) MinDistinct(n int) { c.mu.Lock(); c.minDistinct = n; c.mu.Unlock() }

// Eval counts one executed case.
func (c *Check) Eval() { c.mu.Lock(); c.evals++; c.mu.Unlock() }

// EvalN counts n executed cases.
func (c *Check) EvalN(n int) { c.mu.Lock(); c.evals += int64(n); c.mu.Unlock() }

// Nontrivial records the structural signature of a case that is non-trivial by
// the property's rule. Distinct signatures are what distinct_nontrivial counts.
func (c *Check) Nontrivial(sig string) {
	c.mu.Lock()
	c.sigs[sig] = struct{}{}
	c.mu.Unlock()
}

// DistinctEnumerated adds n cases that are distinct *by construction* (the
// harness enumerated them without repetition, and shards enumerate disjoint
// parts) and non-trivial by the property's rule, without storing a signature
// for each. Used by exhaustive enumerations of millions of cases.
func (c *Check) DistinctEnumerated(n int64) {
	c.mu.Lock()
	c.distinctN += n
	c.mu.Unlock()
}

// Count adds to a named monitor counter.
func (c *Check) Count(name string, n int) {
	c.mu.Lock()
	c.counters[name] += int64(n)
	c.mu.Unlock()
}

// Max keeps the maximum seen for a named gauge.
func (c *Check) Max(name string, n int) {
	c.mu.Lock()
	if int64(n) > c.counters[name] {
		c.counters[name] = int64(n)
	}
	c.mu.Unlock()
}

// Sample keeps the first few cases verbatim.
func (c *Check) Sample(v interface{}) {
	c.mu.Lock()
	if len(c.samples) < c.maxSample {
		c.samples = append(c.samples, v)
	}
	c.mu.Unlock()
}

// Inconclusive records that a monitor could not reach a verdict.
func (c *Check) Inconclusive(reason string) {
	c.mu.Lock()
	c.inconclusive = append(c.inconclusive, reason)
	c.mu.Unlock()
}

// Violations returns the number of unlisted violations so far.
func (c *Check) Violations() int { c.mu.Lock(); defer c.mu.Unlock(); return c.violations }

// Violation reports that a monitor saw the property refuted. sig is the
// canonical, property-specific signature of the failing input class or call
// site; it is what known_findings.json is matched against (exact match, or
// prefix match when the entry's signature ends in '*'). detail is written to a
// replay file. Returns true when it counted as a new (unlisted) violation.
func (c *Check) Violation(sig string, detail interface{}) bool {
	c.mu.Lock()
	defer c.mu.Unlock()
	for _, f := range c.findings {
		if f.Status != "open" {
			continue
		}
		if f.Signature == sig || (strings.HasSuffix(f.Signature, "*") && strings.HasPrefix(sig, strings.TrimSuffix(f.Signature, "*"))) {
			c.known[f.Signature]++
			c.knownDesc[f.Signature] = f.Description
			return false
		}
	}
	c.violations++
	c.violSigs[sig]++
	if c.violSigs[sig] > 1 || len(c.violSigs) > 8 {
		return true // one replay per signature, at most 8 signatures
	}
	dir := os.Getenv("VERIF_REPLAYS")
	if dir == "" {
		dir = filepath.Join(Home(), "replays")
	}
	os.MkdirAll(dir, 0755)
	shard, nshard := Shard()
	path := filepath.Join(dir, fmt.Sprintf("%s-seed%d-%s-s%d-%s.json", c.ID, Seed(), Tier(), shard, Sig(sig)))
	b, err := json.MarshalIndent(map[string]interface{}{
		"property": c.ID, "seed": Seed(), "tier": Tier(), "shard": fmt.Sprintf("%d/%d", shard, nshard),
		"signature": sig, "witness": detail,
	}, "", " ")
	if err != nil {
		b = []byte(fmt.Sprintf(`{"property":%q,"seed":%d,"tier":%q,"signature":%q,"witness":%q}`, c.ID, Seed(), Tier(), sig, fmt.Sprintf("%+v", detail)))
	}
	os.WriteFile(path, b, 0644)
	fmt.Printf("VIOLATION property=%s replay=%s\n", c.ID, path)
	fmt.Printf("  signature: %s\n", sig)
	return true
}

type part struct {
	PropertyID   string                 `json:"property_id"`
	Level        string                 `json:"level"`
	Tier         string                 `json:"tier"`
	Seed         int64                  `json:"seed"`
	Shard        string                 `json:"shard"`
	Evaluations  int64                  `json:"evaluations"`
	Sigs         []string               `json:"sigs"`
	DistinctEnum int64                  `json:"distinct_enumerated"`
	Counters     map[string]int64       `json:"counters"`
	Samples      []interface{}          `json:"samples"`
	Rule         string                 `json:"rule"`
	Assumptions  []string               `json:"assumptions"`
	Notes        map[string]interface{} `json:"notes"`
	Exhaustive   bool                   `json:"exhaustive"`
	Violations   int                    `json:"violations"`
	ViolSigs     map[string]int         `json:"violation_signatures"`
	Known        map[string]int         `json:"known_findings"`
	KnownDesc    map[string]string      `json:"known_descriptions"`
	Inconclusive []string               `json:"inconclusive"`
	WallS        float64                `json:"wall_s"`
}

// Finish writes this process's evidence part and prints the verdict lines. It
// returns true when the property held on everything observed (known findings
// aside) and the monitors saw enough.
func (c *Check) Finish() bool {
	c.mu.Lock()
	defer c.mu.Unlock()
	if c.finished {
		return c.violations == 0 && len(c.inconclusive) == 0
	}
	c.finished = true
	replaying := OnlyCase() >= 0
	if c.evals < 1 {
		c.inconclusive = append(c.inconclusive, "no case was evaluated")
	}
	if replaying {
		// a replay runs one case: the floors of a full run do not apply
		c.minDistinct = 0
		c.minEvents = map[string]int64{}
	}
	if int64(len(c.sigs))+c.distinctN < int64(c.minDistinct) {
		c.inconclusive = append(c.inconclusive, fmt.Sprintf("only %d distinct non-trivial cases (floor %d)", int64(len(c.sigs))+c.distinctN, c.minDistinct))
	}
	for k, n := range c.minEvents {
		if c.counters[k] < n {
			c.inconclusive = append(c.inconclusive, fmt.Sprintf("monitor counter %s=%d below floor %d", k, c.counters[k], n))
		}
	}
	sigs := make([]string, 0, len(c.sigs))
	for s := range c.sigs {
		sigs = append(sigs, s)
	}
	sort.Strings(sigs)
	shard, nshard := Shard()
	p := part{PropertyID: c.ID, Level: c.Level, Tier: Tier(), Seed: Seed(), Shard: fmt.Sprintf("%d/%d", shard, nshard),
		Evaluations: c.evals, Sigs: sigs, DistinctEnum: c.distinctN, Counters: c.counters, Samples: c.samples, Rule: c.rule,
		Assumptions: c.assume, Notes: c.notes, Exhaustive: c.exhaust, Violations: c.violations, ViolSigs: c.violSigs,
		Known: c.known, KnownDesc: c.knownDesc, Inconclusive: c.inconclusive, WallS: time.Since(c.start).Seconds()}
	b, err := json.Marshal(p)
	if err != nil {
		// samples/notes not serialisable: drop them rather than lose the part
		p.Samples = []interface{}{fmt.Sprintf("%+v", c.samples)}
		p.Notes = nil
		b, _ = json.Marshal(p)
	}
	dir := os.Getenv("VERIF_PARTS")
	if dir == "" {
		dir = filepath.Join(Home(), ".work", "parts")
	}
	os.MkdirAll(dir, 0755)
	if err := os.WriteFile(filepath.Join(dir, fmt.Sprintf("%s.part%s%d.json", c.ID, os.Getenv("VERIF_PART_TAG"), shard)), b, 0644); err != nil {
		fmt.Printf("BROKEN cannot write evidence part: %v\n", err)
	}
	keys := make([]string, 0, len(c.known))
	for k := range c.known {
		keys = append(keys, k)
	}
	sort.Strings(keys)
	for _, k := range keys {
		fmt.Printf("KNOWN-FINDING: property=%s %s [%s, seen %d times]\n", c.ID, c.knownDesc[k], k, c.known[k])
	}
	for _, r := range c.inconclusive {
		fmt.Printf("INCONCLUSIVE property=%s %s\n", c.ID, r)
	}
	status := "held"
	if c.violations > 0 {
		status = "violated"
	} else if len(c.inconclusive) > 0 {
		status = "inconclusive"
	}
	fmt.Printf("VERIF-RESULT property=%s status=%s evaluations=%d distinct_nontrivial=%d violations=%d counters=%v\n",
		c.ID, status, c.evals, int64(len(c.sigs))+c.distinctN, c.violations, c.counters)
	return status == "held"
}

// TB is the subset of testing.TB the kit needs.
type TB interface {
	Errorf(format string, args ...interface{})
}

// Done finishes the check and fails the test when it did not hold.
func (c *Check) Done(t TB) {
	if !c.Finish() {
		t.Errorf("property %s: not held (see VIOLATION/INCONCLUSIVE lines)", c.ID)
	}
}

// JSON renders v compactly for samples and witnesses.
func JSON(v interface{}) string {
	b, err := json.Marshal(v)
	if err != nil {
		return fmt.Sprintf("%+v", v)
	}
	return string(b)
}
