// Placeholder marking the module root. Every build uses -modfile with a go.mod
// generated from $VERIF_REPO/go.mod by ./check (see genmod there).
module verif

go 1.18
